"""C07 — Every epoch uses every training sample once, paired with its own basis.

Observation points (all public): `compute_batch_gradients` wrapped on the instance records the
(samples_batch, neg_batch, bases_batch) of every call of every epoch of real multi-epoch `fit` runs;
`torch.randperm` / `torch.randint` are wrapped from the harness process so that the random outcomes can
be handed to the model; a user callback delimits the epochs; the caller's data / bases objects are
compared before / after `fit`.

Correspondence: for the captured (perm, negidx) of each epoch the extracted Coq model
(Batching.fit_epoch) must return exactly the recorded batches, and the model's description of the
`randint` call (high, size) must equal the captured call.  `extract_refbasis_samples` is also compared
directly (including the shape-error case).

Oracle (independent of the model, plain Python multisets): per epoch the multiset of positive rows equals
the multiset of data rows; the multiset of (row, basis-row) pairs equals that of the inputs; ceil(N/b)
batches, all of b rows except the last with N - b(ceil(N/b)-1) in 1..b; every negative row is a data row
(a row whose basis is all Z when bases are given); negative batches have neg_batch_size rows, except that
in the mirror case (no bases, equal sizes) the tail may be as short as the positive tail (DESIGN 6(a));
caller's objects byte-identical after fit.  The clause "negative-phase chains are STARTED from ..." is decided
on the actual chain start: rbm_am.gibbs_steps / sample_h_given_v are wrapped too, and when a chain start is
observable inside a compute_batch_gradients call (k >= 1) its rows must be the recorded neg_batch rows, by value
(no demand when no chain is observable).

Histories: fit is also called TWICE on one state - with another data object, and with the SAME array / tensor /
list / bases object refilled in place between the calls; the second call is judged against the data as it is at
that call (stale caches of the converted data or of z_samples); a first run ABORTED by an exception (raised by the caller's
callback at epoch start / batch end / epoch end as RuntimeError or KeyboardInterrupt, by the caller's optimizer constructor, or
by the library itself for bases without a reference row; caught by the caller) followed by an ordinary fit on other rows of the
same / another length.  Call forms: data as tensor (double / float32 / int64 / strided / column-major), numpy (float / int /
reversed rows / flipped columns / Fortran order / every second row / read-only), list of lists, list of 1-D arrays, and read
back from text files by the library's loader (also one-row and one-column files: nv = 1, 2); bases as fresh array or as a view;
integer arguments (batch sizes, k, epochs) as np.uint8 / int8 / uint16 / int32 / int64 / 0-d arrays with enough batches that a
wrap of num_batches * neg_batch_size or batch_start + pos_batch_size would show; callbacks omitted / [] / None (epochs cut by
the known number of batches ceil(N / b), the requested number of epochs assumed); user basis letters H, K defined in the state's
unitary_dict (reference rows are exactly the all-Z rows; rows rotated only by user letters are present).  Large data sets (N = 20011 / 150001, batch 4096
or the default 100, each sample row a function of its basis row) are oracle-only (no model call above N = 50)."""
import copy, inspect, itertools, time
from collections import Counter
import numpy as np

RULE = ("all (N, pos_batch_size) with 1 <= N <= 7 (quick) / 9 (thorough), 1 <= pos_batch_size <= N+1; "
        "state in {PositiveWaveFunction (no bases), ComplexWaveFunction, DensityMatrix (bases)}; neg_batch_size "
        "in {None or 0 or omitted (defaulted), explicitly equal, different}; plus runs with pos_batch_size omitted (default 100); data as tensor (double/float32/int64) / numpy / "
        "list rotating (thorough: all three forms, two independent data draws); 2 (quick) / 3 (thorough) epochs; rows drawn from a strict "
        "subset of {0,1}^3 with a duplicate row forced; with bases the all-Z rows and the other rows use "
        "disjoint sample rows. A case is one fit run; non-trivial := N >= 3, >= 2 batches, >= 2 distinct rows "
        "and a duplicated row present. Always first: two-fit histories on one state (other object / same data and-or bases "
        "object refilled in place) and large oracle-only runs (N = 20011, 150001; batch 4096 / default 100); histories also "
        "in the random stream; k in {1,2,3}; chain starts observed through rbm_am.gibbs_steps / sample_h_given_v. "
        "Also always first and rotating in the stream: first run aborted by an exception (callback / optimizer constructor / no reference row) then an "
        "ordinary fit on other rows; callbacks omitted / [] / None; data as numpy views (negative strides, Fortran, every second row, read-only), "
        "tensor views, list of arrays, through load_data / load_data_DM files (nv 1..3, N = 1 included); bases as views; batch sizes / k / epochs "
        "as np.uint8, int8, uint16, int32, int64, 0-d arrays (N up to 300 resp. 150001 so that a wrap shows); basis letters X Y Z H K with a unitary_dict")
ASSUMPTIONS = ["runs without callbacks: the number of epochs is taken as requested (how many epochs a run has is C12), each with ceil(N / b) batches",
               "torch.randperm(N) returns a permutation of 0..N-1 and torch.randint(M, size=(k,)) returns k indices < M "
               "(checked on every captured call)",
               "clause 'training never modifies the caller's data or bases' is correspondence-tested only (byte comparison "
               "before/after fit); the Coq model has no mutable objects"]

NV = 3
ALL_ROWS = [tuple(float(b) for b in r) for r in itertools.product([0, 1], repeat=NV)]


# ----------------------------------------------------------------------------- case generation
EXTRA_LETTERS = "HK"            # user-defined bases beyond X / Y / Z (the state's unitary_dict defines them)
INT_KINDS = ["uint8", "int8", "uint16", "int32", "int64", "arr0d", "arr0d_uint8"]


class HarnessAbort(RuntimeError):
    """raised by the harness's own callback to abort a run"""


class HarnessInterrupt(KeyboardInterrupt):
    """... the same as a Ctrl-C"""


def all_rows(nv):
    return ALL_ROWS if nv == NV else [tuple(float(b) for b in r) for r in itertools.product([0, 1], repeat=nv)]


def gen_case(ctx, kind, N, pos_bs, negmode, form, epochs, nv=NV, letters="XYZ"):
    rng = ctx.rng
    with_bases = kind != "positive"
    AR = all_rows(nv)
    order = list(rng.permutation(len(AR)))
    if not with_bases:
        allowed = [AR[i] for i in order[:max(1, len(AR) // 2)]]   # strict subset: a foreign negative row is detectable
        rows = [allowed[int(rng.integers(0, len(allowed)))] for _ in range(N)]
        bases = None
    else:
        nzr = max(1, len(AR) // 4)
        zrows = [AR[i] for i in order[:nzr]]
        orows = [AR[i] for i in order[nzr:nzr + 3]]
        nz = 1 if N == 1 else int(rng.integers(1, N))         # >= 1 all-Z row, >= 1 other row when N >= 2
        pairs = []
        for _ in range(nz):
            pairs.append((zrows[int(rng.integers(0, len(zrows)))], "Z" * nv))
        extra = [c for c in letters if c not in "XYZ"]
        for t in range(N - nz):
            # with user letters: every second non-reference row is rotated ONLY by user letters (no X, no Y in it)
            alpha = (["Z"] + extra) if (extra and t % 2 == 0) else list(letters)
            while True:
                b = "".join(rng.choice(alpha, size=nv))
                if b != "Z" * nv:
                    break
            pairs.append((orows[int(rng.integers(0, len(orows)))], b))
        pairs = [pairs[i] for i in rng.permutation(N)]
        rows = [p[0] for p in pairs]
        bases = [p[1] for p in pairs]
    # force a duplicated row (same sample, same basis row) when there is room, keeping both classes of rows
    if N >= 3:
        i, j = [int(x) for x in rng.choice(N, size=2, replace=False)]
        rows[j] = rows[i]
        if bases is not None:
            bases[j] = bases[i]
            k = [t for t in range(N) if t not in (i, j)][0]
            nzc = sum(b == "Z" * nv for b in bases)
            if nzc == 0:                                       # the duplication removed the last all-Z row
                rows[k], bases[k] = zrows[0], "Z" * nv
            elif nzc == N:                                     # ... or the last other row
                rows[k], bases[k] = orows[0], ((letters[-1] if letters != "XYZ" else "X") + "ZY")[:nv]
    if negmode == "default":
        neg_arg = None
    elif negmode == "zero":
        neg_arg = 0
    elif negmode == "equal":
        neg_arg = pos_bs
    else:
        choices = [x for x in range(1, N + 3) if x != pos_bs]
        neg_arg = int(choices[int(rng.integers(0, len(choices)))])
    case = {"kind": kind, "N": N, "pos_bs": pos_bs, "negmode": negmode, "neg_arg": neg_arg, "form": form,
            "epochs": epochs, "rows": [list(r) for r in rows], "bases": bases,
            "nh": int(rng.integers(1, 3)), "tseed": int(rng.integers(0, 2 ** 31 - 1)),
            "k": int(rng.choice([1, 1, 2, 3]))}
    if nv != NV:
        case["nv"] = nv
    if letters != "XYZ" and with_bases:
        case["letters"] = letters
    return case


def large_case(ctx, kind, N, pos_bs, neg_arg, form, pos_default=False, stub=False):
    """Oracle-only large run; rows are generated from a recipe (kept out of the evidence / replay files).
    With bases every sample row is a function of its basis row (x_j = 1 iff basis_j == 'Z'), so a row handed
    over with a foreign basis row is visible although the data are full of duplicates."""
    return {"kind": kind, "N": N, "pos_bs": 100 if pos_default else pos_bs, "pos_default": pos_default,
            "negmode": "default" if neg_arg is None else "diff", "neg_arg": neg_arg, "neg_omitted": neg_arg is None,
            "form": form, "epochs": 1, "nh": 2, "k": 1, "stub_grad": stub,
            "tseed": int(ctx.rng.integers(0, 2 ** 31 - 1)),
            "recipe": {"seed": int(ctx.rng.integers(0, 2 ** 31 - 1)), "N": N, "with_bases": kind != "positive"}}


def case_rows(case):
    """(rows, bases) of a case: stored, or regenerated from its recipe."""
    if "recipe" not in case:
        return [list(r) for r in case["rows"]], case["bases"]
    rc = case["recipe"]
    g = np.random.default_rng(rc["seed"])
    if rc["with_bases"]:
        b = g.choice(np.array(list("XYZ")), size=(rc["N"], NV), p=[0.1, 0.1, 0.8])
        b[0, :] = "Z"                                           # at least one reference-basis row
        rows = (b == "Z").astype(float).tolist()
        return rows, ["".join(r) for r in b.tolist()]
    allowed = np.array([ALL_ROWS[i] for i in g.permutation(len(ALL_ROWS))[:4]])
    return allowed[g.integers(0, 4, size=rc["N"])].tolist(), None


def user_unitaries():
    """Two further one-qubit bases: H = Hadamard, K = (1 + i X)/sqrt 2 (both unitary)."""
    import torch
    h = 2 ** -0.5
    return {"H": torch.tensor([[[h, h], [h, -h]], [[0., 0.], [0., 0.]]], dtype=torch.double),
            "K": torch.tensor([[[h, 0.], [0., h]], [[0., h], [h, 0.]]], dtype=torch.double)}


def make_state(case):
    from qucumber.nn_states import PositiveWaveFunction, ComplexWaveFunction, DensityMatrix
    from qucumber.utils import unitaries
    nv = case.get("nv", NV)
    kw = {}
    if case.get("letters"):
        uu = user_unitaries()
        kw["unitary_dict"] = unitaries.create_dict(**{c: uu[c] for c in case["letters"] if c in uu})
    if case["kind"] == "positive":
        return PositiveWaveFunction(nv, case["nh"], gpu=False)
    if case["kind"] == "complex":
        return ComplexWaveFunction(nv, case["nh"], gpu=False, **kw)
    return DensityMatrix(nv, case["nh"], 1, gpu=False, **kw)


_SCRATCH = [None]
_FILE_COUNTER = itertools.count()


def load_through_files(case):
    """The documented route: samples (and bases) written to text files and read back by the library's loader."""
    import os
    from qucumber.utils.data import load_data, load_data_DM
    d = _SCRATCH[0]
    tag = "%d_%d" % (os.getpid(), next(_FILE_COUNTER))
    ps, pb = os.path.join(d, "c07_samples_%s.txt" % tag), os.path.join(d, "c07_bases_%s.txt" % tag)
    with open(ps, "w") as f:
        f.write("".join(" ".join(str(int(x)) for x in r) + "\n" for r in case["rows"]))
    try:
        if case["bases"] is None:
            return load_data(ps)[0], None
        with open(pb, "w") as f:
            f.write("".join(" ".join(b) + "\n" for b in case["bases"]))
        out = (load_data_DM if case["kind"] == "dm" else load_data)(ps, tr_bases_path=pb)
        return out[0], out[1]
    finally:
        for q in (ps, pb):
            if os.path.exists(q):
                os.remove(q)


def make_data_object(case):
    import torch
    rows, form = case["rows"], case["form"]
    if form == "tensor_double":
        return torch.tensor(rows, dtype=torch.double)
    if form == "tensor_float":
        return torch.tensor(rows, dtype=torch.float32)
    if form == "tensor_long":
        return torch.tensor(rows, dtype=torch.double).to(torch.long)
    if form == "tensor_stride2":                                # every second row of a larger tensor
        big = torch.full((2 * len(rows), len(rows[0])), 0.5, dtype=torch.double)
        big[::2] = torch.tensor(rows, dtype=torch.double)
        return big[::2]
    if form == "tensor_t":                                      # column-major tensor (transposed view)
        return torch.tensor(rows, dtype=torch.double).t().contiguous().t()
    if form == "numpy":
        return np.array(rows, dtype=np.float64)
    if form == "numpy_int":
        return np.array(rows, dtype=np.int64)
    a = np.array(rows, dtype=np.float64)
    if form == "numpy_reversed":                                # views with negative strides
        return a[::-1].copy()[::-1]
    if form == "numpy_flipped":
        return a[:, ::-1].copy()[:, ::-1]
    if form == "numpy_fortran":
        return np.asfortranarray(a)
    if form == "numpy_stride2":
        big = np.full((2 * a.shape[0], a.shape[1]), 0.5); big[::2] = a
        return big[::2]
    if form == "numpy_readonly":
        a.setflags(write=False)
        return a
    if form == "list_of_arrays":
        return [np.array(r, dtype=np.float64) for r in rows]
    return [[float(x) for x in r] for r in rows]                # plain list of lists


def make_bases_object(case):
    b = np.array([list(x) for x in case["bases"]])
    bf = case.get("bases_form")
    if bf == "reversed":
        return b[::-1].copy()[::-1]
    if bf == "fortran":
        return np.asfortranarray(b)
    if bf == "stride2":
        big = np.full((2 * b.shape[0], b.shape[1]), "Q"); big[::2] = b
        return big[::2]
    if bf == "readonly":
        b.setflags(write=False)
    return b


def as_int(v, kind):
    if v is None or kind is None:
        return v
    if kind == "arr0d":
        return np.array(int(v))
    if kind == "arr0d_uint8":
        return np.array(int(v), dtype=np.uint8)
    return np.dtype(kind).type(int(v))


def snapshot(obj):
    import torch
    if isinstance(obj, torch.Tensor):
        return ("tensor", str(obj.dtype), tuple(obj.shape), obj.clone().numpy().tobytes())
    if isinstance(obj, np.ndarray):
        return ("ndarray", str(obj.dtype), tuple(obj.shape), obj.tobytes())
    return ("list", [[float(x) for x in r] for r in obj], [type(r).__name__ for r in obj])


# ----------------------------------------------------------------------------- instrumented fit
def refill(obj, rows_or_bases):
    """Overwrite a caller-side container IN PLACE (same object identity) with new content of the same shape."""
    import torch
    if isinstance(obj, torch.Tensor):
        obj.copy_(torch.tensor(rows_or_bases, dtype=torch.double).to(obj.dtype))
    elif isinstance(obj, np.ndarray):
        ro = not obj.flags.writeable
        if ro:
            obj.setflags(write=True)                           # the caller's own array: the caller may write to it
        obj[:] = np.array(rows_or_bases, dtype=obj.dtype) if obj.dtype.kind != "U" else np.array([list(b) for b in rows_or_bases])
        if ro:
            obj.setflags(write=False)
    else:
        for i, r in enumerate(rows_or_bases):
            obj[i][:] = [float(x) for x in r]


def run_fit(case, session=None, reuse="other"):
    """Real fit with recording wrappers.  Returns (log, data_obj, bases_obj, snapshots_before, error, session).
    With a session the SAME state is trained again; reuse says which caller-side objects are the same objects
    as in the previous call, refilled in place: same_both / same_data / same_bases / other."""
    import torch
    from qucumber.callbacks import CallbackBase
    if session is None:
        torch.manual_seed(case["tseed"])
        session = {"state": make_state(case), "data_obj": None, "bases_obj": None}
    state = session["state"]
    try:
        loaded = load_through_files(case) if case["form"] == "loaded" else None
    except Exception as e:                                     # the library's loader raised on a well-formed file
        return [], None, None, (None, None), e, session
    if session["data_obj"] is not None and reuse in ("same_both", "same_data"):
        data_obj = session["data_obj"]
        refill(data_obj, case["rows"])
    else:
        data_obj = loaded[0] if loaded else make_data_object(case)
    if case["bases"] is None:
        bases_obj = None
    elif session["bases_obj"] is not None and reuse in ("same_both", "same_bases"):
        bases_obj = session["bases_obj"]
        refill(bases_obj, case["bases"])
    else:
        bases_obj = loaded[1] if loaded else make_bases_object(case)
    session["data_obj"], session["bases_obj"] = data_obj, bases_obj
    before = (snapshot(data_obj), None if bases_obj is None else snapshot(bases_obj))
    log = []

    abort = case.get("abort")

    def maybe_abort(hook, epoch):
        if abort and abort["hook"] == hook and epoch == abort["epoch"]:
            raise (HarnessInterrupt if abort.get("exc") == "KeyboardInterrupt" else HarnessAbort)("raised by the caller's callback")

    class Marks(CallbackBase):
        def on_epoch_start(self, nn_state, epoch):
            log.append(("epoch_start", epoch))
            maybe_abort("on_epoch_start", epoch)

        def on_batch_end(self, nn_state, epoch, batch):
            maybe_abort("on_batch_end", epoch)

        def on_epoch_end(self, nn_state, epoch):
            log.append(("epoch_end", epoch))
            maybe_abort("on_epoch_end", epoch)

    orig_cbg = state.compute_batch_gradients
    try:
        sig = inspect.signature(orig_cbg)
    except (TypeError, ValueError):
        sig = None

    def norm(b):
        if isinstance(b, torch.Tensor):
            b = b.detach().clone()
            if b.dim() != 2:                                    # not a batch of rows: keep it comparable (the oracle will object)
                b = b.reshape(-1, 1) if b.dim() < 2 else b.reshape(b.shape[0], -1)
            return b.tolist()
        if b is None:
            return None
        return ["".join(r) for r in np.asarray(b).reshape(len(b), -1).tolist()] if np.ndim(b) >= 1 else [str(b)]

    cur_starts = [None]          # chain starts observed inside the compute_batch_gradients call in progress
    depth = [0]

    def rec_cbg(*a, **kw):
        # the arguments are read BY NAME (samples_batch / neg_batch / bases_batch), whether the caller
        # passes them positionally or by keyword
        named = {}
        if sig is not None:
            try:
                named = dict(sig.bind(*a, **kw).arguments)
            except TypeError:
                named = {}
        extra_pos = list(named.get("args", ()))                 # PositiveWaveFunction: (k, samples, neg, *args, **kwargs)
        extra_kw = dict(named.get("kwargs", {}))
        samples = named.get("samples_batch", a[1] if len(a) > 1 else kw.get("samples_batch"))
        neg = named.get("neg_batch", a[2] if len(a) > 2 else kw.get("neg_batch"))
        if "bases_batch" in named:
            bb = named["bases_batch"]
        elif "bases_batch" in extra_kw:
            bb = extra_kw["bases_batch"]
        elif extra_pos:
            bb = extra_pos[0]
        else:
            bb = kw.get("bases_batch", a[3] if len(a) > 3 else None)
        starts = []
        log.append(("batch", [norm(samples), norm(neg), norm(bb)], starts))
        if case.get("stub_grad"):                               # large default-batch runs: skip the gradient arithmetic
            return [torch.zeros(getattr(state, net).num_pars, dtype=torch.double) for net in state.networks]
        cur_starts[0] = starts
        try:
            return orig_cbg(*a, **kw)
        finally:
            cur_starts[0] = None

    state.compute_batch_gradients = rec_cbg

    # the actual chain start: first entry into the amplitude RBM's sampler inside a compute_batch_gradients call
    rbm = state.rbm_am
    wrapped = []

    def wrap_sampler(name, argname):
        orig = getattr(rbm, name, None)
        if orig is None:
            return
        try:
            ssig = inspect.signature(orig)
        except (TypeError, ValueError):
            return

        def w(*a, **kw):
            st = cur_starts[0]
            if st is not None and depth[0] == 0 and not st:
                try:
                    v = ssig.bind(*a, **kw).arguments.get(argname)
                except TypeError:
                    v = None
                if isinstance(v, torch.Tensor):
                    v = v.detach().clone()
                    st.append((v.unsqueeze(0) if v.dim() == 1 else v).tolist())
            depth[0] += 1
            try:
                return orig(*a, **kw)
            finally:
                depth[0] -= 1

        rbm.__dict__[name] = w
        wrapped.append(name)

    wrap_sampler("gibbs_steps", "initial_state")
    wrap_sampler("sample_h_given_v", "v")

    orig_perm, orig_int = torch.randperm, torch.randint

    def rec_perm(*a, **k):
        r = orig_perm(*a, **k)
        log.append(("randperm", int(r.numel()), [int(x) for x in r.reshape(-1).tolist()]))
        return r

    def rec_int(*a, **k):
        r = orig_int(*a, **k)
        ints = [x for x in a if isinstance(x, int) and not isinstance(x, bool)]
        low, high = (0, k.get("high", ints[0] if ints else None)) if len(ints) < 2 else (ints[0], ints[1])
        size = k.get("size", next((x for x in a if isinstance(x, (tuple, list, torch.Size))), None))
        log.append(("randint", int(low), None if high is None else int(high),
                    None if size is None else [int(s) for s in size], [int(x) for x in r.reshape(-1).tolist()]))
        return r

    torch.randperm, torch.randint = rec_perm, rec_int
    err = None
    try:
        ik = case.get("int_kind")                              # integer arguments as narrow numpy integers / 0-d arrays
        kw = dict(epochs=as_int(case["epochs"], ik), neg_batch_size=as_int(case["neg_arg"], ik), k=as_int(case.get("k", 1), ik),
                  lr=1e-6, progbar=False, callbacks=[Marks()])
        if case.get("no_cb") == "omitted":
            del kw["callbacks"]                                 # nobody marks the epochs
        elif case.get("no_cb") == "empty_list":
            kw["callbacks"] = []
        elif case.get("no_cb") == "none":
            kw["callbacks"] = None
        if abort and abort["hook"] == "optimizer_raises":      # the run dies inside fit, before the first epoch

            def failing_optimizer(*a, **k):
                raise HarnessAbort("raised by the caller's optimizer constructor")
            kw["optimizer"] = failing_optimizer
        if not case.get("pos_default"):
            kw["pos_batch_size"] = as_int(case["pos_bs"], ik)  # else: the documented default (100)
        if case["neg_arg"] is None and case.get("neg_omitted"):
            del kw["neg_batch_size"]
        if bases_obj is not None:
            kw["input_bases"] = bases_obj
        import warnings
        with warnings.catch_warnings():
            warnings.simplefilter("ignore")
            state.fit(data_obj, **kw)
    except (Exception, KeyboardInterrupt) as e:                # reported by the caller
        if isinstance(e, KeyboardInterrupt) and not isinstance(e, HarnessInterrupt):
            raise
        err = e
    finally:
        torch.randperm, torch.randint = orig_perm, orig_int
        state.__dict__.pop("compute_batch_gradients", None)    # the state may be trained again
        for name in wrapped:
            rbm.__dict__.pop(name, None)
    return log, data_obj, bases_obj, before, err, session


def split_epochs(log, failed=False, chunk=None):
    """One record per epoch (delimited by the user callback's on_epoch_start / on_epoch_end):
    {"ep", "batches", "perms", "ints", "ended"}.  The random calls attributed to an epoch are those made since the
    last batch of the previous epoch and before this epoch's FIRST batch, wherever they sit relative to
    on_epoch_start (the property does not fix that order).  chunk = n: a run WITHOUT callbacks, epochs are cut
    after every n batches (n = ceil(N / batch size))."""
    epochs, cur, pend_p, pend_i = [], None, [], []
    for ev in log:
        if ev[0] == "randperm":
            pend_p.append(ev)
        elif ev[0] == "randint":
            pend_i.append(ev)
        elif ev[0] == "epoch_start":
            cur = {"ep": ev[1], "perms": [], "ints": [], "batches": [], "ended": False}
            epochs.append(cur)
        elif ev[0] == "batch":
            if chunk is not None and (cur is None or len(cur["batches"]) >= chunk):
                cur = {"ep": len(epochs) + 1, "perms": [], "ints": [], "batches": [], "ended": True}
                epochs.append(cur)
            if cur is None:                                    # batch outside the epoch marks
                cur = {"ep": "?", "perms": [], "ints": [], "batches": [], "ended": False}
                epochs.append(cur)
            if not cur["batches"]:
                cur["perms"], cur["ints"], pend_p, pend_i = pend_p, pend_i, [], []
            cur["batches"].append(ev[1] + [ev[2]])             # [samples, neg, bases, chain starts]
        elif ev[0] == "epoch_end":
            if cur is not None:
                cur["ended"] = True
            cur = None
    if failed and (pend_p or pend_i):                          # raised before the first batch of an epoch
        if cur is None or cur["batches"]:
            cur = {"ep": "?", "perms": [], "ints": [], "batches": [], "ended": False}
            epochs.append(cur)
        cur["perms"], cur["ints"] = pend_p, pend_i
    return epochs


def codes(bases):
    return [[ord(c) for c in b] for b in bases]


# ----------------------------------------------------------------------------- one case
def one_case(ctx, case, correspondence=True, session=None, reuse="other", first=None):
    """One fit run (optionally the second one on the state of `session`) judged by the oracle and compared
    with the model.  Returns the session so that the same state / objects can be trained again."""
    _SCRATCH[0] = ctx.scratch
    rows_l, bases = case_rows(case)
    full = dict(case, rows=rows_l, bases=bases)
    rows = [tuple(r) for r in rows_l]
    N, pos_bs = case["N"], case["pos_bs"]
    # the record written into replay files: everything needed to re-run (rows come from the recipe if large)
    rcase = dict(case)
    if first is not None:
        rcase = dict(rcase, history_first=first, reuse=reuse)
    large = "recipe" in case
    correspondence = correspondence and N <= 50
    neg_eff = case["neg_arg"] if case["neg_arg"] else pos_bs
    mirror = bases is None and neg_eff == pos_bs
    nb = -(-N // pos_bs)
    distinct = len(set(zip(rows, bases)) if bases else set(rows))
    nontriv = N >= 3 and nb >= 2 and distinct >= 2 and distinct < N
    desc = {k: case.get(k) for k in ("kind", "N", "pos_bs", "neg_arg", "form", "tseed", "pos_default", "neg_omitted", "k", "recipe")}
    desc.update({k: case[k] for k in ("nv", "letters", "int_kind", "no_cb", "abort", "bases_form") if case.get(k) is not None})
    if not large:
        desc.update(rows=case["rows"], bases=case["bases"])
    if first is not None:
        desc.update(second_fit_on_same_state=reuse, first_tseed=first.get("tseed"))
    ctx.case(desc, nontrivial=nontriv)
    ctx.count("kind:" + case["kind"]); ctx.count("neg:" + case["negmode"]); ctx.count("form:" + case["form"])
    ctx.count("shape:" + ("N<b" if N < pos_bs else "N=m*b" if N % pos_bs == 0 else "N=m*b+r"))
    ctx.count("k:%d" % case.get("k", 1))
    ctx.count("integer_arguments:" + str(case.get("int_kind") or "python_int"))
    ctx.count("callbacks:" + str(case.get("no_cb") or "marks"))
    ctx.count("nv:%d" % case.get("nv", NV))
    if bases is not None:
        ctx.count("bases_form:" + str(case.get("bases_form") or "fresh_c_order"))
        ctx.count("basis_letters:" + case.get("letters", "XYZ"))
        if any(set(b) - set("XYZ") and not set(b) & set("XY") for b in bases):
            ctx.count("has_row_rotated_only_by_user_letters")
    if case.get("abort"):
        ctx.count("first_run_aborted:%s:%s" % (case["abort"]["hook"], case["abort"].get("exc")))
    if first is not None and first.get("abort"):
        ctx.count("second_fit_after_aborted_run:" + ("same_N" if first["N"] == N else "other_N"))
    if large:
        ctx.count("large:N=%d" % N)
    if first is not None:
        ctx.count("second_fit:" + reuse)
    if distinct < N:
        ctx.count("has_duplicate_rows")
    if N == 1 and bases is not None:
        ctx.count("single_row_with_bases")

    log, data_obj, bases_obj, before, err, session = run_fit(full, session, reuse)
    aborted = isinstance(err, (HarnessAbort, HarnessInterrupt))
    if err is not None and (case.get("abort") or {}).get("hook") == "no_reference_row":
        aborted = True                     # no all-Z row: nothing to start the chains from; the library gives up (not a subject of the property)
    epochs = split_epochs(log, failed=err is not None and not aborted, chunk=nb if case.get("no_cb") else None)
    if aborted:
        # the caller's own callback raised (and the caller caught it): the epochs completed before that are judged
        err = None
        epochs = [e for e in epochs if e["ended"]]
        correspondence = False
    elif case.get("abort"):
        ctx.count("abort_hook_not_reached")
    if case.get("no_cb") and err is None:
        # a run without callbacks: nobody marks the epochs; the requested number of epochs, ceil(N / b) batches each
        total = sum(1 for ev in log if ev[0] == "batch")
        if not ctx.require("number of batches == ceil(N / batch size) in every epoch (run without callbacks)", total == case["epochs"] * nb, rcase,
                           "%d batches in %d epochs, expected %d per epoch" % (total, case["epochs"], nb)):
            return session
    if err is not None:
        # the property says training runs on every N >= 1 (incl. a single row with bases): an exception
        # is a failing input
        ctx.require("fit raised " + type(err).__name__, False, rcase, repr(err)[:300])
        if correspondence:
            correspond(ctx, full, epochs, True, rcase)
        return session

    # ---- oracle: the property relation on what the implementation did
    # how many epochs a run has is C12's subject; here only: training happened, and every epoch seen is checked
    if not aborted:
        ctx.require("training ran at least one epoch", len(epochs) >= 1, rcase, "no epoch observed")
    ctx.count("epochs_seen==requested" if len(epochs) == case["epochs"] else "epochs_seen!=requested")
    want_rows = Counter(rows)
    want_pairs = Counter(zip(rows, bases)) if bases else None
    zrows = set(r for r, b in zip(rows, bases) if all(c == "Z" for c in b)) if bases else None
    for e in epochs:
        bl = e["batches"]
        tag = "epoch %s: " % e["ep"]
        pos = [[tuple(r) for r in b[0]] for b in bl]
        neg = [[tuple(r) for r in b[1]] for b in bl]
        bb = [b[2] for b in bl]
        got_rows = Counter(r for p in pos for r in p)
        ctx.require("every data row is in exactly one positive batch", got_rows == want_rows, rcase,
                    tag + "positive rows %r vs data %r" % (sorted(got_rows.items()), sorted(want_rows.items())))
        if bases is not None:
            shapes_ok = all(x is not None and len(x) == len(p) for x, p in zip(bb, pos))
            ctx.require("bases batch has one basis row per sample row", shapes_ok, rcase, tag + repr([(len(p), None if x is None else len(x)) for p, x in zip(pos, bb)]))
            if shapes_ok:
                got_pairs = Counter((r, s) for p, x in zip(pos, bb) for r, s in zip(p, x))
                ctx.require("every row keeps its own basis row", got_pairs == want_pairs, rcase,
                            tag + "pairs %r vs inputs %r" % (sorted(got_pairs.items()), sorted(want_pairs.items())))
        ctx.require("number of batches == ceil(N / batch size)", len(bl) == nb, rcase, tag + "%d batches, expected %d" % (len(bl), nb))
        sizes = [len(p) for p in pos]
        if sizes:
            last = N - pos_bs * (nb - 1)
            ok = all(s == pos_bs for s in sizes[:-1]) and (len(sizes) != nb or sizes[-1] == last) and 1 <= sizes[-1] <= pos_bs
            ctx.require("batches have the requested size except possibly the last", ok, rcase, tag + "sizes %r (N=%d, b=%d)" % (sizes, N, pos_bs))
        src = zrows if bases is not None else set(rows)
        bad = [r for q in neg for r in q if r not in src]
        ctx.require("negative rows are rows of the training data" + (" measured in the reference basis" if bases is not None else ""),
                    not bad, rcase, tag + "foreign negative rows %r" % bad[:4])
        nsz = [len(q) for q in neg]
        ok = all(s == neg_eff or (mirror and s == len(p)) for s, p in zip(nsz, pos))
        ctx.require("negative batches have neg_batch_size rows", ok, rcase, tag + "negative sizes %r, neg_batch_size %d" % (nsz, neg_eff))
        # the chains themselves: where a chain start is observable (k >= 1) it must be the recorded negative batch, by value
        for bi, b in enumerate(bl):
            st = b[3]
            if not st or case.get("k", 1) < 1:
                ctx.count("chain_start:unobserved")
                continue
            ctx.count("chain_start:observed")
            got_st = Counter(tuple(r) for r in st[0])
            ctx.require("negative-phase chains start from the negative batch (rows of the training data"
                        + (" measured in the reference basis)" if bases is not None else ")"),
                        got_st == Counter(neg[bi]), rcase,
                        tag + "batch %d: chains started from %r, negative batch %r" % (bi, sorted(got_st.items())[:6], sorted(Counter(neg[bi]).items())[:6]))
        ctx.traces += 1
    after = (snapshot(data_obj), None if bases_obj is None else snapshot(bases_obj))
    ctx.require("caller's data object unchanged by fit", after[0] == before[0], rcase, "form " + case["form"])
    ctx.require("caller's bases object unchanged by fit", after[1] == before[1], rcase)

    if correspondence:
        correspond(ctx, full, epochs, False, rcase)
    return session


def choose_perm(e, rows, bases, N):
    """The permutation handed to the model: a captured randperm outcome that explains the recorded positive
    rows; else one reconstructed from the recorded batches (duplicates are interchangeable for the model);
    else any captured one (the comparison will then show the difference)."""
    flat_pos = [tuple(r) for b in e["batches"] for r in b[0]]
    flat_bb = None
    if bases is not None and all(b[2] is not None for b in e["batches"]):
        flat_bb = [x for b in e["batches"] for x in b[2]]
        if len(flat_bb) != N:
            flat_bb = None
    for p in e["perms"]:      # (a random call made for another purpose may sit in the window: it must explain rows AND bases)
        if sorted(p[2]) == list(range(N)) and [rows[i] for i in p[2]] == flat_pos and \
                (flat_bb is None or [bases[i] for i in p[2]] == flat_bb):
            return p[2], "captured"
    if len(flat_pos) == N:
        used, perm = set(), []
        for j, r in enumerate(flat_pos):
            cand = [i for i in range(N) if i not in used and rows[i] == r and (flat_bb is None or bases[i] == flat_bb[j])]
            if not cand:
                cand = [i for i in range(N) if i not in used and rows[i] == r]
            if not cand:
                perm = None
                break
            used.add(cand[0])
            perm.append(cand[0])
        if perm is not None:
            return perm, "reconstructed"
    for p in e["perms"]:
        if p[1] == N:
            return p[2], "captured_inconsistent"
    return None, "none"


def choose_negidx(e, src, k):
    """The index list handed to the model where it expects a randint outcome of length k over src."""
    flat_neg = [tuple(r) for b in e["batches"] for r in b[1]]
    for ri in e["ints"]:
        idx = ri[4]
        if len(idx) == k and all(0 <= i < len(src) for i in idx) and [src[i] for i in idx][:len(flat_neg)] == flat_neg:
            return idx, "captured"
    if all(r in src for r in flat_neg):
        idx = [src.index(r) for r in flat_neg][:k]
        return idx + [0] * (k - len(idx)), "reconstructed"
    for ri in e["ints"]:
        return ri[4], "captured_inconsistent"
    return [0] * k, "none"


def correspond(ctx, case, epochs, failed_last, rcase=None):
    """Correspondence with the Coq model, epoch by epoch: the recorded (samples, neg, bases) batches must be
    exactly the model's batches for the random outcomes of that epoch.  Only the PUBLIC observable (the
    arguments of compute_batch_gradients) is compared; how and when the implementation draws its random
    numbers is informational (histogram keys perm_source / negidx_source / randint_request).  If the run
    raised in its last epoch the model must report a failure (None) for that epoch."""
    rows = [tuple(r) for r in case["rows"]]
    bases, N, pos_bs = case["bases"], case["N"], case["pos_bs"]
    rcase = case if rcase is None else rcase
    m = ctx.get_model()
    data_w = [list(r) for r in rows]
    bases_w = [] if bases is None else [codes(bases)]
    neg_w = [] if case["neg_arg"] is None else [case["neg_arg"]]
    req = m.call("c07_randint_request", pos_bs, neg_w, data_w, bases_w)
    src = rows if bases is None else [r for r, b in zip(rows, bases) if all(c == "Z" for c in b)]
    for n, e in enumerate(epochs):
        tag = "epoch %s " % e["ep"]
        last_failed = failed_last and n == len(epochs) - 1
        if last_failed:
            cands = [p for p in e["perms"] if p[1] == N]
            perm, how = (cands[0][2], "captured") if cands else (None, "none")
        else:
            perm, how = choose_perm(e, rows, bases, N)
        ctx.count("perm_source:" + how)
        if perm is None:
            if not last_failed:
                ctx.agree_exact(tag + "positive batches are data[perm] for a permutation perm", False, True, rcase)
            continue
        if req:
            k = int(req[0][1])
            if last_failed:
                negidx, hown = (e["ints"][0][4], "captured") if e["ints"] else ([0] * k, "none")
            else:
                negidx, hown = choose_negidx(e, src, k)
            ctx.count("negidx_source:" + hown)
            if e["ints"]:
                ri = e["ints"][0]
                same = ri[1] == 0 and ri[3] is not None and len(ri[3]) == 1 and [[float(ri[2]), float(ri[3][0])]] == req
                ctx.count("randint_request:" + ("as_model" if same else "differs"))
        else:
            negidx = []
            ctx.count("randint_request:" + ("unexpected_call" if e["ints"] else "none_as_model"))
        mb = m.call("c07_fit_epoch", pos_bs, neg_w, data_w, bases_w, perm, negidx)
        if ctx.thorough:
            keep = ctx.__dict__.setdefault("_c07_reqs", [])
            ctx._c07_seen = getattr(ctx, "_c07_seen", 0) + 1
            if ctx._c07_seen % 173 == 1 and len(keep) < 24:
                keep.append((pos_bs, case["neg_arg"], rows, bases, perm, negidx))
        if last_failed:
            ctx.agree_exact(tag + "implementation raised <-> model reports an indexing failure", [], mb, rcase)
            continue
        impl = []
        for b in e["batches"]:
            impl.append([[[float(x) for x in r] for r in b[0]], [[float(x) for x in r] for r in b[1]],
                         [] if b[2] is None else [[[float(c) for c in row] for row in codes(b[2])]]])
        ctx.agree_exact(tag + "batches == model batches", [impl], mb, rcase)


# ----------------------------------------------------------------------------- extract_refbasis_samples
def refbasis_cases(ctx, count):
    import torch
    from qucumber.utils.data import extract_refbasis_samples
    m = ctx.get_model()
    rng = ctx.rng
    for t in range(count):
        N = int(rng.integers(1, 8))
        nv = int(rng.integers(1, 4))
        mism = (t % 7 == 6)
        Nb = N + int(rng.choice([-1, 1])) if mism else N
        Nb = max(Nb, 1)
        mism = Nb != N
        data = rng.integers(0, 2, size=(N, nv)).astype(float)
        p = float(rng.choice([0.2, 0.6, 0.9]))
        alpha = ["X", "Y"] if t % 3 else ["X", "Y", "H", "K", "H", "K"]          # every third case: user letters as well
        bases = np.array([["Z" if rng.random() < p ** (1.0 / nv) else str(rng.choice(alpha)) for _ in range(nv)] for _ in range(Nb)])
        if t % 3 == 0 and not (t % 7 == 6) and rng.random() < 0.7:
            bases[int(rng.integers(0, Nb))] = [str(rng.choice(["H", "K"]))] + ["Z"] * (nv - 1)   # a row rotated by a user letter only
        if t % 5 == 0:
            bases[:] = "Z"
        if t % 5 == 1 and not mism:
            bases[:, 0] = "X" if t % 2 else "H"
        ctx.count("refbasis_letters:" + ("XYZ" if t % 3 else "XYZHK"))
        case = {"call": "extract_refbasis_samples", "data": data.tolist(), "bases": ["".join(r) for r in bases.tolist()]}
        ctx.case(case, nontrivial=(not mism) and 0 < int((bases == "Z").all(axis=1).sum()) < N)
        ctx.count("refbasis:" + ("shape_mismatch" if mism else "ok"))
        mres = m.call("c07_extract_refbasis", data.tolist(), codes(case["bases"]))
        try:
            out = extract_refbasis_samples(torch.tensor(data, dtype=torch.double), bases)
            impl = [out.tolist()]
        except Exception as ex:
            impl = []
            if not mism:
                ctx.require("extract_refbasis_samples raised " + type(ex).__name__, False, case, repr(ex)[:200])
        if mism:      # outside the documented contract: informational (raises vs model error), never an alarm
            ctx.count("refbasis_mismatch:impl_%s/model_%s" % ("raises" if not impl else "returns", "error" if not mres else "value"))
        else:
            ctx.agree_exact("extract_refbasis_samples == model", impl, mres, case)
        if impl and not mism:
            want = [r for r, b in zip(data.tolist(), case["bases"]) if all(c == "Z" for c in b)]
            ctx.require("extract_refbasis_samples keeps exactly the all-Z rows, in order", impl[0] == want, case,
                        "got %r want %r" % (impl[0], want))


def no_refbasis_rows_case(ctx):
    """bases without any all-Z row: there is nothing to start the negative chains from; the implementation
    raises, and the model says the randint call has high = 0 (no index list can satisfy its contract)."""
    m = ctx.get_model()
    case = {"kind": "complex", "N": 3, "pos_bs": 2, "negmode": "default", "neg_arg": None, "form": "tensor_double", "epochs": 1,
            "rows": [[0.0, 1.0, 1.0], [1.0, 0.0, 0.0], [1.0, 1.0, 0.0]], "bases": ["XZZ", "ZYZ", "ZZX"], "nh": 1, "tseed": 1}
    ctx.case({"special": "no all-Z row"}, nontrivial=False)
    log, _, _, _, err, _ = run_fit(case)
    req = m.call("c07_randint_request", 2, [], case["rows"], [codes(case["bases"])])
    # informational only: the property does not say what happens when there is no reference-basis row
    model_empty = bool(req and req[0][0] == 0 and req[0][1] > 0)
    ctx.count("no_all_Z_row:impl_%s/model_source_%s" % ("raises" if err is not None else "runs", "empty" if model_empty else "nonempty"))


# ----------------------------------------------------------------------------- extraction cross-check
def coq_crosscheck(ctx):
    """Thorough tier (DESIGN 4.3): a sub-sample of the model requests is re-evaluated inside Coq with
    vm_compute and compared with the answers of the extracted binary (rows abstracted to their ids)."""
    import subprocess, os
    from common import COQ_Q, COQ
    reqs = getattr(ctx, "_c07_reqs", [])
    if not reqs:
        return
    m = ctx.get_model()

    def nl(xs):
        return "[" + "; ".join(str(int(x)) for x in xs) + "]"

    def ll(xss):
        return "[" + "; ".join(nl(x) for x in xss) + "]"

    goals = []
    for (pos_bs, neg_arg, rows, bases, perm, negidx) in reqs:
        ids = {}
        data = [ids.setdefault(r, len(ids)) for r in rows]
        bw = [] if bases is None else [codes(bases)]
        out = m.call("c07_fit_epoch", pos_bs, [] if neg_arg is None else [neg_arg], data, bw, perm, negidx)
        if not out:
            rhs = "None"
        else:
            bs = []
            for b in out[0]:
                bb = "None" if not b[2] else "(Some %s)" % ll(b[2][0])
                bs.append("(%s, %s, %s)" % (nl(b[0]), nl(b[1]), bb))
            rhs = "Some [" + "; ".join(bs) + "]"
        goals.append("Goal @fit_epoch nat (list nat) is_Z_row %d %s %s %s %s %s = %s.\nProof. vm_compute. reflexivity. Qed.\n" % (
            pos_bs, "None" if neg_arg is None else "(Some %d)" % neg_arg, nl(data),
            "None" if bases is None else "(Some %s)" % ll(codes(bases)), nl(perm), nl(negidx), rhs))
    src = os.path.join(ctx.scratch, "c07_cases.v")
    with open(src, "w") as f:
        f.write("From Coq Require Import List.\nFrom QModel Require Import Batching.\nImport ListNotations.\n" + "".join(goals))
    r = subprocess.run(["timeout", "600", "coqc"] + COQ_Q + ["-o", os.path.join(ctx.scratch, "c07_cases.vo"), src],
                       capture_output=True, text=True, cwd=COQ)
    ctx.extra["extraction_crosscheck_cases"] = len(goals)
    ctx.agree_exact("extracted binary == Coq vm_compute on %d sampled fit_epoch requests" % len(goals),
                    r.returncode, 0, {"coqc": (r.stdout + r.stderr)[-1500:]})


# ----------------------------------------------------------------------------- driver
FORMS = ["tensor_double", "numpy", "list", "numpy_reversed", "tensor_float", "numpy_int", "numpy_fortran", "list", "tensor_long",
         "numpy_flipped", "numpy", "tensor_stride2", "tensor_double", "numpy_stride2", "loaded", "numpy_readonly", "tensor_t", "list_of_arrays"]
VIEW_FORMS = ["numpy_reversed", "numpy_flipped", "numpy_fortran", "numpy_stride2", "numpy_readonly", "tensor_stride2", "tensor_t", "loaded",
              "list_of_arrays"]
BASES_FORMS = [None, "reversed", None, "fortran", None, "stride2", None, "readonly"]


REUSE_MODES = ("same_both", "other", "same_data", "same_bases")


def decorate(case, cnt):
    """Rotating call-form options of a generated case: integer arguments as numpy integers, callbacks omitted, bases as a view."""
    if cnt % 5 == 2:
        case["int_kind"] = INT_KINDS[(cnt // 5) % len(INT_KINDS)]
    if cnt % 6 == 3:
        case["no_cb"] = ["omitted", "empty_list", "omitted", "none"][(cnt // 6) % 4]
    if case["bases"] is not None and BASES_FORMS[cnt % len(BASES_FORMS)] and case["form"] != "loaded":
        case["bases_form"] = BASES_FORMS[cnt % len(BASES_FORMS)]
    return case


def other_content(ctx, c1, make):
    """A case whose rows (with their bases) differ from c1's AS A MULTISET (so that rows of a previous run are recognised)."""
    c2 = make()
    for _ in range(12):
        if Counter(zip(map(tuple, c2["rows"]), c2["bases"] or [None] * c2["N"])) != Counter(zip(map(tuple, c1["rows"]), c1["bases"] or [None] * c1["N"])):
            break
        c2 = make()
    return c2


def history_case(ctx, kind, N, pos_bs, form, reuse, epochs, negmode="default", cnt=None, letters="XYZ"):
    """fit called twice on ONE state.  reuse: which caller-side objects of the second call are the same
    objects as in the first call, refilled in place with the new content."""
    if kind == "positive" and reuse in ("same_data", "same_bases"):
        reuse = "same_both"
    c1 = gen_case(ctx, kind, N, pos_bs, negmode, form, epochs, letters=letters)
    N2 = N if reuse != "other" else max(1, N + int(ctx.rng.integers(-2, 3)))
    pos2 = pos_bs if ctx.rng.random() < 0.5 else int(ctx.rng.integers(1, N2 + 2))
    c2 = other_content(ctx, c1, lambda: gen_case(ctx, kind, N2, pos2, str(ctx.rng.choice(["default", "equal", "diff"])), form, epochs, letters=letters))
    c2["nh"] = c1["nh"]
    if cnt is not None:
        decorate(c1, cnt); decorate(c2, cnt + 3)
        if c1["form"] == "loaded" or reuse != "other":
            c1.pop("bases_form", None); c2.pop("bases_form", None)
    session = one_case(ctx, c1)
    one_case(ctx, c2, session=session, reuse=reuse, first=c1)


def abort_history(ctx, kind, N, pos_bs, form, hook, exc, same_n=True, second_no_cb=None, reuse="other", letters="XYZ"):
    """A run aborted by an exception raised in the caller's callback (caught by the caller), then an ORDINARY fit on the same
    state with other rows (of the same length, or another): the second run is judged as any fit - every epoch uses exactly
    the rows of ITS data."""
    c1 = gen_case(ctx, kind, N, pos_bs, "default", form, 3, letters=letters)
    c1["abort"] = {"hook": hook, "epoch": 1 if hook != "on_epoch_end" else int(ctx.rng.integers(1, 3)), "exc": exc}
    if hook == "no_reference_row":
        if c1["bases"] is None:
            c1["abort"]["hook"] = "optimizer_raises"
        else:                                                  # no row to start the negative chains from: the library itself gives up
            c1["bases"] = [b if b != "Z" * len(b) else "X" + b[1:] for b in c1["bases"]]
    N2 = N if same_n else N + 1
    c2 = other_content(ctx, c1, lambda: gen_case(ctx, kind, N2, pos_bs, str(ctx.rng.choice(["default", "diff"])), form, 2, letters=letters))
    c2["nh"] = c1["nh"]
    if second_no_cb:
        c2["no_cb"] = second_no_cb
    session = one_case(ctx, c1)
    one_case(ctx, c2, session=session, reuse=reuse if same_n else "other", first=c1)


def fixed_first(ctx, epochs):
    """The regimes that always run first: two fits on one state, aborted runs, call forms (integer types, data views,
    no callbacks, user basis letters, loader) and large data sets."""
    plan = [("positive", "numpy", "same_both"), ("complex", "tensor_double", "same_both"), ("dm", "list", "same_data"),
            ("complex", "numpy", "same_bases"), ("positive", "tensor_float", "same_both"), ("positive", "list", "other"),
            ("dm", "numpy", "same_both"), ("complex", "numpy_int", "other")]
    for i, (kind, form, reuse) in enumerate(plan):
        history_case(ctx, kind, 4 + i % 3, 2 + i % 2, form, reuse, epochs)
    # -- a run aborted by the caller's callback, then an ordinary run on other data (same length / other length)
    for i, (kind, form, hook, exc, same_n, nocb, reuse) in enumerate([
            ("positive", "numpy", "on_epoch_end", "KeyboardInterrupt", True, "omitted", "other"),
            ("complex", "tensor_double", "on_epoch_end", "RuntimeError", True, None, "other"),
            ("dm", "list", "on_batch_end", "KeyboardInterrupt", True, None, "other"),
            ("positive", "tensor_float", "on_epoch_start", "RuntimeError", True, None, "same_both"),
            ("complex", "numpy", "on_epoch_end", "KeyboardInterrupt", False, "empty_list", "other"),
            ("dm", "numpy", "no_reference_row", "-", True, None, "other"),
            ("positive", "list", "optimizer_raises", "RuntimeError", True, "none", "other")]):
        abort_history(ctx, kind, 5 + i % 3, 2 + i % 2, form, hook, exc, same_n=same_n, second_no_cb=nocb, reuse=reuse)
    # -- runs without callbacks (epochs cut by the known number of batches), N = m*b + r and N = m*b, every kind
    i = 0
    for kind in ("positive", "complex", "dm"):
        for (N, b, nocb) in ((7, 2, "omitted"), (5, 3, "empty_list"), (6, 3, "omitted")):
            c = gen_case(ctx, kind, N, b, ["default", "diff", "equal"][i % 3], FORMS[i % len(FORMS)], epochs)
            c["no_cb"] = nocb
            i += 1
            one_case(ctx, c)
    # -- user basis letters beyond X / Y / Z, defined in the state's unitary_dict: reference rows are exactly the all-Z rows
    for i, (kind, letters) in enumerate([("complex", "XYZH"), ("dm", "XYZH"), ("complex", "ZHK"), ("dm", "XYZHK"), ("complex", "ZH")]):
        c = gen_case(ctx, kind, 6 + i % 2, 3, ["diff", "default"][i % 2], FORMS[(3 * i) % len(FORMS)], epochs, letters=letters)
        if i == 2:
            c["no_cb"] = "omitted"
        one_case(ctx, c)
    history_case(ctx, "complex", 6, 3, "numpy", "same_bases", epochs, letters="XYZHK")
    # -- every data form (numpy views with negative strides, Fortran order, every second row, read-only, tensor views, the
    #    library's own loader) and bases as views
    for i, form in enumerate(VIEW_FORMS + ["list", "numpy_int"]):
        kind = ("complex", "positive", "dm")[i % 3]
        c = gen_case(ctx, kind, 5 + i % 3, 2, ["default", "diff"][i % 2], form, epochs)
        if c["bases"] is not None and form != "loaded":
            c["bases_form"] = ["reversed", "fortran", "stride2", "readonly"][i % 4]
        one_case(ctx, c)
    # -- the loader on one-row and one-column files (shape kept), then fit
    for kind, N, nv in (("complex", 1, 3), ("dm", 4, 1), ("positive", 1, 2), ("complex", 5, 1), ("positive", 3, 1), ("dm", 1, 1)):
        one_case(ctx, gen_case(ctx, kind, N, 2, "default", "loaded", epochs, nv=nv))
    # -- integer arguments as narrow numpy integers / 0-d arrays, with enough batches that a wrap of
    #    num_batches * neg_batch_size (or of batch_start + pos_batch_size) would show
    for i, (kind, N, b, neg, ik) in enumerate([
            ("positive", 120, 2, 5, "uint8"),          # 60 * 5 = 300 > 255
            ("complex", 90, 3, 7, "int8"),             # 30 * 7 = 210 > 127
            ("dm", 300, 7, None, "uint8"),             # batch_start + pos_batch_size beyond 255; 43 * 7 = 301
            ("positive", 80, 2, 7, "arr0d_uint8"),     # 40 * 7 = 280
            ("complex", 6, 2, 4, "int32"), ("dm", 7, 3, 2, "int64"), ("positive", 9, 2, 5, "arr0d"), ("complex", 8, 3, 5, "uint16")]):
        c = gen_case(ctx, kind, N, b, "default" if neg is None else "diff", FORMS[(5 * i) % len(FORMS)], 1 if N > 50 else epochs)
        c.update(neg_arg=neg, int_kind=ik, k=1 if N > 50 else c["k"])
        if i % 4 == 3:
            c["no_cb"] = "omitted"
        one_case(ctx, c)
    large = [large_case(ctx, "complex", 150001, 4096, None, "numpy"),
             large_case(ctx, "complex", 150001, None, None, "tensor_double", pos_default=True, stub=True),
             large_case(ctx, "positive", 20011, 4096, 1000, "tensor_float"),
             dict(large_case(ctx, "positive", 150001, 4096, 2000, "numpy_fortran", stub=True), int_kind="uint16")]   # 37 * 2000 > 65535
    if ctx.thorough:
        large += [large_case(ctx, "dm", 20011, 4096, None, "numpy"),
                  large_case(ctx, "positive", 150001, None, None, "numpy", pos_default=True, stub=True),
                  large_case(ctx, "complex", 40000, 10000, 777, "numpy_int"),
                  large_case(ctx, "dm", 150001, 4096, 64, "tensor_double", stub=True),
                  dict(large_case(ctx, "complex", 150001, 4096, 2000, "numpy_reversed", stub=True), int_kind="uint16", no_cb="omitted")]
    for c in large:
        one_case(ctx, c)


def run(ctx):
    maxN = 9 if ctx.thorough else 7
    epochs = 3 if ctx.thorough else 2
    fixed_first(ctx, epochs)
    cnt = 0
    for rnd in range(2 if ctx.thorough else 1):                  # thorough: two independent draws of the data
        for N in range(1, maxN + 1):
            for pos_bs in range(1, N + 2):
                for kind in ("positive", "complex", "dm"):
                    for negmode in ("default", "equal", "diff"):
                        if negmode == "default" and (N + pos_bs + rnd) % 4 == 0:
                            negmode = "zero"
                        forms = ["tensor_double", "numpy", "list"] if ctx.thorough else [FORMS[cnt % len(FORMS)]]
                        if ctx.thorough and cnt % 3 == 0:
                            forms = ["tensor_float", "numpy_int", "list"] if cnt % 2 else ["tensor_long", "numpy", "tensor_double"]
                        if ctx.thorough:
                            forms = forms + [VIEW_FORMS[cnt % len(VIEW_FORMS)]]
                        cnt += 1
                        for fi, form in enumerate(forms):
                            letters = "XYZ" if (cnt + fi) % 4 != 1 else ["XYZH", "XYZHK", "ZH"][(cnt // 4) % 3]
                            case = decorate(gen_case(ctx, kind, N, pos_bs, negmode, form, epochs, letters=letters), cnt + 7 * fi)
                            one_case(ctx, case)
            # histories in the random stream: one two-fit history per kind and N (the third kind: after an aborted run)
            for kind in ("positive", "complex", "dm"):
                if cnt % 3 == (N % 3):
                    abort_history(ctx, kind, N, int(ctx.rng.integers(1, N + 2)), FORMS[cnt % len(FORMS)],
                                  ["on_epoch_end", "on_batch_end", "on_epoch_start", "no_reference_row", "optimizer_raises"][cnt % 5],
                                  ["KeyboardInterrupt", "RuntimeError"][cnt % 2],
                                  same_n=bool(cnt % 4), second_no_cb=[None, "omitted"][(cnt // 3) % 2],
                                  reuse=REUSE_MODES[cnt % len(REUSE_MODES)] if kind == "positive" else "other")
                else:
                    history_case(ctx, kind, N, int(ctx.rng.integers(1, N + 2)), FORMS[cnt % len(FORMS)],
                                 REUSE_MODES[cnt % len(REUSE_MODES)], epochs, negmode=str(ctx.rng.choice(["default", "diff"])), cnt=cnt,
                                 letters="XYZ" if cnt % 2 else "XYZH")
                cnt += 1
    # documented defaults: pos_batch_size omitted (100 > N: one batch), neg_batch_size omitted
    for N in range(1, maxN + 1):
        for kind in ("positive", "complex", "dm"):
            for negmode in (("default", "diff") if ctx.thorough else ("default",)):
                case = gen_case(ctx, kind, N, 100, negmode, FORMS[cnt % len(FORMS)], epochs)
                case["pos_default"] = True
                case["neg_omitted"] = (negmode == "default")
                if cnt % 3 == 0:
                    case["no_cb"] = "omitted"                   # the plainest call: fit(data, epochs=.., k=.., lr=.. [, input_bases=..])
                cnt += 1
                ctx.count("pos_batch_size_defaulted")
                one_case(ctx, case)
    refbasis_cases(ctx, 200 if ctx.thorough else 60)
    no_refbasis_rows_case(ctx)
    if ctx.thorough:
        coq_crosscheck(ctx)


def search(ctx, broken, budget):
    """Wider oracle-only sweep when the proof or the correspondence broke: larger N, more epochs."""
    t0 = time.time()
    n0 = len(ctx.failures)
    fixed_first(ctx, 2)
    if len(ctx.failures) > n0:
        return ctx.failures[n0]
    for N in list(range(1, 13)):
        for pos_bs in range(1, N + 2):
            for kind in ("positive", "complex", "dm"):
                for negmode in ("default", "equal", "diff", "zero"):
                    for form in ("tensor_double", "numpy", "list"):
                        case = gen_case(ctx, kind, N, pos_bs, negmode, form, 3)
                        one_case(ctx, case, correspondence=False)
                        if len(ctx.failures) > n0:
                            return ctx.failures[n0]
                        if time.time() - t0 > budget:
                            return None
    return None


def replay(ctx, rec):
    case = rec.get("failing", {}).get("case", {})
    if case.get("call") == "extract_refbasis_samples" or not ("rows" in case or "recipe" in case):
        print("replay: re-running the generated cases")
        return run(ctx)
    case = dict(case)
    first, reuse = case.pop("history_first", None), case.pop("reuse", "other")
    print("replay of fit run:", {k: case.get(k) for k in ("kind", "N", "pos_bs", "neg_arg", "form", "tseed")},
          "" if first is None else "as second fit on one state (%s)" % reuse)
    if first is None:
        one_case(ctx, case)
    else:
        session = one_case(ctx, first)
        one_case(ctx, case, session=session, reuse=reuse, first=first)
