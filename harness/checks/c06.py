"""C06 — Each training step applies exactly the contrastive-divergence update.

Every case is one REAL call of `fit` on a real Positive/Complex/DensityMatrix state with
  * a RECORDING optimizer class (torch.optim.SGD subclass) passed through `optimizer=`: at every step() it
    records the lr of every param group, a copy of every parameter's .grad and .data before and after the real step;
  * a RECORDING scheduler class (StepLR subclass) through `scheduler=` (or scheduler=None);
  * `compute_batch_gradients` and `rbm_am.gibbs_steps` wrapped ON THE INSTANCE, purely as OBSERVATION points:
    (samples_batch, neg_batch, bases_batch), the parameters current at that batch, the positive phase
    (state.positive_phase_gradients evaluated at those parameters), the returned gradient vectors, and whatever
    Gibbs chains were run (start, number of steps, end state).  Nothing is demanded about how often or in which
    form these internal methods are called;
  * a recording callback (epoch / batch boundaries).

Property oracle (independent numpy, on what the optimizer saw): for every optimizer step
  grad(rbm_am) == positive_phase - (sum_{v in vk} grad E(v)) / |neg_batch|   (grad E recomputed in numpy), where
      k == 0: vk is the negative batch itself;  k > 0: vk is the end of an observed chain that starts from the
      negative batch and totals k steps (if the gradient demonstrably uses another observed chain: failing input;
      if no chain is observable: counted `vk_unobserved`, no verdict on that batch),
  grad(rbm_ph) == positive phase only, each .grad has its parameter's shape and is the right block,
  parameters after step == before - lr*grad (up to one rounding: torch may fuse the multiply-add),
  parameters are touched by nothing else (bit-identical chain), optimizer steps == batches,
  scheduler steps == epochs, and in the sequence of optimizer/scheduler steps the scheduler step of an epoch
  follows that epoch's last optimizer step and precedes the next epoch's first; lr of epoch e follows StepLR.
Correspondence: the extracted Coq model (CDStep.cbg_binary/cbg_purification, vector_to_grads, assign_grads,
  sgd_step, batch_update, run_epochs/steplr) on the captured inputs vs what the implementation did.
"""
import math, time, copy
import numpy as np
import gen

RULE = ("one case = one real fit() run: state type in {positive, complex, density matrix}, nv 1..3(4), nh 1..3, na 1..2, "
        "N 1..9 samples (numpy array or torch tensor), pos_batch_size / neg_batch_size equal or different, dividing N or not, "
        "k = 0..3, lr from {1e-3, 0.05, 0.3, 1.0, log-uniform}, 1..4 epochs run from starting_epoch 1..3, scheduler None or "
        "StepLR(step_size 1..3, gamma), optimizer_args absent or neutral (momentum=0, weight_decay=0: still plain SGD); a covering grid "
        "(state type x k x batch-size pattern) followed by random draws; parameters from harness/gen.py with non-zero biases, "
        "bases per row from XYZ with at least one all-Z row; non-trivial := pos_batch_size != neg_batch_size and k >= 1 and "
        ">= 2 batches per epoch and (scheduler present with >= 2 epochs)")
ASSUMPTIONS = [
    "torch.optim.SGD.step with default arguments computes p + (-lr)*grad (possibly fused): compared up to one rounding",
    "positive phase of Complex/DensityMatrix states is taken from state.positive_phase_gradients at the batch's parameters (its correctness is C03); for PositiveWaveFunction it is also recomputed in numpy",
    "for k > 0 the Gibbs end state vk is observed at the wrapped rbm_am.gibbs_steps (its law is C05); an implementation that samples without going through it is not judged on the negative phase for k > 0 (counted vk_unobserved)",
    "stop requests during fit are not generated here (C12)",
]

LAYOUT_B = ["weights", "visible_bias", "hidden_bias"]
LAYOUT_P = ["weights_W", "weights_U", "visible_bias", "hidden_bias", "aux_bias"]


# ------------------------------------------------------------------------------------------ numpy reference
def _sig(x):
    return 0.5 * (1.0 + np.tanh(0.5 * x))


def np_grad_sum(par, V):
    """sum over the rows of V of grad E(v), in the layout W,(U),b,c,(d); independent of the library."""
    V = np.atleast_2d(np.asarray(V, dtype=float))
    if len(par) == 3:
        W, b, c = par
        p = _sig(V @ W.T + c)
        return np.concatenate([-(p.T @ V).ravel(), -V.sum(0), -p.sum(0)])
    W, U, b, c, d = par
    ph = _sig(V @ W.T + c)
    pa = _sig(V @ U.T + d)
    return np.concatenate([-(ph.T @ V).ravel(), -(pa.T @ V).ravel(), -V.sum(0), -ph.sum(0), -pa.sum(0)])


def layout_of(rbm):
    return LAYOUT_P if hasattr(rbm, "weights_U") else LAYOUT_B


def named_params(rbm):
    return [(n, getattr(rbm, n)) for n in layout_of(rbm)]


def snap(rbm):
    return [getattr(rbm, n).data.detach().clone().numpy().copy() for n in layout_of(rbm)]


def shapes_of(par):
    return [list(p.shape) for p in par]


def flat_of(par):
    return np.concatenate([np.asarray(p, dtype=float).ravel() for p in par])


def tens(par):
    """wire encoding of a parameter list as model tensors"""
    return [[0, p.tolist()] if p.ndim == 1 else [1, p.tolist()] for p in par]


def untens(ts):
    return [np.array(t[1], dtype=float) for t in ts]


def steplr_ref(lr0, gamma, ss, e):
    return lr0 * gamma ** (e // ss)


# ------------------------------------------------------------------------------------------ case generation
def rand_spec(ctx, kind=None, k=None, pattern=None):
    rng = ctx.rng
    kind = kind or str(rng.choice(["positive", "complex", "dm"]))
    nv = int(rng.integers(1, 5 if ctx.thorough else 4))
    nh = int(rng.integers(1, 4))
    na = int(rng.integers(1, 3))
    N = int(rng.integers(1, 10)) if rng.random() < 0.25 else int(rng.integers(3, 10))
    pattern = pattern or str(rng.choice(["equal_div", "equal_nodiv", "neg_smaller", "neg_larger", "neg_default", "single_batch"]))
    divs = [d for d in range(1, N + 1) if N % d == 0]
    nodivs = [d for d in range(2, N) if N % d != 0] or [N + 1]
    if pattern == "equal_div":
        pb = int(rng.choice(divs)); nb = pb
    elif pattern == "equal_nodiv":
        pb = int(rng.choice(nodivs)); nb = pb
    elif pattern == "neg_smaller":
        pb = int(rng.integers(2, max(3, N + 1))); nb = int(rng.integers(1, pb))
    elif pattern == "neg_larger":
        pb = int(rng.integers(1, max(2, N))); nb = int(rng.integers(pb + 1, pb + 5))
    elif pattern == "neg_default":
        pb = int(rng.integers(1, N + 1)); nb = None
    else:
        pb = N + int(rng.integers(0, 3)); nb = int(rng.integers(1, 6))
    k = int(rng.integers(0, 4)) if k is None else k
    lr = float(rng.choice([1e-3, 0.05, 0.3, 1.0, float(np.exp(rng.uniform(np.log(1e-4), np.log(3.0))))]))
    epochs = int(rng.integers(1, 5))
    starting_epoch = int(rng.choice([1, 1, 1, 2, 3]))
    optimizer_args = None if rng.random() < 0.75 else {"momentum": 0.0, "weight_decay": 0.0}
    data_as_tensor = bool(rng.random() < 0.25)
    if rng.random() < 0.7:
        sched = {"step_size": int(rng.integers(1, 4)), "gamma": float(rng.choice([0.5, 0.1, 0.9, 1.5]))}
    else:
        sched = None
    data = rng.integers(0, 2, size=(N, nv)).astype(float)
    bases = None
    if kind != "positive":
        rows = []
        for i in range(N):
            if rng.random() < 0.4:
                rows.append(["Z"] * nv)
            else:
                r = ["Z"] * nv
                for j in rng.choice(nv, size=min(nv, int(rng.integers(1, 3))), replace=False):
                    r[int(j)] = str(rng.choice(["X", "Y"]))
                rows.append(r)
        rows[int(rng.integers(0, N))] = ["Z"] * nv          # the negative phase needs a reference-basis row
        bases = ["".join(r) for r in rows]
    if kind == "positive":
        am = gen.brbm_params(ctx, nv, nh); ph = None
    elif kind == "complex":
        am = gen.brbm_params(ctx, nv, nh); ph = gen.brbm_params(ctx, nv, nh)
    else:
        am = gen.prbm_params(ctx, nv, nh, na); ph = gen.prbm_params(ctx, nv, nh, na, phase=True)
    # keep parameters moderate so that psi of rotated samples stays well inside the double range
    am = [np.clip(a, -6, 6) for a in am]
    ph = [np.clip(a, -6, 6) for a in ph] if ph is not None else None
    return {"state": kind, "nv": nv, "nh": nh, "na": na if kind == "dm" else None, "N": N,
            "pos_batch_size": pb, "neg_batch_size": nb, "pattern": pattern, "k": k, "lr": lr, "epochs": epochs,
            "starting_epoch": starting_epoch, "optimizer_args": optimizer_args, "data_as_tensor": data_as_tensor,
            "scheduler": sched, "data": data.tolist(), "bases": bases,
            "am": gen.plist(*am), "ph": gen.plist(*ph) if ph is not None else None,
            "torch_seed": ctx.torch_seed()}


def build_state(spec):
    from qucumber.nn_states import PositiveWaveFunction, ComplexWaveFunction, DensityMatrix
    am = [np.array(a, dtype=float) for a in spec["am"]]
    ph = [np.array(a, dtype=float) for a in spec["ph"]] if spec["ph"] is not None else None
    if spec["state"] == "positive":
        s = PositiveWaveFunction(spec["nv"], spec["nh"], gpu=False)
        gen.set_brbm(s.rbm_am, *am)
    elif spec["state"] == "complex":
        s = ComplexWaveFunction(spec["nv"], spec["nh"], gpu=False)
        gen.set_brbm(s.rbm_am, *am); gen.set_brbm(s.rbm_ph, *ph)
    else:
        s = DensityMatrix(spec["nv"], spec["nh"], spec["na"], gpu=False)
        gen.set_prbm(s.rbm_am, *am); gen.set_prbm(s.rbm_ph, *ph)
    return s


# ------------------------------------------------------------------------------------------ one fit run
SPEC_KEYS = ["state", "nv", "nh", "na", "N", "pos_batch_size", "neg_batch_size", "pattern", "k", "lr", "epochs", "scheduler",
             "data", "bases", "am", "ph", "torch_seed"]
SPEC_DEFAULTS = {"starting_epoch": 1, "optimizer_args": None, "data_as_tensor": False}


def record_fit(ctx, spec, case):
    """Runs the real fit with recorders; returns (ok, state, nets, events, init_params)."""
    import torch
    from qucumber.callbacks import CallbackBase
    s = build_state(spec)
    nets = [getattr(s, n) for n in s.networks]
    events = []

    class RecSGD(torch.optim.SGD):
        def step(self, closure=None):
            ps = [p for g in self.param_groups for p in g["params"]]
            rec = {"lrs": [float(g["lr"]) for g in self.param_groups for _ in g["params"]], "params": ps,
                   "before": [p.data.detach().clone() for p in ps],
                   "grad": [None if p.grad is None else p.grad.detach().clone() for p in ps]}
            out = super().step(closure)
            rec["after"] = [p.data.detach().clone() for p in ps]
            events.append(("opt", rec))
            return out

    class RecStepLR(torch.optim.lr_scheduler.StepLR):
        def __init__(self, *a, **k):
            self._rec_ready = False            # the constructor performs torch's own initial step()
            super().__init__(*a, **k)
            self._rec_ready = True

        def step(self, *a, **k):
            if self._rec_ready:
                events.append(("sched", {}))
            return super().step(*a, **k)

    class RecCB(CallbackBase):
        def on_epoch_start(self, nn_state, epoch):
            events.append(("epoch_start", {"ep": epoch}))

        def on_epoch_end(self, nn_state, epoch):
            events.append(("epoch_end", {"ep": epoch}))

        def on_batch_start(self, nn_state, epoch, batch):
            events.append(("batch_start", {"ep": epoch, "b": batch}))

        def on_batch_end(self, nn_state, epoch, batch):
            events.append(("batch_end", {"ep": epoch, "b": batch}))

    orig_cbg = s.compute_batch_gradients
    orig_gibbs = s.rbm_am.gibbs_steps
    open_cbg = []

    def cbg(*args, **kw):
        # observation only: accept positional and keyword forms alike
        names = ["k", "samples_batch", "neg_batch", "bases_batch"]
        got = dict(zip(names, args)); got.update({n: v for n, v in kw.items() if n in names})
        samples_batch, neg_batch, bases_batch = got.get("samples_batch"), got.get("neg_batch"), got.get("bases_batch")
        rec = {"samples": samples_batch.detach().clone(), "neg": neg_batch.detach().clone(),
               "bases": None if bases_batch is None else np.array(bases_batch).copy(),
               "params": [snap(n) for n in nets], "gibbs": []}
        if spec["state"] == "positive":
            pos = s.positive_phase_gradients(samples_batch)
        else:
            pos = s.positive_phase_gradients(samples_batch, bases_batch=bases_batch)
        rec["pos"] = [p.detach().clone() for p in pos]
        events.append(("cbg", rec))
        open_cbg.append(rec)
        try:
            out = orig_cbg(*args, **kw)
        finally:
            open_cbg.pop()
        rec["ret"] = [g.detach().clone() for g in out]
        return out

    def gibbs(*args, **kw):
        names = ["k", "initial_state", "overwrite"]
        got = dict(zip(names, args)); got.update({n: v for n, v in kw.items() if n in names})
        init = got["initial_state"].detach().clone()
        out = orig_gibbs(*args, **kw)
        if open_cbg:
            open_cbg[-1]["gibbs"].append({"k": int(got["k"]), "init": init, "vk": out.detach().clone()})
        return out

    s.compute_batch_gradients = cbg
    s.rbm_am.gibbs_steps = gibbs
    torch.manual_seed(spec["torch_seed"])
    se = spec.get("starting_epoch", 1)
    kw = dict(epochs=se + spec["epochs"] - 1, pos_batch_size=spec["pos_batch_size"], neg_batch_size=spec["neg_batch_size"],
              k=spec["k"], lr=spec["lr"], optimizer=RecSGD, callbacks=[RecCB()])
    if se != 1:
        kw["starting_epoch"] = se
    if spec.get("optimizer_args") is not None:
        kw["optimizer_args"] = dict(spec["optimizer_args"])
    if spec["scheduler"] is not None:
        kw["scheduler"] = RecStepLR
        kw["scheduler_args"] = dict(spec["scheduler"])
    if spec["state"] != "positive":
        kw["input_bases"] = np.array([list(b) for b in spec["bases"]])
    data = np.array(spec["data"], dtype=float)
    if spec.get("data_as_tensor"):
        data = torch.tensor(data, dtype=torch.double)
    init_params = [snap(n) for n in nets]
    ok, _ = ctx.call("fit", case, lambda: s.fit(data, **kw))
    return ok, s, nets, events, init_params


def tclose(a, b, rtol, atol):
    a = np.asarray(a, dtype=float); b = np.asarray(b, dtype=float)
    if a.shape != b.shape:
        return False
    return bool(np.all(np.abs(a - b) <= rtol * np.maximum(np.abs(a), np.abs(b)) + atol))


def same_values(a, b):
    import torch
    return tuple(a.shape) == tuple(b.shape) and bool(torch.equal(a.to(torch.double), b.to(torch.double)))


def chain_ends(calls, neg, k):
    """End states of chains of OBSERVED gibbs_steps calls (in call order) that start from the negative batch
    and total k steps.  k == 0: the negative batch itself, whatever was called."""
    if k == 0:
        return [neg]
    outs = []

    def go(i0, state, steps):
        if steps == k:
            if not any(same_values(state, o) for o in outs):
                outs.append(state)
            return
        for i in range(i0, len(calls)):
            c = calls[i]
            if c["k"] > 0 and steps + c["k"] <= k and same_values(c["init"], state):
                go(i + 1, c["vk"], steps + c["k"])
    go(0, neg, 0)
    return outs


def run_case(ctx, spec, model_every=1):
    import torch
    m = ctx.get_model()
    spec = dict(SPEC_DEFAULTS, **spec)
    case = dict(spec)
    kind = spec["state"]
    pb, nb_arg = spec["pos_batch_size"], spec["neg_batch_size"]
    nb = nb_arg if nb_arg else pb
    N = spec["N"]
    nbatches = math.ceil(N / pb)
    sched = spec["scheduler"]
    nontriv = (nb != pb and spec["k"] >= 1 and nbatches >= 2 and sched is not None and spec["epochs"] >= 2)
    ctx.case({"state": kind, "nv": spec["nv"], "nh": spec["nh"], "na": spec["na"], "N": N, "pos": pb, "neg": nb_arg,
              "k": spec["k"], "lr": spec["lr"], "epochs": spec["epochs"], "start": spec["starting_epoch"],
              "scheduler": sched, "seed": spec["torch_seed"]}, nontrivial=nontriv)
    for key in ("state:" + kind, "k:%d" % spec["k"], "pattern:" + spec["pattern"], "epochs:%d" % spec["epochs"],
                "starting_epoch:%d" % spec["starting_epoch"], "N:%s" % ("1" if N == 1 else "2" if N == 2 else ">=3"),
                "optimizer_args:" + ("none" if spec["optimizer_args"] is None else "neutral"),
                "data:" + ("tensor" if spec["data_as_tensor"] else "ndarray"),
                "scheduler:" + ("none" if sched is None else "steplr%d" % sched["step_size"]),
                "batches_per_epoch:%d" % nbatches, "neg_vs_pos:" + ("eq" if nb == pb else "lt" if nb < pb else "gt")):
        ctx.count(key)

    ok, s, nets, events, init_params = record_fit(ctx, spec, case)
    if not ok:
        return
    kinds = [e[0] for e in events]
    if any(not all(bool(torch.isfinite(p).all()) for p in rec["pos"]) for ke, rec in events if ke == "cbg"):
        ctx.count("skipped_nonfinite_positive_phase")      # a rotated amplitude vanished: the NLL itself is undefined there
        return

    # ---------------------------------------------------------------- protocol: steps per batch / per epoch
    # Epochs and batches are what the user's callback saw; optimizer / scheduler steps are what the objects handed to
    # fit saw.  Demanded: #optimizer steps == #batches, #scheduler steps == #epochs, and in the sequence of
    # optimizer/scheduler steps alone: (opt x batches of epoch e, then sched) for e = 1, 2, ...  Nothing is demanded about
    # the position of scheduler.step relative to on_epoch_end, or of internal calls relative to the batch callbacks.
    nb_per_epoch = []
    for ke in kinds:
        if ke == "epoch_start":
            nb_per_epoch.append(0)
        elif ke == "batch_end" and nb_per_epoch:
            nb_per_epoch[-1] += 1
    n_epochs = len(nb_per_epoch)
    n_batches = sum(nb_per_epoch)
    n_opt = kinds.count("opt"); n_sched = kinds.count("sched"); n_cbg = kinds.count("cbg")
    steps = [ke for ke in kinds if ke in ("opt", "sched")]
    expect = []
    for e in range(n_epochs):
        expect += ["opt"] * nb_per_epoch[e] + (["sched"] if sched is not None else [])
    ok1 = ctx.require("one optimizer step per batch", n_opt == n_batches, case, {"optimizer_steps": n_opt, "batches": n_batches})
    ok2 = ctx.require("scheduler stepped exactly once per epoch", n_sched == (n_epochs if sched is not None else 0), case,
                      {"scheduler_steps": n_sched, "epochs": n_epochs})
    if ok1 and ok2:
        ctx.require("the scheduler step of an epoch follows that epoch's last optimizer step and precedes the next epoch's first",
                    steps == expect, case, {"got": steps[:60], "expected": expect[:60]})
    if steps != expect:
        return
    if [ke for ke in kinds if ke in ("cbg", "opt")] != ["cbg", "opt"] * n_opt:
        # the per-batch method named in observe_at was not seen exactly once before each step: cannot learn the batch
        ctx.count("compute_batch_gradients_not_observed_per_step")
        return
    epoch_of_step = [e for e in range(n_epochs) for _ in range(nb_per_epoch[e])]

    # ---------------------------------------------------------------- per optimizer step
    layouts = [layout_of(n) for n in nets]
    owner = {}
    for ni, net in enumerate(nets):
        for name, p in named_params(net):
            owner[id(p)] = (ni, name)
    last_after = None
    cur = None
    trace = [0 if ke == "opt" else 1 for ke in steps]          # 0 = optimizer step, 1 = scheduler step
    lrs = []
    grads_by_epoch = [[] for _ in range(n_epochs)]
    bi = 0
    for kind_e, rec in events:
        if kind_e == "cbg":
            cur = rec
        elif kind_e == "opt":
            epoch = epoch_of_step[bi]
            bcase = dict(case, epoch=epoch + 1, batch_index=bi)
            bi += 1
            c = cur
            par = c["params"]                      # per network, layout order, numpy
            nneg = int(c["neg"].shape[0])
            pos = [p.numpy() for p in c["pos"]]
            if kind == "positive":
                pos_np = np_grad_sum(par[0], c["samples"].numpy()) / float(c["samples"].shape[0])
                ctx.require("positive phase == mean energy gradient of the data batch", tclose(pos[0], pos_np, 1e-9, 1e-12), bcase)
                pos_am = pos_np
            else:
                pos_am = pos[0]
            # -- what the optimizer saw
            ctx.require("optimizer holds exactly the state's parameters",
                        sorted(id(p) for p in rec["params"]) == sorted(owner.keys()), bcase)
            seen = {}
            for p, gr, be, af, lr_p in zip(rec["params"], rec["grad"], rec["before"], rec["after"], rec["lrs"]):
                if id(p) in owner:
                    seen[owner[id(p)]] = (p, gr, be, af, lr_p)
            step_lrs = sorted(set(v[4] for v in seen.values()))
            lr_step = step_lrs[0] if step_lrs else float("nan")
            lrs.append(lr_step)

            def flat_seen(ni):
                out = []
                for name in layouts[ni]:
                    v = seen.get((ni, name))
                    if v is None or v[1] is None or tuple(v[1].shape) != tuple(v[0].shape):
                        return None
                    out.append(v[1].numpy().ravel())
                return np.concatenate(out)

            # -- which chain end state enters the negative phase (observation only; see module docstring)
            def want_am(vk_t):
                nt = np_grad_sum(par[0], vk_t.numpy()) / float(nneg)
                return pos_am - nt, max(1.0, float(np.max(np.abs(pos_am))), float(np.max(np.abs(nt))))

            got_am = flat_seen(0)
            cands = chain_ends(c["gibbs"], c["neg"], spec["k"])
            vk_t = None
            if cands:
                vk_t = cands[0]
                if got_am is not None:
                    for cd in cands:
                        w, sc = want_am(cd)
                        if tclose(got_am, w, 1e-9, 1e-12 * sc):
                            vk_t = cd
                            break
            else:
                used = None
                if got_am is not None:
                    for g in c["gibbs"]:
                        if g["vk"].dim() == 2 and g["vk"].shape[-1] == c["neg"].shape[-1]:
                            w, sc = want_am(g["vk"])
                            if tclose(got_am, w, 1e-9, 1e-12 * sc):
                                used = g
                                break
                if used is not None:
                    # the gradient demonstrably uses an observed chain that is not "k steps from the negative batch"
                    ctx.require("negative phase uses the states reached by k Gibbs steps from the negative batch", False, bcase,
                                {"k": spec["k"], "observed_chains": [{"steps": g["k"], "starts_from_neg_batch": same_values(g["init"], c["neg"])}
                                                                      for g in c["gibbs"]]})
                else:
                    ctx.count("vk_unobserved")
            if vk_t is not None:
                w, sc = want_am(vk_t)
                want = [w] + [p for p in pos[1:]]
                scale = [sc] + [max(1.0, float(np.max(np.abs(p)))) for p in pos[1:]]
            else:
                want = [None] + [p for p in pos[1:]]
                scale = [1.0] + [max(1.0, float(np.max(np.abs(p)))) for p in pos[1:]]
            for ni, net in enumerate(nets):
                off = 0
                for name in layouts[ni]:
                    if (ni, name) not in seen:
                        continue
                    p, gr, be, af, lr_p = seen[(ni, name)]
                    num = p.numel()
                    block = None if want[ni] is None else want[ni][off:off + num].reshape(tuple(p.shape))
                    off += num
                    pc = dict(bcase, network=s.networks[ni], parameter=name)
                    if not ctx.require("every parameter has a gradient at optimizer.step", gr is not None, pc):
                        continue
                    ctx.require(".grad has the parameter's shape", tuple(gr.shape) == tuple(p.shape), pc, {"grad": list(gr.shape), "param": list(p.shape)})
                    if tuple(gr.shape) != tuple(p.shape):
                        continue
                    if block is not None:
                        what = ("amplitude gradient == positive phase - sum grad E(vk) / |neg_batch| on its own parameter"
                                if ni == 0 else "phase gradient == positive phase only on its own parameter")
                        ctx.require(what, tclose(gr.numpy(), block, 1e-9, 1e-12 * scale[ni]), pc,
                                    {"got": gr.numpy().ravel().tolist()[:12], "want": block.ravel().tolist()[:12], "neg_size": nneg,
                                     "pos_size": int(c["samples"].shape[0])})
                    # -- SGD displacement and the untouched-in-between chain
                    upd = be.numpy() - lr_p * gr.numpy()
                    tol = 4.5e-16 * (np.abs(be.numpy()) + np.abs(lr_p * gr.numpy()))
                    ctx.require("parameters after step == before - lr*grad", bool(np.all(np.abs(af.numpy() - upd) <= tol)), pc,
                                {"max_err": float(np.max(np.abs(af.numpy() - upd))), "lr": lr_p})
                    ctx.count("sgd_bit_exact" if np.array_equal(af.numpy(), upd) else "sgd_one_rounding")
                    prev = init_params[ni][layouts[ni].index(name)] if last_after is None else last_after[(ni, name)]
                    ctx.require("parameters change only through optimizer.step (before == previous after)",
                                np.array_equal(be.numpy(), prev), pc)
                    ctx.require("gradient evaluated at the parameters the step is applied to",
                                np.array_equal(be.numpy(), par[ni][layouts[ni].index(name)]), pc)
            last_after = {key: v[3].numpy().copy() for key, v in seen.items()}
            # -- learning rate of this epoch (every param group that holds a parameter of the state)
            lr_want = spec["lr"] if sched is None else steplr_ref(spec["lr"], sched["gamma"], sched["step_size"], epoch)
            ctx.require("lr of epoch e follows the schedule (one scheduler step per completed epoch)",
                        bool(step_lrs) and all(math.isclose(x, lr_want, rel_tol=1e-12) for x in step_lrs), bcase,
                        {"lr": step_lrs, "want": lr_want, "epoch": epoch + 1})
            grads_by_epoch[epoch].append(np.concatenate([r.numpy().ravel() for r in c["ret"]]))
            # ------------------------------------------------------------ correspondence with the Coq model
            if (bi - 1) % model_every == 0:
                sh = [shapes_of(p) for p in par]
                if vk_t is not None:
                    pos_l = [p.tolist() for p in pos]
                    if kind == "dm":
                        mg = m.call("cbg_purification", *par[0], pos_l, c["neg"].numpy(), vk_t.numpy())
                    else:
                        mg = m.call("cbg_binary", *par[0], pos_l, c["neg"].numpy(), vk_t.numpy())
                    ctx.agree_exact("compute_batch_gradients: number of vectors", len(c["ret"]), len(mg), bcase)
                    for ni in range(min(len(mg), len(c["ret"]))):
                        ctx.agree("compute_batch_gradients[%d]" % ni, c["ret"][ni], mg[ni], bcase, scale=scale[ni])
                ma = m.call("assign_grads", [r.tolist() for r in c["ret"]], sh)
                ctx.agree_exact("assign_grads succeeds", True, len(ma) == 1, bcase)
                if len(ma) == 1:
                    for ni in range(len(nets)):
                        mts = untens(ma[0][ni])
                        for j, name in enumerate(layouts[ni]):
                            if (ni, name) in seen and seen[(ni, name)][1] is not None:
                                gr = seen[(ni, name)][1].numpy()
                                ctx.agree_exact("vector_to_grads shape %s.%s" % (s.networks[ni], name), list(gr.shape), list(mts[j].shape), bcase)
                                if list(gr.shape) == list(mts[j].shape):
                                    ctx.agree("vector_to_grads %s.%s" % (s.networks[ni], name), gr, mts[j], bcase, rtol=1e-15, atol=0.0)
                for ni in range(len(nets)):
                    if not all((ni, name) in seen and seen[(ni, name)][1] is not None for name in layouts[ni]):
                        continue
                    be_l = [seen[(ni, name)][2].numpy() for name in layouts[ni]]
                    af_l = [seen[(ni, name)][3].numpy() for name in layouts[ni]]
                    # one fused rounding is <= 1.2e-16 * (|p| + |lr g|): compare on that scale
                    sc_u = max(1.0, float(np.max(np.abs(flat_of(be_l)))), float(np.max(np.abs(lr_step * c["ret"][ni].numpy()))) if c["ret"][ni].numel() else 1.0)
                    mu = m.call("batch_update", lr_step, tens(be_l), sh[ni], c["ret"][ni].tolist())
                    ctx.agree_exact("batch_update succeeds", True, len(mu) == 1, bcase)
                    if len(mu) == 1:
                        ctx.agree("batch_update %s (structured SGD)" % s.networks[ni], flat_of(af_l), flat_of(untens(mu[0])), bcase,
                                  rtol=1e-12, atol=2e-15, scale=sc_u)
                    ms = m.call("sgd_step", lr_step, flat_of(be_l), c["ret"][ni].tolist())
                    ctx.agree("sgd_step %s (flat)" % s.networks[ni], flat_of(af_l), ms, bcase, rtol=1e-12, atol=2e-15, scale=sc_u)

    # ---------------------------------------------------------------- end of run
    final = [snap(n) for n in nets]
    if last_after is not None:
        for ni in range(len(nets)):
            for j, name in enumerate(layouts[ni]):
                if (ni, name) in last_after:
                    ctx.require("parameters after fit == parameters after the last optimizer step",
                                np.array_equal(final[ni][j], last_after[(ni, name)]), dict(case, network=s.networks[ni], parameter=name))
    # whole-run machine: the model driven by the recorded gradient vectors
    theta0 = np.concatenate([flat_of(p) for p in init_params])
    thetaF = np.concatenate([flat_of(p) for p in final])
    if sched is None:
        r = m.call("cd_run", spec["lr"], 1.0, 1, 0, theta0, [[g.tolist() for g in ep] for ep in grads_by_epoch])
    else:
        r = m.call("cd_run", spec["lr"], sched["gamma"], sched["step_size"], 1, theta0, [[g.tolist() for g in ep] for ep in grads_by_epoch])
    m_theta, m_nopt, m_nsched, m_trace, m_lrs = r
    ctx.agree_exact("fit machine: optimizer steps", n_opt, int(m_nopt), case)
    ctx.agree_exact("fit machine: scheduler steps", n_sched, int(m_nsched), case)
    ctx.agree_exact("fit machine: step trace", trace, [int(x) for x in m_trace], case)
    ctx.agree("fit machine: lr of every step", lrs, m_lrs, case, rtol=1e-12, atol=0.0)
    ctx.agree("fit machine: final parameters", thetaF, m_theta, case, rtol=1e-9, atol=1e-12)
    ctx.traces += 1


# ------------------------------------------------------------------------------------------ direct vector_to_grads cases
def v2g_cases(ctx, n):
    """vector_to_grads called directly.  Exact-length vectors: every parameter must receive its slice (oracle + model).
    Surplus / short vectors: only recorded in the evidence histogram (raises vs accepts, implementation and model)."""
    import torch
    from qucumber.utils.gradients_utils import vector_to_grads
    from qucumber.rbm import BinaryRBM, PurificationRBM
    m = ctx.get_model()
    for _ in range(n):
        nv, nh, na = (int(ctx.rng.integers(1, 5)) for _ in range(3))
        pur = bool(ctx.rng.random() < 0.5)
        rbm = PurificationRBM(nv, nh, na, gpu=False) if pur else BinaryRBM(nv, nh, gpu=False)
        total = sum(p.numel() for p in rbm.parameters())
        delta = int(ctx.rng.choice([0, 0, 1, 3, -1, -2, -total]))
        L = max(0, total + delta)
        vec = ctx.rng.normal(size=L)
        case = {"call": "vector_to_grads", "purification": pur, "nv": nv, "nh": nh, "na": na, "len": L, "total": total, "vec": vec.tolist()}
        ctx.case({"call": "vector_to_grads", "pur": pur, "nv": nv, "nh": nh, "na": na, "delta": L - total}, nontrivial=(L != total))
        ctx.count("v2g:" + ("exact" if L == total else "surplus" if L > total else "short"))
        shapes = [list(p.shape) for p in rbm.parameters()]
        mshapes = m.call("p_shapes", nv, nh, na) if pur else m.call("b_shapes", nv, nh)
        ctx.agree_exact("parameters() shapes in registration order", shapes, [[int(x) for x in sh] for sh in mshapes], case)
        mr = m.call("vector_to_grads", vec, shapes)
        try:
            vector_to_grads(torch.tensor(vec, dtype=torch.double), rbm.parameters())
            raised = False
        except Exception:
            raised = True
        # surplus / short vectors never occur inside fit and the property says nothing about them: histogram only
        ctx.count("v2g:%s:impl_%s:model_%s" % ("exact" if L == total else "surplus" if L > total else "short",
                                                "raises" if raised else "accepts", "none" if len(mr) == 0 else "some"))
        if L == total:
            ctx.require("vector_to_grads accepts a vector of exactly the total parameter count", not raised, case)
            ctx.agree_exact("vector_to_grads (exact length) succeeds in the model", True, len(mr) == 1, case)
        else:
            continue
        if not raised and len(mr) == 1:
            off = 0
            for j, p in enumerate(rbm.parameters()):
                want = vec[off:off + p.numel()].reshape(tuple(p.shape)); off += p.numel()
                ctx.require("parameter j receives the slice at offset sum_{i<j} numel_i with its own shape",
                            p.grad is not None and tuple(p.grad.shape) == tuple(p.shape) and np.array_equal(p.grad.numpy(), want),
                            dict(case, parameter_index=j))
                if p.grad is not None and tuple(p.grad.shape) == tuple(p.shape):
                    ctx.agree("vector_to_grads slice %d" % j, p.grad, mr[0][j][1], case, rtol=0.0, atol=0.0)


# ------------------------------------------------------------------------------------------ entry points
def grid(ctx):
    pats = ["equal_div", "equal_nodiv", "neg_smaller", "neg_larger", "neg_default", "single_batch"]
    out = []
    i = 0
    for kind in ("positive", "complex", "dm"):
        for k in range(4):
            reps = pats if ctx.thorough else [pats[(i + j) % len(pats)] for j in (0, 2, 3)]
            for p in reps:
                out.append((kind, k, p))
            i += 1
    return out


def run(ctx):
    t0 = time.time()
    budget = 420 if ctx.thorough else 45
    for (kind, k, pat) in grid(ctx):
        run_case(ctx, rand_spec(ctx, kind, k, pat))
    v2g_cases(ctx, 60 if ctx.thorough else 20)
    n_random = 4000 if ctx.thorough else 60
    for i in range(n_random):
        if time.time() - t0 > budget:
            ctx.count("random_cases_skipped_by_time_budget", n_random - i)
            break
        run_case(ctx, rand_spec(ctx), model_every=1 if i % 3 == 0 else 2)


def search(ctx, broken, budget):
    """Wider oracle sweep when proof or correspondence broke."""
    t0 = time.time()
    n0 = len(ctx.failures)
    while time.time() - t0 < budget:
        run_case(ctx, rand_spec(ctx), model_every=4)
        if len(ctx.failures) > n0:
            return ctx.failures[n0]
        if len(ctx.failures) == n0 and ctx.evaluations > 5000:
            break
    return None


def shrink(ctx, rec):
    """Try to reproduce the failure with one epoch / no scheduler / fewer samples; keep the smallest that still fails."""
    case = rec.get("case", {})
    if "data" not in case or "torch_seed" not in case:
        return rec
    spec = {k: case[k] for k in SPEC_KEYS}
    spec.update({k: case.get(k, d) for k, d in SPEC_DEFAULTS.items()})
    best = rec
    for mod in ({"epochs": 1, "starting_epoch": 1}, {"epochs": 1, "starting_epoch": 1, "scheduler": None}):
        trial = dict(spec, **mod)
        sub = _silent_ctx(ctx)
        try:
            run_case(sub, trial, model_every=10 ** 9)
        except Exception:
            continue
        hit = [f for f in sub.failures if f["what"] == rec["what"]]
        if hit:
            best = hit[0]
    return best


def _silent_ctx(ctx):
    import common
    sub = common.Ctx(ctx.pid, ctx.tier, ctx.seed)
    sub.model = ctx.get_model()
    sub.scratch = ctx.scratch
    return sub


def replay(ctx, rec):
    case = rec.get("failing", {}).get("case", {})
    if case.get("call") == "vector_to_grads":
        v2g_cases(ctx, 40)
        return
    if all(k in case for k in SPEC_KEYS):
        print("replay of fit:", {k: case[k] for k in ("state", "nv", "nh", "na", "N", "pos_batch_size", "neg_batch_size", "k", "lr", "epochs", "scheduler")})
        spec = {k: case[k] for k in SPEC_KEYS}
        spec.update({k: case.get(k, d) for k, d in SPEC_DEFAULTS.items()})
        run_case(ctx, spec)
    else:
        run(ctx)
