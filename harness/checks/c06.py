"""C06 — Each training step applies exactly the contrastive-divergence update.

Every fit case is one or two REAL calls of `fit` on one real Positive/Complex/DensityMatrix state with
  * a RECORDING optimizer class (torch.optim.SGD subclass) passed through `optimizer=`: at every step() it
    records the lr of every param group, a copy of every parameter's .grad and .data before and after the real step;
  * a RECORDING scheduler class (StepLR subclass) through `scheduler=` (or scheduler=None);
  * `compute_batch_gradients` and `rbm_am.gibbs_steps` wrapped ON THE INSTANCE and `torch.bernoulli` wrapped in this
    process, purely as OBSERVATION points: (samples_batch, neg_batch, bases_batch), the parameters current at that
    batch, the positive phase (state.positive_phase_gradients at those parameters), the returned gradient vectors,
    every Bernoulli draw made while the batch gradient was computed (probabilities and outcomes);
  * a recording callback (epoch / batch boundaries).
  In ~20 % of the cases (and in fixed cases that always run first) `fit` is called a SECOND time on the same state
  with another lr / scheduler / k / negative batch size: every per-step relation applies unchanged to the second run.
SAME-OBJECT HISTORIES (fixed ones run first, before any time budget; ~40 % of the generated cases): fit -> mutation(s) ->
  fit [-> mutation(s) -> fit] on ONE state object, with the same callback object, the same data tensor / array, bases array
  and optimizer_args / scheduler_args objects handed to every call (see ARGUMENT OBJECTS).  Mutations = what the
  library offers or tolerates: state.reinitialize_parameters(); rbm.initialize_parameters([zero_weights]); re-binding one or
  several parameters (rbm.weights = nn.Parameter(..)); replacing a whole network through the rbm_am / rbm_ph setter (also by
  one with another number of hidden units); p.data = t; p.data.copy_(t); p.copy_(t) under no_grad; rbm.load_state_dict;
  state.load(file); a step of the user's own optimizer (leaves stale .grad behind); NaN written into the .grad tensors a fit
  left behind; nothing at all (continued training) and the VERY SAME fit() call again.  Additionally a callback of the harness
  edits live parameters IN PLACE at the start of a chosen batch of a running fit.  The observation points resolve the
  state's networks / parameters at the moment of use (state.<network>.<name>), and after every mutation the oracle is the one
  of a fresh object evaluated on the CURRENT parameters, plus the identity-free relation
  live parameters after the batch - live parameters at the batch == -lr_epoch * (numpy CD gradient)   (lr_epoch from THIS
  call's lr and StepLR arguments), whatever tensors the optimizer holds.
  The public per-batch method compute_batch_gradients is also called directly several times on one state with the SAME
  sample / negative-batch tensors and bases array, with the same mutations or in-place refills of those buffers / another k in
  between, and with NaN written into the tensors it returned; vector_to_grads twice on one network (re-initialised /
  one parameter re-bound / the same vector object refilled / parameters passed as a list).

ARGUMENT OBJECTS (seed round 6: objects the caller hands over and what happens to them LATER):
  * the caller keeps ONE optimizer_args / ONE scheduler_args object per container form for the whole history and between two
    calls writes only the keys IT set and whose wanted value changed (it never clears the object): whatever a fit() call wrote
    into or removed from the object is still there at the next call.  Forms (all accepted by the unchanged library, which only
    unpacks them with **): dict omitted when empty, the same dict handed over even when empty (also scheduler_args={} with
    scheduler=None), a fresh literal per call, one collections.OrderedDict / UserDict, a read-only MappingProxyType view.
    Fixed histories that run first hand one such object to 2..3 fit() calls with DIFFERENT lr and the SAME scheduler settings
    (every form x optimizer form), and to fit() calls on TWO state objects (spec["prelude"]).
  * after EVERY fit() call a deep snapshot of every object handed over (containers recursively, arrays / tensors with dtype,
    shape, strides, values; everything else by identity) is compared with the one taken before.  C06 does not forbid fit to
    write into them as such, so a difference is no failure by itself: it is counted and makes the harness issue one more
    fit() call with the VERY SAME objects, another lr and the same scheduler settings, judged by the per-step relations
    (a stale lr / scheduler argument left behind in the caller's object shows there as a wrong displacement).
  * callbacks handed over as list, tuple, generator, iter(list), filter, CallbackList; data also as a tuple of tuples
    (input_bases must be a numpy array: the unchanged library indexes it with an index array).
  * state.load(file): afterwards the file is overwritten in place, deleted, and another, larger model is saved under the same
    path before the next fit.

CALL FORMS (fixed cases that run first + rotating in the generated stream; every later fit() of a history draws its own):
  * scheduler kind: StepLR, ExponentialLR, LambdaLR, OneCycleLR, CyclicLR (cycle_momentum off: the optimizer stays plain SGD),
    MultiStepLR, CosineAnnealingLR, LinearLR, PolynomialLR, ConstantLR, CosineAnnealingWarmRestarts - each through a recording
    subclass (same step-counting mix-in); lr oracle = closed form (StepLR, ExponentialLR) or a reference instance of torch's
    OWN class on a dummy optimizer stepped once per epoch: one scheduler step per epoch, constant lr inside an epoch;
  * optimizer handed over as the recording class, OMITTED (the default), torch.optim.SGD itself (both observed through torch's
    public global optimizer-step hooks for the duration of the call), functools.partial, a factory object with __call__, a
    lambda; scheduler as class / partial with every argument bound (scheduler_args omitted) / factory object / lambda;
    at every optimizer.step every parameter must carry its .grad (the batch's gradient block);
  * callbacks: the recording callback, omitted, [], None - without callbacks the epochs are cut by the requested numbers;
  * epochs / starting_epoch / batch sizes / k as np.uint8, int8, uint16, int32, int64 and 0-d arrays (lr then as np.float64), in the
    fixed cases with num_batches * neg_batch_size beyond the range of the narrow type;
  * data as ndarray, tensor, list, numpy views (reversed rows, flipped columns, Fortran order, every second row, read-only, int8),
    non-contiguous tensor view, float32 tensor.

Property oracle (independent numpy, on what the optimizer saw): for every optimizer step
  grad(rbm_am) == positive_phase - (sum_{v in vk} grad E(v)) / |neg_batch|   (grad E recomputed in numpy), where vk
      are "the states reached by k Gibbs steps from the negative-phase batch":
      - k == 0: vk is the negative batch itself;
      - k > 0: the Bernoulli draws recorded during the batch are read BY CONTENT (C05's interpret_run, with the exact
        conditionals sigmoid(W v + c), sigmoid(U v + d), sigmoid(h W + a U + b) in numpy) as block-Gibbs steps from
        the negative batch; vk must be the visible state after exactly k such steps.  If the gradient demonstrably
        uses recorded draws that are not that state (other number of steps, other start, visible units driven by
        hidden probabilities, hidden layer not redrawn, ...): failing input.  If the draws are not observable
        (sampling by other means) the case is decided by the STATISTICAL LAW TEST below — never silently skipped;
      - always: the chain end states are 0/1: the visible-bias block of (got - pos)*|neg| is an integer vector
        in [0, |neg|];
  grad(rbm_ph) == positive phase only, each .grad has its parameter's shape and is the right block,
  parameters after step == before - lr*grad (up to one rounding: torch may fuse the multiply-add),
  parameters are touched by nothing else (bit-identical chain), optimizer steps == batches,
  scheduler steps == epochs, in the sequence of optimizer/scheduler steps the scheduler step of an epoch follows that
  epoch's last optimizer step and precedes the next epoch's first; lr of epoch e follows StepLR of THIS fit call.
STATISTICAL LAW TEST (labelled a test; fixed cases that always run first + every case whose draws were unobservable):
  a direct compute_batch_gradients(k, data, M identical negative rows): every entry of the negative term
  (pos - got) is a mean of M independent [-1,0]-valued variables whose expectation under the exact k-step kernel K^k
  (enumerated in numpy) is known: Hoeffding bound at delta = 1e-9 per entry.
Regimes: tiny shapes (brute-force everything), larger shapes nv, nh ~ 20..40 (formula conditionals), one 160x160
  ones-vs-zeros case and near-vanishing rotated amplitudes, so that the gradient norm spans ~1e-3 .. 1e3.
Correspondence: the extracted Coq model (CDStep.cbg_binary/cbg_purification, vector_to_grads, assign_grads,
  sgd_step, batch_update, run_epochs/steplr) on the captured inputs vs what the implementation did.
"""
import math, time, copy, itertools, functools, warnings, collections, collections.abc, types
import numpy as np
import gen

RULE = ("one case = one real fit() run (20 %: two consecutive fit() calls on the same state with different lr / scheduler / k / "
        "neg_batch_size; 40 %: a same-object history fit -> 0..2 mutations -> fit [-> ... -> fit] with mutations from "
        "{reinitialize_parameters, rbm.initialize_parameters, re-bound nn.Parameter, network replaced via setter (also other "
        "num_hidden), .data =, .data.copy_, copy_ under no_grad, load_state_dict, state.load(file), user's optimizer step, NaN in "
        "left-over .grad, none, identical fit() call again}, 25 % of those steps with an in-place parameter edit made by a callback "
        "at the start of one batch of the running fit; same callback / data / bases / optimizer_args / scheduler_args objects at every call - the caller writes only its own keys, "
        "container form per call from {dict omitted when empty, same dict also when empty, fresh literal, OrderedDict, UserDict, MappingProxyType}, "
        "callbacks container from {list, tuple, generator, iter, filter, CallbackList}; every argument object is snapshotted before and "
        "compared after each fit, a change triggers one more fit with the very same objects and lr * 0.2; fixed first: 9 histories "
        "handing ONE args object to 2..3 fits with different lr and unchanged scheduler settings, two of them across two state objects): state type in {positive, complex, density matrix}, nv 1..3(4), nh 1..3, na 1..2 (10 % of the random "
        "draws: nv, nh in 20..40), N 1..9 samples (numpy array or torch tensor), pos_batch_size / neg_batch_size equal or "
        "different, dividing N or not, k = 0..3, lr from {1e-3, 0.05, 0.3, 1.0, log-uniform}, 1..4 epochs run from starting_epoch "
        "1..3, scheduler None or StepLR(step_size 1..3, gamma), optimizer_args absent or neutral (momentum=0, weight_decay=0: still "
        "plain SGD); call forms rotating per fit call: scheduler kind in {StepLR, ExponentialLR, LambdaLR, OneCycleLR, CyclicLR, MultiStepLR, "
        "CosineAnnealingLR, LinearLR, PolynomialLR, ConstantLR, CosineAnnealingWarmRestarts}, optimizer in {recording class, omitted, "
        "torch.optim.SGD, functools.partial, factory object, lambda}, scheduler callable in {class, partial, factory object, lambda}, "
        "callbacks in {recording, omitted, [], None}, integer arguments in {int, np.uint8, int8, uint16, int32, int64, 0-d arrays}, data in "
        "{ndarray, tensor, list, reversed / flipped / Fortran / every-second-row / read-only / int8 numpy views, tensor view, float32 tensor}; "
        "fixed cases that always run first: one 3-epoch run (>= 2 batches per epoch) per scheduler kind / optimizer form / scheduler form / "
        "no-callback form / integer type (narrow types with num_batches * neg_batch_size beyond their range), statistical law tests (positive / complex / density, k = 1, 2, 40000 "
        "identical negative rows), 23 same-object fit histories covering every mutation operator x state type (incl. fit -> "
        "reinitialize_parameters -> fit for all three state types and identical re-fits), two-fit histories, 9 fixed + 12 random "
        "direct compute_batch_gradients histories on one state with the same tensor objects, near-vanishing rotated amplitude (|grad| ~ 1e3), 160x160 ones-vs-zeros "
        "(|grad| > 100); then a covering grid (state type x k x batch-size pattern), then random draws; parameters from "
        "harness/gen.py with non-zero biases, bases per row from XYZ with at least one all-Z row; non-trivial := "
        "pos_batch_size != neg_batch_size and k >= 1 and >= 2 batches per epoch and (scheduler present with >= 2 epochs)")
ASSUMPTIONS = [
    "torch.optim.SGD.step with default arguments computes p + (-lr)*grad (possibly fused): compared up to one rounding",
    "positive phase of Complex/DensityMatrix states is taken from state.positive_phase_gradients at the batch's parameters (its correctness is C03); for PositiveWaveFunction it is also recomputed in numpy",
    "torch.bernoulli(p) returns independent 0/1 draws with P(1) = p per entry (trusted, as in C05); draws made by other means are judged by the Hoeffding-bounded statistical law test (delta = 1e-9 per entry)",
    "stop requests during fit are not generated here (C12)",
    "a fit() call that changes an object the caller handed over (optimizer_args, scheduler_args, data, bases, callbacks container) is not a C06 failure by itself: the property is decided on a further fit() call that re-uses the very same objects with another lr",
    "runs without callbacks: the number of epochs run and of batches per epoch is taken as requested (epochs - starting_epoch + 1, ceil(N / pos_batch_size)); that these numbers are right is C12 / C07",
    "optimizer omitted / torch.optim.SGD itself: optimizer.step is observed through torch's public global hooks (torch.optim.optimizer.register_optimizer_step_pre_hook / _post_hook) for the duration of the fit call",
    "OUT OF SCOPE (red team 2, C06_0, unchanged tree): `del rbm.visible_bias; rbm.visible_bias = nn.Parameter(..)` re-registers the parameter at the END of parameters(), so fit's flat gradient is sliced in another order (visible/hidden bias swapped when nv == nh, vector_to_grads raises otherwise); this needs the user to delete and re-register attributes of a library module, which the property does not quantify over: 'each value lands on the parameter it belongs to' is decided for parameters in the registration order the library's constructors produce (re-binding an existing name keeps its position and IS generated)",
]
HOEFFDING_DELTA = 1e-9

LAYOUT_B = ["weights", "visible_bias", "hidden_bias"]
LAYOUT_P = ["weights_W", "weights_U", "visible_bias", "hidden_bias", "aux_bias"]


# ------------------------------------------------------------------------------------------ numpy reference
def _sig(x):
    return 0.5 * (1.0 + np.tanh(0.5 * x))


def np_grad_sum(par, V):
    """sum over the rows of V of grad E(v), in the layout W,(U),b,c,(d); independent of the library."""
    V = np.atleast_2d(np.asarray(V, dtype=float))
    if len(par) == 3:
        W, b, c = par
        p = _sig(V @ W.T + c)
        return np.concatenate([-(p.T @ V).ravel(), -V.sum(0), -p.sum(0)])
    W, U, b, c, d = par
    ph = _sig(V @ W.T + c)
    pa = _sig(V @ U.T + d)
    return np.concatenate([-(ph.T @ V).ravel(), -(pa.T @ V).ravel(), -V.sum(0), -ph.sum(0), -pa.sum(0)])


def layout_of(rbm):
    return LAYOUT_P if hasattr(rbm, "weights_U") else LAYOUT_B


def named_params(rbm):
    return [(n, getattr(rbm, n)) for n in layout_of(rbm)]


def snap(rbm):
    return [getattr(rbm, n).data.detach().clone().numpy().copy() for n in layout_of(rbm)]


def shapes_of(par):
    return [list(p.shape) for p in par]


def flat_of(par):
    return np.concatenate([np.asarray(p, dtype=float).ravel() for p in par])


def tens(par):
    """wire encoding of a parameter list as model tensors"""
    return [[0, p.tolist()] if p.ndim == 1 else [1, p.tolist()] for p in par]


def untens(ts):
    return [np.array(t[1], dtype=float) for t in ts]


def steplr_ref(lr0, gamma, ss, e):
    return lr0 * gamma ** (e // ss)


# ------------------------------------------------------------------------------------------ exact conditionals / kernel (numpy)
class CondNet:
    """The amplitude RBM at given parameters: exact conditionals by formula (any size).  Interface of C05's Net as far as
    interpret_run needs it (nv, nh, na, purif, exp_ph, exp_pa, exp_pv)."""

    def __init__(self, par):
        self.par = [np.asarray(p, dtype=float) for p in par]
        self.purif = (len(par) == 5)
        if self.purif:
            self.W, self.U, self.b, self.c, self.d = self.par
            self.na = self.U.shape[0]
        else:
            self.W, self.b, self.c = self.par
            self.U, self.d, self.na = None, None, 0
        self.nh, self.nv = self.W.shape

    def exp_ph(self, v):
        return _sig(np.atleast_2d(v) @ self.W.T + self.c)

    def exp_pa(self, v):
        return _sig(np.atleast_2d(v) @ self.U.T + self.d)

    def exp_pv(self, h, a=None):
        x = np.atleast_2d(h) @ self.W + self.b
        if self.purif:
            x = x + np.atleast_2d(a) @ self.U
        return _sig(x)


def bits(n):
    return np.array(list(itertools.product([0.0, 1.0], repeat=n)), dtype=float).reshape(2 ** n, n)


def bern_mat(P, B):
    out = np.ones((P.shape[0], B.shape[0]))
    for u in range(P.shape[1]):
        out = out * np.where(B[None, :, u] > 0.5, P[:, None, u], 1.0 - P[:, None, u])
    return out


def exact_kernel(net):
    """K[s, s'] = sum_{h,a} P(h|s) P(a|s) prod_j Bern(P(v_j | h, a); s'_j), by enumeration (small sizes only)."""
    V, H = bits(net.nv), bits(net.nh)
    B1 = bern_mat(net.exp_ph(V), H)                                   # (s, h)
    if net.purif:
        A = bits(net.na)
        B1a = bern_mat(net.exp_pa(V), A)                              # (s, a)
        HH = np.repeat(H, len(A), axis=0); AA = np.tile(A, (len(H), 1))
        B12 = (B1[:, :, None] * B1a[:, None, :]).reshape(len(V), -1)
        return B12 @ bern_mat(net.exp_pv(HH, AA), V), V
    return B1 @ bern_mat(net.exp_pv(H), V), V


def row_index(v):
    v = np.asarray(v, dtype=float).ravel()
    return int(sum(int(b) << (len(v) - 1 - i) for i, b in enumerate(v)))


class BernoulliSpy:
    """Records the probability tensor given to, and the draw returned by, every torch.bernoulli call (as C05 does)."""

    def __init__(self):
        self.calls = []

    def __enter__(self):
        import torch
        self.torch = torch
        self.orig = torch.bernoulli
        spy = self

        def wrapped(inp, *a, **k):
            p = inp.detach().clone()
            pa = a[0] if a and isinstance(a[0], (int, float)) else k.get("p")
            if isinstance(pa, (int, float)):
                p = spy.torch.full_like(p, float(pa), dtype=spy.torch.double)
            out = spy.orig(inp, *a, **k)
            spy.calls.append({"p": p.numpy().astype(float), "out": out.detach().clone().numpy().astype(float)})
            return out
        torch.bernoulli = wrapped
        return self

    def __exit__(self, *exc):
        self.torch.bernoulli = self.orig
        return False


def read_chain(net, calls, v_start, k):
    """C05's content-based interpretation of the recorded draws as block-Gibbs steps from v_start.
    Returns (states, reason): states[j] = visible state after j exact steps (states[0] = v_start)."""
    try:
        from checks import c05
        steps, reason = c05.interpret_run(net, calls, np.asarray(v_start, dtype=float), k)
    except Exception as e:                                   # C05's module unavailable / changed: nothing is observable
        return [np.asarray(v_start, dtype=float)], "interpretation unavailable (%s)" % type(e).__name__
    return [np.asarray(v_start, dtype=float)] + [st["v"] for st in steps], reason


# ------------------------------------------------------------------------------------------ case generation
def _params(ctx, kind, nv, nh, na, clip=6.0):
    if kind == "positive":
        am = gen.brbm_params(ctx, nv, nh); ph = None
    elif kind == "complex":
        am = gen.brbm_params(ctx, nv, nh); ph = gen.brbm_params(ctx, nv, nh)
    else:
        am = gen.prbm_params(ctx, nv, nh, na); ph = gen.prbm_params(ctx, nv, nh, na, phase=True)
    am = [np.clip(a, -clip, clip) for a in am]
    ph = [np.clip(a, -clip, clip) for a in ph] if ph is not None else None
    return am, ph


def _bases(rng, kind, N, nv, max_rot=2):
    if kind == "positive":
        return None
    rows = []
    for i in range(N):
        if rng.random() < 0.4:
            rows.append(["Z"] * nv)
        else:
            r = ["Z"] * nv
            for j in rng.choice(nv, size=min(nv, int(rng.integers(1, max_rot + 1))), replace=False):
                r[int(j)] = str(rng.choice(["X", "Y"]))
            rows.append(r)
    rows[int(rng.integers(0, N))] = ["Z"] * nv          # the negative phase needs a reference-basis row
    return ["".join(r) for r in rows]


SCHED_KINDS = ["StepLR", "ExponentialLR", "LambdaLR", "OneCycleLR", "CyclicLR"]
# further torch schedulers, handed over with plain keyword arguments {"kind", "args"}; oracle = torch's own class stepped once per epoch
MORE_SCHED_KINDS = ["MultiStepLR", "CosineAnnealingLR", "LinearLR", "PolynomialLR", "ConstantLR", "CosineAnnealingWarmRestarts"]
OPT_FORMS = ["class", "default", "sgd", "partial", "factory", "lambda"]
CALLABLE_FORMS = ["class", "partial", "factory", "lambda"]
INT_KINDS = ["uint8", "int8", "uint16", "int32", "int64", "arr0d", "arr0d_uint8"]
DATA_FORMS = ["ndarray", "tensor", "list", "np_reversed", "np_flipped", "np_fortran", "np_stride2", "np_readonly", "np_int",
              "tensor_view", "tensor_float32", "tuple"]
# how the caller's optimizer_args / scheduler_args containers are handed over (every form the unchanged library accepts: it
# only unpacks them with **).  The caller keeps ONE object per form for the whole history and between two calls writes only the
# keys IT set and whose wanted value changed - whatever a fit() call wrote into (or removed from) the object is still there
# at the next call, exactly as in user code that keeps its settings in one dict.
#   shared           the caller's dict, omitted when there is nothing to pass (the historic form of this check)
#   shared_explicit  the same dict, handed over even when empty (optimizer_args={} / scheduler_args={} with scheduler=None)
#   fresh            a new dict literal per call
#   ordered / userdict   one collections.OrderedDict / collections.UserDict object for the whole history, always handed over
#   proxy            a read-only types.MappingProxyType view of the caller's dict, always handed over
ARGS_FORMS = ["shared", "shared_explicit", "fresh", "ordered", "userdict", "proxy"]
# the container the recording callback is handed over in (CallbackList(list(callbacks)) accepts any iterable)
CB_CONTAINERS = ["list", "tuple", "generator", "iter", "filter", "callback_list"]
# options of one fit() call that older replay files do not carry (defaults = what the check always did)
RUN_OPTS = {"opt_form": "class", "sched_form": "class", "callbacks": "recording", "int_kind": None, "data_form": None,
            "args_form": "shared", "cb_container": "list"}


def _sched(rng, kind=None):
    """A scheduler description.  StepLR keeps the historic form {"step_size", "gamma"}; the others carry "kind"."""
    if kind is None:
        if rng.random() >= 0.7:
            return None
        kind = "StepLR" if rng.random() < 0.45 else str(rng.choice(SCHED_KINDS[1:] + MORE_SCHED_KINDS))
    if kind in MORE_SCHED_KINDS:
        args = {"MultiStepLR": {"milestones": sorted(int(x) for x in rng.choice(5, size=2, replace=False) + 1), "gamma": float(rng.choice([0.5, 0.1, 2.0]))},
                "CosineAnnealingLR": {"T_max": int(rng.integers(2, 6)), "eta_min": float(rng.choice([0.0, 1e-3]))},
                "LinearLR": {"start_factor": float(rng.choice([0.25, 0.5])), "total_iters": int(rng.integers(1, 4))},
                "PolynomialLR": {"total_iters": int(rng.integers(2, 5)), "power": float(rng.choice([1.0, 2.0]))},
                "ConstantLR": {"factor": float(rng.choice([0.25, 0.5])), "total_iters": int(rng.integers(1, 3))},
                "CosineAnnealingWarmRestarts": {"T_0": int(rng.integers(1, 4)), "eta_min": 0.0}}[kind]
        return {"kind": kind, "args": args}
    if kind == "StepLR":
        return {"step_size": int(rng.integers(1, 4)), "gamma": float(rng.choice([0.5, 0.1, 0.9, 1.5]))}
    if kind == "ExponentialLR":
        return {"kind": kind, "gamma": float(rng.choice([0.5, 0.1, 0.9, 1.5]))}
    if kind == "LambdaLR":
        return {"kind": kind, "factors": [1.0] + [float(x) for x in rng.choice([0.5, 2.0, 0.1, 0.25, 1.5], size=5)]}
    if kind == "OneCycleLR":
        return {"kind": kind, "max_lr": float(rng.choice([0.05, 0.5, 1.0])), "total_steps": int(rng.integers(40, 80))}
    base = float(rng.choice([1e-3, 0.01, 0.1]))
    return {"kind": "CyclicLR", "base_lr": base, "max_lr": base * float(rng.choice([3.0, 10.0])), "step_size_up": int(rng.integers(1, 4))}


def sched_kind(sched):
    return None if sched is None else sched.get("kind", "StepLR")


def sched_kwargs(sched):
    """scheduler_args of the real torch class (cycle_momentum off: the optimizer must stay plain SGD)."""
    kind = sched_kind(sched)
    if "args" in sched:
        return dict(sched["args"])
    if kind == "StepLR":
        return {"step_size": sched["step_size"], "gamma": sched["gamma"]}
    if kind == "ExponentialLR":
        return {"gamma": sched["gamma"]}
    if kind == "LambdaLR":
        f = list(sched["factors"])
        return {"lr_lambda": (lambda e: f[min(int(e), len(f) - 1)])}
    if kind == "OneCycleLR":
        return {"max_lr": sched["max_lr"], "total_steps": sched["total_steps"], "cycle_momentum": False}
    return {"base_lr": sched["base_lr"], "max_lr": sched["max_lr"], "step_size_up": sched["step_size_up"], "cycle_momentum": False}


def ref_lrs(lr0, sched, n):
    """lr of epoch 0..n-1 when the scheduler is advanced exactly once per completed epoch: closed forms for StepLR /
    ExponentialLR, else a reference instance of torch's OWN class on a dummy optimizer, stepped once per epoch."""
    kind = sched_kind(sched)
    if kind is None:
        return [lr0] * n
    if kind == "StepLR":
        return [steplr_ref(lr0, sched["gamma"], sched["step_size"], e) for e in range(n)]
    if kind == "ExponentialLR":
        return [lr0 * sched["gamma"] ** e for e in range(n)]
    import torch
    opt = torch.optim.SGD([torch.nn.Parameter(torch.zeros(1), requires_grad=False)], lr=lr0)
    out = []
    with warnings.catch_warnings():
        warnings.simplefilter("ignore")
        sc = getattr(torch.optim.lr_scheduler, kind)(opt, **sched_kwargs(sched))
        for e in range(n):
            out.append(float(opt.param_groups[0]["lr"]))
            opt.step()
            try:
                sc.step()
            except Exception:
                out += [float("nan")] * (n - len(out))
                break
    return out


def _run_opts(rng, sched, allow_nocb=True):
    """Call-form options of one fit() call: how optimizer / scheduler / callbacks / integer arguments / data are handed over."""
    o = {}
    o["opt_form"] = "class" if rng.random() < 0.55 else str(rng.choice(OPT_FORMS[1:]))
    o["sched_form"] = "class" if (sched is None or rng.random() < 0.7) else str(rng.choice(CALLABLE_FORMS[1:]))
    o["callbacks"] = "recording" if (not allow_nocb or rng.random() < 0.8) else str(rng.choice(["omitted", "empty_list", "none"]))
    o["int_kind"] = None if rng.random() < 0.75 else str(rng.choice(INT_KINDS))
    o["data_form"] = None if rng.random() < 0.55 else str(rng.choice(DATA_FORMS[2:]))
    o["args_form"] = "shared" if rng.random() < 0.4 else str(rng.choice(ARGS_FORMS[1:]))
    o["cb_container"] = "list" if rng.random() < 0.6 else str(rng.choice(CB_CONTAINERS[1:]))
    return o


class _Factory:
    """A factory OBJECT (callable instance, no __name__): optimizer(params, lr=..) / scheduler(optimizer, ..)."""

    def __init__(self, cls):
        self.cls = cls

    def __call__(self, first, *a, **kw):
        return self.cls(first, *a, **kw)


def _as_int(v, kind):
    if v is None or kind is None:
        return v
    if kind == "arr0d":
        return np.array(int(v))
    if kind == "arr0d_uint8":
        return np.array(int(v), dtype=np.uint8)
    return np.dtype(kind).type(int(v))


def _lr(rng):
    return float(rng.choice([1e-3, 0.05, 0.3, 1.0, float(np.exp(rng.uniform(np.log(1e-4), np.log(3.0))))]))


def rand_spec(ctx, kind=None, k=None, pattern=None, large=None, second=None, history=None):
    rng = ctx.rng
    kind = kind or str(rng.choice(["positive", "complex", "dm"]))
    large = bool(rng.random() < 0.10) if large is None else large
    if large:
        nv = int(rng.integers(20, 41)); nh = int(rng.integers(20, 41)); na = int(rng.integers(1, 4))
    else:
        nv = int(rng.integers(1, 5 if ctx.thorough else 4)); nh = int(rng.integers(1, 4)); na = int(rng.integers(1, 3))
    N = int(rng.integers(1, 10)) if rng.random() < 0.25 else int(rng.integers(3, 10))
    pattern = pattern or str(rng.choice(["equal_div", "equal_nodiv", "neg_smaller", "neg_larger", "neg_default", "single_batch"]))
    divs = [d for d in range(1, N + 1) if N % d == 0]
    nodivs = [d for d in range(2, N) if N % d != 0] or [N + 1]
    if pattern == "equal_div":
        pb = int(rng.choice(divs)); nb = pb
    elif pattern == "equal_nodiv":
        pb = int(rng.choice(nodivs)); nb = pb
    elif pattern == "neg_smaller":
        pb = int(rng.integers(2, max(3, N + 1))); nb = int(rng.integers(1, pb))
    elif pattern == "neg_larger":
        pb = int(rng.integers(1, max(2, N))); nb = int(rng.integers(pb + 1, pb + 5))
    elif pattern == "neg_default":
        pb = int(rng.integers(1, N + 1)); nb = None
    else:
        pb = N + int(rng.integers(0, 3)); nb = int(rng.integers(1, 6))
    k = int(rng.integers(0, 4)) if k is None else k
    lr = _lr(rng)
    epochs = int(rng.integers(1, 5)) if not large else int(rng.integers(1, 3))
    starting_epoch = int(rng.choice([1, 1, 1, 2, 3]))
    optimizer_args = None if rng.random() < 0.75 else {"momentum": 0.0, "weight_decay": 0.0}
    data_as_tensor = bool(rng.random() < 0.25)
    sched = _sched(rng)
    data = rng.integers(0, 2, size=(N, nv)).astype(float)
    bases = _bases(rng, kind, N, nv, max_rot=1 if large else 2)
    am, ph = _params(ctx, kind, nv, nh, na, clip=6.0)
    if large:
        am[0] = am[0] * float(rng.choice([0.2, 1.0, 3.0])) / math.sqrt(nv)       # pre-activations of order 0.2 .. 3
    second = bool(rng.random() < 0.20) if second is None else second
    spec = {"state": kind, "nv": nv, "nh": nh, "na": na if kind == "dm" else None, "N": N,
            "pos_batch_size": pb, "neg_batch_size": nb, "pattern": pattern, "k": k, "lr": lr, "epochs": epochs,
            "starting_epoch": starting_epoch, "optimizer_args": optimizer_args, "data_as_tensor": data_as_tensor,
            "scheduler": sched, "data": data.tolist(), "bases": bases,
            "am": gen.plist(*am), "ph": gen.plist(*ph) if ph is not None else None,
            "torch_seed": ctx.torch_seed(), "second": None, "history": None}
    spec.update(_run_opts(rng, sched))
    if second is False and history is None:
        history = False
    if history is None:
        history = bool(rng.random() < 0.40)
    if history:
        # a same-object history: 1..2 further fit() calls, each preceded by 0..2 mutations of the live state
        ops = ["reinit", "rbm_init"] if large else MUT_OPS
        steps = [[str(o) for o in rng.choice(ops, size=int(rng.choice([0, 1, 1, 1, 2])), replace=False)]
                 for _ in range(int(rng.choice([1, 1, 2])))]
        mid = None if large else {i for i in range(len(steps)) if rng.random() < 0.25}
        add_history(ctx, spec, steps, same_last=bool(rng.random() < 0.3), mid=mid or None)
    elif second:
        lr2 = _lr(rng)
        while math.isclose(lr2, lr, rel_tol=0.05):
            lr2 = lr * float(rng.choice([0.1, 3.0]))
        spec["second"] = {"lr": lr2, "scheduler": _sched(rng), "epochs": int(rng.integers(1, 3)), "starting_epoch": 1,
                          "k": int(rng.integers(0, 4)), "neg_batch_size": int(rng.integers(1, 6)),
                          "pos_batch_size": pb, "optimizer_args": optimizer_args, "data_as_tensor": data_as_tensor}
        spec["second"].update(_run_opts(rng, spec["second"]["scheduler"]))
        if rng.random() < 0.7:
            spec["second"]["args_form"] = spec["args_form"]      # the SAME container object is handed over again
    return spec


# ------------------------------------------------------------------------------------------ histories on ONE state object
# Between two evaluations (fit() calls, direct compute_batch_gradients calls) the harness applies the legal mutations the
# library offers or tolerates.  A mutation is a JSON dict {"op": ..., ...}; ops that write values carry them
# ("targets": {network: {parameter name: nested list}}), so that a replay applies exactly the same history.
VALUE_OPS = ["data_assign", "data_copy", "copy_nograd"]                       # in place on the SAME nn.Parameter objects
MUT_OPS = ["reinit", "rbm_init", "rebind", "replace_net", "load_state_dict", "state_load", "ext_step", "scribble_grads"] + VALUE_OPS
MID_OPS = VALUE_OPS + ["ext_step"]                                            # tolerated DURING a fit (from a callback)
_COUNTER = itertools.count()


def _nets_of(kind):
    return ["rbm_am"] if kind == "positive" else ["rbm_am", "rbm_ph"]


def _layout_kind(kind):
    return LAYOUT_P if kind == "dm" else LAYOUT_B


def _net_values(ctx, kind, net, nv, nh, na, wscale=1.0):
    """fresh values for every parameter of one network {name: nested list}"""
    if kind == "dm":
        vals = list(gen.prbm_params(ctx, nv, nh, na, phase=(net == "rbm_ph")))
    else:
        vals = list(gen.brbm_params(ctx, nv, nh))
    vals = [np.clip(np.asarray(a, dtype=float), -6.0, 6.0) for a in vals]
    vals[0] = vals[0] * wscale
    return {n: v.tolist() for n, v in zip(_layout_kind(kind), vals)}


def rand_mutation(ctx, kind, nv, nhs, na, op=None, ops=None, wscale=1.0):
    """One mutation; nhs = {network: current number of hidden units} (updated when a network is replaced by one of another size)."""
    rng = ctx.rng
    nets = _nets_of(kind)
    op = op or str(rng.choice(ops or MUT_OPS))
    # fixed histories pin the network / the parameter names:  "op@network:name1,name2"  ("first" / "last" = by position)
    op, _, names_fixed = op.partition(":")
    op, _, net_fixed = op.partition("@")
    net = net_fixed if net_fixed in nets else str(rng.choice(nets))
    if names_fixed:
        lay = _layout_kind(kind)
        names_fixed = [{"first": lay[0], "last": lay[-1]}.get(n, n) for n in names_fixed.split(",")]
    if op in ("reinit", "scribble_grads"):
        return {"op": op}
    if op == "rbm_init":
        return {"op": op, "net": net, "zero_weights": bool(rng.random() < 0.25)}
    if op == "replace_net":
        nh_new = nhs[net]
        if kind != "dm" and max(nv, nh_new) <= 4 and rng.random() < 0.4:
            nh_new = int(rng.integers(1, 4))               # a network of another size is tolerated (only nv is shared)
        nhs[net] = nh_new
        return {"op": op, "net": net, "nh": nh_new, "targets": {net: _net_values(ctx, kind, net, nv, nh_new, na, wscale)}}
    if op == "ext_step":
        return {"op": op, "net": net, "lr": float(rng.choice([0.1, 1.0])),
                "targets": {net: _net_values(ctx, kind, net, nv, nhs[net], na, wscale)}}
    if op == "state_load":
        return {"op": op, "targets": {n: _net_values(ctx, kind, n, nv, nhs[n], na, wscale) for n in nets}}
    chosen = nets if (len(nets) > 1 and not net_fixed and rng.random() < 0.35) else [net]
    tg = {}
    for n in chosen:
        vals = _net_values(ctx, kind, n, nv, nhs[n], na, wscale)
        if names_fixed and op != "load_state_dict":
            vals = {nm: vals[nm] for nm in vals if nm in names_fixed}
        elif op != "load_state_dict" and rng.random() < 0.6:        # a subset of the parameters (load_state_dict needs all)
            names = list(vals)
            keep = [str(x) for x in rng.choice(names, size=int(rng.integers(1, len(names) + 1)), replace=False)]
            vals = {nm: vals[nm] for nm in names if nm in keep}
        tg[n] = vals
    return {"op": op, "targets": tg}


def apply_mutation(ctx, s, kind, mut):
    """Apply one mutation to the live state `s`, the way a user would."""
    import torch
    from torch import nn
    from qucumber.rbm import BinaryRBM, PurificationRBM
    op = mut["op"]

    def T(v):
        return torch.tensor(np.array(v, dtype=float), dtype=torch.double)

    if op == "reinit":
        s.reinitialize_parameters()
    elif op == "scribble_grads":
        # the .grad tensors a fit left behind (views of its last gradient vectors) belong to the caller
        for net in s.networks:
            for q in getattr(s, net).parameters():
                if q.grad is not None:
                    q.grad.fill_(float("nan"))
    elif op == "rbm_init":
        if mut.get("zero_weights"):
            getattr(s, mut["net"]).initialize_parameters(zero_weights=True)
        else:
            getattr(s, mut["net"]).initialize_parameters()
    elif op == "replace_net":
        net = mut["net"]; vals = mut["targets"][net]
        nv = int(np.array(vals["visible_bias"]).shape[0])
        if kind == "dm":
            new = PurificationRBM(nv, mut["nh"], int(np.array(vals["aux_bias"]).shape[0]), gpu=False)
        else:
            new = BinaryRBM(nv, mut["nh"], gpu=False)
        for name, v in vals.items():
            getattr(new, name).data = T(v)
        setattr(s, net, new)                                   # the public setter
    elif op == "rebind":
        for net, vals in mut["targets"].items():
            for name, v in vals.items():
                setattr(getattr(s, net), name, nn.Parameter(T(v), requires_grad=False))
    elif op == "data_assign":
        for net, vals in mut["targets"].items():
            for name, v in vals.items():
                getattr(getattr(s, net), name).data = T(v)
    elif op == "data_copy":
        for net, vals in mut["targets"].items():
            for name, v in vals.items():
                getattr(getattr(s, net), name).data.copy_(T(v))
    elif op == "copy_nograd":
        with torch.no_grad():
            for net, vals in mut["targets"].items():
                for name, v in vals.items():
                    getattr(getattr(s, net), name).copy_(T(v))
    elif op == "load_state_dict":
        for net, vals in mut["targets"].items():
            getattr(s, net).load_state_dict({name: T(v) for name, v in vals.items()})
    elif op == "state_load":
        import os
        path = os.path.join(ctx.scratch, "c06_state_%d_%d.pt" % (os.getpid(), next(_COUNTER)))
        blob = {net: {name: T(v) for name, v in vals.items()} for net, vals in mut["targets"].items()}
        if hasattr(s, "unitary_dict"):
            blob["unitary_dict"] = {k: v.clone() for k, v in s.unitary_dict.items()}
        torch.save(blob, path)                                 # the documented file layout: {network: state_dict, **metadata}
        try:
            s.load(path)
            # the file belongs to the caller again: overwritten in place (same length), replaced by another, larger model,
            # then deleted - the loaded state must not be backed by it (the following fit is judged on the live parameters,
            # which must only change through optimizer.step)
            size = os.path.getsize(path)
            with open(path, "r+b") as fh:
                fh.write(b"\0" * size)
            os.remove(path)
            torch.save({net: {name: torch.cat([T(v).reshape(-1)] * 3) for name, v in vals.items()} for net, vals in mut["targets"].items()}, path)
        finally:
            if os.path.exists(path):
                os.remove(path)
    elif op == "ext_step":
        # a user's own optimizer over the network's parameters: one in-place step; leaves stale .grad fields behind
        rbm = getattr(s, mut["net"])
        ps = list(rbm.parameters())
        for name, v in mut["targets"][mut["net"]].items():
            getattr(rbm, name).grad = T(v)
        torch.optim.SGD(ps, lr=mut["lr"]).step()
    else:
        raise ValueError("unknown mutation " + str(op))


def rand_run(ctx, base, same=False):
    """Arguments of a further fit() call on the same state (same=True: exactly the arguments of the first call again)."""
    rng = ctx.rng
    if same:
        return {k: copy.deepcopy(base[k]) for k in RUN_KEYS + [o for o in RUN_OPTS if o in base]}
    lr2 = _lr(rng)
    while math.isclose(lr2, base["lr"], rel_tol=0.05):
        lr2 = base["lr"] * float(rng.choice([0.1, 3.0]))
    run = {"lr": lr2, "scheduler": _sched(rng), "epochs": int(rng.integers(1, 3)), "starting_epoch": int(rng.choice([1, 1, 2])),
           "k": int(rng.integers(0, 4)), "neg_batch_size": (None if rng.random() < 0.2 else int(rng.integers(1, 6))),
           "pos_batch_size": base["pos_batch_size"], "optimizer_args": base["optimizer_args"], "data_as_tensor": base["data_as_tensor"]}
    run.update(_run_opts(rng, run["scheduler"]))
    if base.get("args_form") and rng.random() < 0.7:
        run["args_form"] = base["args_form"]
    if rng.random() < 0.3:
        run["scheduler"] = copy.deepcopy(base["scheduler"])      # same scheduler settings: the caller does not touch its dict
        if run["scheduler"] is None:
            run["sched_form"] = "class"
    return run


def rand_mid(ctx, spec, run, nhs, wscale=1.0):
    """An in-place edit of live parameters made by a callback at the start of one batch of the run."""
    rng = ctx.rng
    nb = math.ceil(spec["N"] / run["pos_batch_size"])
    m = rand_mutation(ctx, spec["state"], spec["nv"], dict(nhs), spec["na"] or 1, ops=MID_OPS, wscale=wscale)
    m["epoch"] = int(run["starting_epoch"] + rng.integers(0, run["epochs"]))
    m["batch"] = int(rng.integers(0, nb))
    return m


def add_history(ctx, spec, ops_per_step, same_last=False, mid=None):
    """Extend spec by further fit() calls on the same state, step i preceded by the mutations ops_per_step[i] (list of op names)."""
    kind, nv, na = spec["state"], spec["nv"], spec["na"] or 1
    wscale = 1.0 / math.sqrt(nv) if max(nv, spec["nh"]) > 4 else 1.0
    nhs = {n: spec["nh"] for n in _nets_of(kind)}
    base = {k: spec[k] for k in RUN_KEYS + [o for o in RUN_OPTS if o in spec]}
    hist = []
    for i, ops in enumerate(ops_per_step):
        muts = [rand_mutation(ctx, kind, nv, nhs, na, op=o, wscale=wscale) for o in ops]
        run = rand_run(ctx, base, same=(same_last and i == len(ops_per_step) - 1))
        if mid is not None and i in mid:
            run["mid"] = rand_mid(ctx, spec, run, nhs, wscale)
            run["callbacks"] = "recording"          # the in-place edit is made by the harness's callback
        hist.append({"mut": muts, "run": run})
    spec["history"] = hist
    return spec


def fixed_histories(ctx):
    """Same-object histories that always run first: every mutation operator, every state type, before any time budget."""
    plan = [
        ("positive", [["reinit"]], False, None),
        ("complex", [["reinit"]], True, None),
        ("dm", [["reinit"]], False, None),
        ("complex", [["rbm_init@rbm_ph"], ["rbm_init@rbm_am"]], False, None),
        ("positive", [["rebind:last"], ["rebind:first"]], True, None),            # one parameter re-bound, the others keep their objects
        ("dm", [["rebind@rbm_am:weights_U,visible_bias"], ["replace_net@rbm_am"]], False, None),
        ("complex", [["replace_net@rbm_am"], ["replace_net@rbm_ph"]], False, None),
        ("positive", [["replace_net"], ["data_copy"]], False, None),
        ("dm", [["data_assign@rbm_am"], ["data_copy@rbm_am"]], False, None),
        ("positive", [["copy_nograd"], ["load_state_dict"]], False, None),
        ("complex", [["state_load"], ["ext_step@rbm_am"]], False, None),
        ("dm", [["state_load"], ["copy_nograd", "ext_step"]], True, None),
        ("complex", [["data_copy@rbm_am"], ["load_state_dict", "rebind@rbm_ph:hidden_bias"]], True, None),
        ("complex", [["rebind@rbm_ph:first"], ["rebind@rbm_am:visible_bias"]], False, None),
        ("positive", [["data_assign"], ["data_assign:first"]], True, None),
        ("positive", [[]], True, None),                      # the very same fit() call again (same lr / scheduler / sizes / epochs)
        ("complex", [["data_copy"]], True, None),
        ("dm", [[]], True, None),
        ("positive", [[], []], True, {0, 1}),                # continued training, in-place edits by a callback during the fit
        ("complex", [[]], False, {0}),
        ("dm", [["reinit"]], False, {0}),
        ("complex", [["scribble_grads"]], False, None),
    ]
    out = []
    for i, (kind, steps, same_last, mid) in enumerate(plan):
        sp = rand_spec(ctx, kind, 1 + i % 3, ["neg_smaller", "neg_larger", "equal_nodiv", "neg_default"][i % 4], large=False, second=False)
        sp.update(epochs=2 if i % 2 == 0 else 1, starting_epoch=1, scheduler={"step_size": 1, "gamma": 0.5} if i % 3 != 2 else None)
        if same_last:
            sp.update(epochs=2, scheduler={"step_size": 1, "gamma": 0.5})     # the first call leaves a decayed lr behind
        add_history(ctx, sp, steps, same_last=same_last, mid=mid)
        if i % 2 == 1 and not same_last:
            sp["history"][-1]["run"]["k"] = 0                                  # k = 0: the chain end is the negative batch itself
        out.append(("history:" + "+".join("/".join(o) or "continue" for o in steps) + ("+mid_fit_edit" if mid else ""),
                    sp))
    return out


def fixed_shared_args(ctx):
    """Histories in which the caller keeps ONE optimizer_args / scheduler_args object (in every accepted container form, also an
    explicitly passed empty one) and hands it to several fit() calls that ask for DIFFERENT learning rates with the SAME
    scheduler settings (so the caller never touches the objects between the calls), on one state object or on two."""
    neutral = {"momentum": 0.0, "weight_decay": 0.0}
    plan = [   # state, args_form, optimizer_args, optimizer form, scheduler, lrs of the further calls, prelude lr
        ("positive", "shared_explicit", None, "class", {"step_size": 1, "gamma": 0.5}, [0.02, 0.5], None),
        ("complex", "shared", neutral, "default", {"kind": "ExponentialLR", "gamma": 0.5}, [0.3], None),
        ("dm", "ordered", None, "sgd", {"step_size": 2, "gamma": 0.1}, [0.01], None),
        ("positive", "userdict", neutral, "partial", None, [1.0, 0.03], None),
        ("complex", "proxy", None, "lambda", {"step_size": 1, "gamma": 1.5}, [0.004], None),
        ("dm", "shared_explicit", neutral, "factory", None, [0.2], None),
        ("positive", "fresh", neutral, "class", {"step_size": 1, "gamma": 0.5}, [0.25], None),
        ("positive", "shared_explicit", None, "default", None, [], 0.7),          # two states, one settings dict
        ("complex", "ordered", neutral, "class", {"step_size": 1, "gamma": 0.5}, [0.05], 0.9),
    ]
    out = []
    for i, (kind, aform, oargs, oform, sched, lrs, pre) in enumerate(plan):
        sp = rand_spec(ctx, kind, i % 3, ["neg_smaller", "neg_larger", "equal_nodiv"][i % 3], large=False, second=False)
        sp.update(RUN_OPTS)
        sp.update(lr=0.1, epochs=2, starting_epoch=1, scheduler=copy.deepcopy(sched), optimizer_args=copy.deepcopy(oargs),
                  args_form=aform, opt_form=oform)
        if lrs:
            add_history(ctx, sp, [[] for _ in lrs])
            for st, lr in zip(sp["history"], lrs):
                st["run"].update(RUN_OPTS)
                st["run"].update(lr=lr, scheduler=copy.deepcopy(sched), optimizer_args=copy.deepcopy(oargs), args_form=aform,
                                 opt_form=oform, epochs=2, starting_epoch=1)
        if pre is not None:
            sp["prelude"] = {"lr": pre, "epochs": 1}
        out.append(("shared_args_objects:%s%s" % (aform, "+two_states" if pre is not None else ""), sp))
    return out


def fixed_specs(ctx):
    """Cases that always run first (regimes the random stream reaches only with small probability)."""
    out = []
    # -- two consecutive fit() calls on the same state: the second call must use ITS lr / scheduler / k
    s1 = rand_spec(ctx, "positive", 1, "neg_smaller", large=False, second=False)
    s1.update(lr=0.3, scheduler={"step_size": 1, "gamma": 0.5}, epochs=2, starting_epoch=1, optimizer_args=None)
    s1["second"] = {"lr": 0.01, "scheduler": None, "epochs": 2, "starting_epoch": 1, "k": 2, "neg_batch_size": 3,
                    "pos_batch_size": s1["pos_batch_size"], "optimizer_args": None, "data_as_tensor": False}
    s2 = rand_spec(ctx, "complex", 2, "equal_div", large=False, second=False)
    s2.update(lr=0.05, scheduler=None, epochs=1, starting_epoch=1, optimizer_args={"momentum": 0.0, "weight_decay": 0.0})
    s2["second"] = {"lr": 0.5, "scheduler": {"step_size": 1, "gamma": 0.1}, "epochs": 2, "starting_epoch": 1, "k": 0,
                    "neg_batch_size": 2, "pos_batch_size": s2["pos_batch_size"],
                    "optimizer_args": {"momentum": 0.0, "weight_decay": 0.0}, "data_as_tensor": True}
    s3 = rand_spec(ctx, "dm", 1, "neg_larger", large=False, second=False)
    s3.update(lr=1.0, scheduler={"step_size": 2, "gamma": 0.1}, epochs=3, starting_epoch=1)
    s3["second"] = {"lr": 1e-3, "scheduler": {"step_size": 1, "gamma": 1.5}, "epochs": 2, "starting_epoch": 1, "k": 3,
                    "neg_batch_size": None, "pos_batch_size": s3["pos_batch_size"], "optimizer_args": None, "data_as_tensor": False}
    out += [("two_fits", s) for s in (s1, s2, s3)]
    # -- near-vanishing rotated amplitude: complex, 1 site, basis X, outcome 1: A = (psi0 - psi1)/sqrt2 ~ eps/2
    for eps, lr in ((2e-3, 1e-4), (0.2, 1e-2)):
        sp = rand_spec(ctx, "complex", 1, "equal_div", large=False, second=False)
        sp.update(nv=1, nh=1, N=3, pos_batch_size=1, neg_batch_size=2, pattern="neg_larger", lr=lr, epochs=2, starting_epoch=1,
                  scheduler={"step_size": 1, "gamma": 0.5}, data=[[1.0], [0.0], [1.0]], bases=["X", "Z", "Z"],
                  am=[[[0.0]], [0.0], [0.3]], ph=[[[0.0]], [eps], [0.2]], data_as_tensor=False, optimizer_args=None)
        out.append(("near_singular_rotation", sp))
    # -- |grad| > 100 with entries bounded by 1: 160 x 160, all-ones against all-zeros rows, weights 3/nv-free
    n = 160
    sp = rand_spec(ctx, "positive", 0, "neg_larger", large=False, second=False)
    sp.update(nv=n, nh=n, N=2, pos_batch_size=1, neg_batch_size=3, pattern="neg_larger", k=0, lr=1e-3, epochs=4, starting_epoch=1,
              scheduler=None, data=[[1.0] * n, [0.0] * n], bases=None, data_as_tensor=False, optimizer_args=None,
              am=[np.full((n, n), 3.0 / n).tolist(), [0.1] * n, [-0.2] * n], ph=None)
    out.append(("large_shape_ones_vs_zeros", sp))
    # -- larger shapes, every state type, k > 0 (conditionals by formula)
    for kind, k in (("positive", 2), ("complex", 1), ("dm", 1)):
        out.append(("large_shape", rand_spec(ctx, kind, k, "neg_smaller", large=True, second=False)))
    return out


def fixed_call_forms(ctx):
    """Call forms that always run first: every scheduler kind, every way of handing over the optimizer / scheduler (class,
    omitted = default, torch.optim.SGD itself, functools.partial, factory object, lambda), runs without callbacks, integer
    arguments as narrow numpy integers / 0-d arrays, data as numpy views / lists / tensor views.  Each has 3 epochs of >= 2
    batches, so that a scheduler advanced per batch, a stale lr or a skipped optimizer.step shows."""
    rng = ctx.rng
    kinds3 = ["positive", "complex", "dm"]
    plan = []
    for kind in SCHED_KINDS + [MORE_SCHED_KINDS[int(rng.integers(0, 3))], MORE_SCHED_KINDS[3 + int(rng.integers(0, 3))]]:   # A. scheduler kinds
        plan.append(("scheduler_kind:" + kind, kind, {}))
    plan += [                                                                  # B. optimizer / scheduler call forms
        ("optimizer_default", "StepLR", {"opt_form": "default"}),
        ("optimizer_torch_SGD_itself", "ExponentialLR", {"opt_form": "sgd"}),
        ("optimizer_default_no_scheduler", None, {"opt_form": "default", "optimizer_args": {"momentum": 0.0, "weight_decay": 0.0}}),
        ("optimizer_partial", None, {"opt_form": "partial"}),
        ("optimizer_factory_object", "StepLR", {"opt_form": "factory", "sched_form": "factory"}),
        ("optimizer_lambda", "LambdaLR", {"opt_form": "lambda", "sched_form": "lambda"}),
        ("scheduler_partial", "OneCycleLR", {"opt_form": "partial", "sched_form": "partial"}),
        # C. runs without callbacks
        ("callbacks_omitted", "StepLR", {"callbacks": "omitted"}),
        ("callbacks_empty_list", "CyclicLR", {"callbacks": "empty_list"}),
        ("callbacks_None", "OneCycleLR", {"callbacks": "none", "opt_form": "sgd"}),
        ("plain_call:no_optimizer_no_callbacks", "ExponentialLR", {"callbacks": "omitted", "opt_form": "default"}),
    ]
    for j, cc in enumerate(CB_CONTAINERS[1:]):                                 # C'. the callbacks in every iterable form
        plan.append(("callbacks_container:" + cc, "StepLR" if j % 2 else None, {"cb_container": cc, "args_form": ARGS_FORMS[1 + j % 5]}))
    for ik in INT_KINDS:                                                       # D. integer arguments
        plan.append(("integer_arguments:" + ik, "StepLR" if len(plan) % 2 else None, {"int_kind": ik}))
    out = []
    for i, (label, skind, upd) in enumerate(plan):
        while True:
            sp = rand_spec(ctx, kinds3[i % 3], 1 + i % 2, "neg_larger", large=False, second=False)
            if sp["N"] >= 4:
                break
        sp.update(RUN_OPTS)
        sp.update(pos_batch_size=2, neg_batch_size=3, epochs=3, starting_epoch=1 if i % 4 else 2, optimizer_args=None,
                  scheduler=None if skind is None else _sched(rng, skind), data_form=DATA_FORMS[i % len(DATA_FORMS)])
        if skind == "StepLR":
            sp["scheduler"] = {"step_size": 1, "gamma": 0.5}
        sp.update(upd)
        if sp["int_kind"] in ("uint8", "arr0d_uint8", "int8"):
            # enough batches that num_batches * neg_batch_size leaves the integer type (a wrap would drop batches: seen in a
            # run without callbacks, where the batches are counted against ceil(N / pos_batch_size))
            top = 127 if sp["int_kind"] == "int8" else 255
            sp.update(pos_batch_size=1, neg_batch_size=top // sp["N"] + 1, epochs=2, k=1)
            if sp["int_kind"] != "int8":
                sp["callbacks"] = "omitted"
        out.append((label, sp))
    return out


def stat_fixed(ctx):
    """Parameters with a strongly state-dependent chain (the red team's demo point and a purification analogue)."""
    return [
        {"state": "positive", "nv": 1, "nh": 1, "na": None, "am": [[[8.0]], [-6.0], [0.0]], "ph": None, "start": [0.0]},
        {"state": "complex", "nv": 2, "nh": 1, "na": None, "am": [[[6.0, -5.0]], [-4.0, 2.0], [0.5]],
         "ph": [[[0.3, -0.2]], [0.1, 0.2], [0.4]], "start": [0.0, 1.0]},
        {"state": "dm", "nv": 1, "nh": 1, "na": 1, "am": [[[8.0]], [[-5.0]], [-3.0], [0.0], [1.0]],
         "ph": [[[0.2]], [[0.1]], [0.3], [-0.1], [0.0]], "start": [0.0]},
    ]


def build_state(spec):
    from qucumber.nn_states import PositiveWaveFunction, ComplexWaveFunction, DensityMatrix
    am = [np.array(a, dtype=float) for a in spec["am"]]
    ph = [np.array(a, dtype=float) for a in spec["ph"]] if spec["ph"] is not None else None
    if spec["state"] == "positive":
        s = PositiveWaveFunction(spec["nv"], spec["nh"], gpu=False)
        gen.set_brbm(s.rbm_am, *am)
    elif spec["state"] == "complex":
        s = ComplexWaveFunction(spec["nv"], spec["nh"], gpu=False)
        gen.set_brbm(s.rbm_am, *am); gen.set_brbm(s.rbm_ph, *ph)
    else:
        s = DensityMatrix(spec["nv"], spec["nh"], spec["na"], gpu=False)
        gen.set_prbm(s.rbm_am, *am); gen.set_prbm(s.rbm_ph, *ph)
    return s


# ------------------------------------------------------------------------------------------ recording one state
SPEC_KEYS = ["state", "nv", "nh", "na", "N", "pos_batch_size", "neg_batch_size", "pattern", "k", "lr", "epochs", "scheduler",
             "data", "bases", "am", "ph", "torch_seed"]
SPEC_DEFAULTS = dict({"starting_epoch": 1, "optimizer_args": None, "data_as_tensor": False, "second": None, "history": None,
                      "prelude": None}, **RUN_OPTS)
RUN_KEYS = ["lr", "scheduler", "epochs", "starting_epoch", "k", "neg_batch_size", "pos_batch_size", "optimizer_args", "data_as_tensor"]


def _plain_equal(a, b):
    try:
        return type(a) is type(b) and not callable(a) and bool(a == b)
    except Exception:
        return False


def _snap_arg(o):
    """Deep snapshot of an argument object: mappings / sequences recursively, arrays and tensors by value (with dtype, shape
    and strides), everything else (classes, callables, callbacks, iterators, numbers) by identity / equality."""
    import torch
    if isinstance(o, torch.Tensor):
        return ("tensor", str(o.dtype), tuple(o.shape), tuple(o.stride()), o.detach().clone())
    if isinstance(o, np.ndarray):
        return ("ndarray", str(o.dtype), o.shape, o.strides, o.flags.writeable, o.copy())
    if isinstance(o, collections.abc.Mapping):
        return ("mapping", type(o), [(k, _snap_arg(v)) for k, v in o.items()])
    if isinstance(o, (list, tuple)):
        return ("sequence", type(o), [_snap_arg(v) for v in o])
    return ("object", o)


def _same_arg(a, b):
    import torch
    if a[0] != b[0]:
        return False
    if a[0] == "tensor":
        return a[1:4] == b[1:4] and bool(torch.equal(a[4], b[4]) or (torch.isnan(a[4]) == torch.isnan(b[4])).all() and torch.equal(torch.nan_to_num(a[4].double()), torch.nan_to_num(b[4].double())))
    if a[0] == "ndarray":
        return a[1:5] == b[1:5] and bool(np.array_equal(a[5], b[5], equal_nan=a[5].dtype.kind in "fc"))
    if a[0] == "mapping":
        return a[1] is b[1] and len(a[2]) == len(b[2]) and all(ka == kb and _same_arg(va, vb) for (ka, va), (kb, vb) in zip(a[2], b[2]))
    if a[0] == "sequence":
        return a[1] is b[1] and len(a[2]) == len(b[2]) and all(_same_arg(va, vb) for va, vb in zip(a[2], b[2]))
    return a[1] is b[1] or _plain_equal(a[1], b[1])


class Recorder:
    """One real state with observation points installed once; fit() may be called on it several times."""

    def __init__(self, spec, share_from=None):
        import torch
        from qucumber.callbacks import CallbackBase
        self.spec = spec
        s = self.s = build_state(spec)
        self.events = []
        self.spy = BernoulliSpy()
        self.mid = None                       # pending in-place edit to be made by the callback during the running fit
        self.ctx = None
        # objects the caller hands to EVERY fit() call of the history (same objects, refilled / edited in place between calls)
        self.data_np = np.array(spec["data"], dtype=float)
        self.data_t = torch.tensor(self.data_np, dtype=torch.double)
        self.data_objs = {"ndarray": self.data_np, "tensor": self.data_t}
        self.in_mut = False                   # a mutation of the harness is running (its optimizer step is not fit's)
        self.bases_np = None if spec["state"] == "positive" else np.array([list(b) for b in spec["bases"]])
        # the caller's argument containers, one object per form for the whole history (see ARGS_FORMS); `own` = the keys the
        # CALLER wrote and the values it gave them (it never clears the object: what a fit() call left in it stays)
        if share_from is not None:
            self.arg_objs, self.arg_own = share_from.arg_objs, share_from.arg_own      # two states configured from ONE settings object
        else:
            self.arg_objs = {(w, f): c() for w in ("opt", "sched")
                             for f, c in (("dict", dict), ("ordered", collections.OrderedDict), ("userdict", collections.UserDict))}
            self.arg_own = {key: {} for key in self.arg_objs}
        self.last_kw = {}
        self.args_changed = []                # argument objects a fit() call of this history left changed: (name, run)
        R = self

        class RecSGD(torch.optim.SGD):
            def step(self, closure=None):
                ps = [p for g in self.param_groups for p in g["params"]]
                rec = {"lrs": [float(g["lr"]) for g in self.param_groups for _ in g["params"]], "params": ps,
                       "before": [p.data.detach().clone() for p in ps],
                       "grad": [None if p.grad is None else p.grad.detach().clone() for p in ps]}
                out = super().step(closure)
                rec["after"] = [p.data.detach().clone() for p in ps]
                R.events.append(("opt", rec))
                return out

        def rec_sched(base):
            class RecSched(base):
                def __init__(self, *a, **k):
                    self._rec_ready = False            # the constructor performs torch's own initial step()
                    super().__init__(*a, **k)
                    self._rec_ready = True

                def step(self, *a, **k):
                    if getattr(self, "_rec_ready", False):
                        R.events.append(("sched", {}))
                    return super().step(*a, **k)
            RecSched.__name__ = RecSched.__qualname__ = "Rec" + base.__name__
            return RecSched

        RecStepLR = rec_sched(torch.optim.lr_scheduler.StepLR)
        self.rec_scheds = {"StepLR": RecStepLR}
        self._rec_sched = rec_sched

        class RecCB(CallbackBase):
            def on_epoch_start(self, nn_state, epoch):
                R.events.append(("epoch_start", {"ep": epoch}))

            def on_epoch_end(self, nn_state, epoch):
                R.events.append(("epoch_end", {"ep": epoch}))

            def on_batch_start(self, nn_state, epoch, batch):
                R.events.append(("batch_start", {"ep": epoch, "b": batch}))
                mid = R.mid
                if mid is not None and not mid.get("done") and epoch == mid["epoch"] and batch == mid["batch"]:
                    # a callback edits live parameters IN PLACE (same nn.Parameter objects) before this batch is processed
                    mid["done"] = True
                    before = R.live_snap()
                    R.in_mut = True
                    try:
                        apply_mutation(R.ctx, R.s, R.spec["state"], mid)
                    finally:
                        R.in_mut = False
                    R.events.append(("mut", {"live_before": before, "live_after": R.live_snap(), "op": mid["op"]}))

            def on_batch_end(self, nn_state, epoch, batch):
                R.events.append(("batch_end", {"ep": epoch, "b": batch}))

        self.RecSGD, self.RecStepLR, self.RecCB = RecSGD, RecStepLR, RecCB
        self.cb = RecCB()                     # the SAME callback object observes every fit() call of the history
        orig_cbg = s.compute_batch_gradients
        open_cbg = self.open_cbg = []

        def cbg(*args, **kw):
            # observation only: accept positional and keyword forms alike
            names = ["k", "samples_batch", "neg_batch", "bases_batch"]
            got = dict(zip(names, args)); got.update({n: v for n, v in kw.items() if n in names})
            samples_batch, neg_batch, bases_batch = got.get("samples_batch"), got.get("neg_batch"), got.get("bases_batch")
            rec = {"samples": samples_batch.detach().clone(), "neg": neg_batch.detach().clone(),
                   "bases": None if bases_batch is None else np.array(bases_batch).copy(),
                   "params": R.live_snap(), "gibbs": []}
            if spec["state"] == "positive":
                pos = s.positive_phase_gradients(samples_batch)
            else:
                pos = s.positive_phase_gradients(samples_batch, bases_batch=bases_batch)
            rec["pos"] = [p.detach().clone() for p in pos]
            R.events.append(("cbg", rec))
            open_cbg.append(rec)
            i0 = len(R.spy.calls)
            try:
                out = orig_cbg(*args, **kw)
            finally:
                open_cbg.pop()
                rec["bern"] = R.spy.calls[i0:]
            rec["ret"] = [g.detach().clone() for g in out]
            return out

        s.compute_batch_gradients = cbg
        self.watch_gibbs()

    @property
    def nets(self):
        """The networks the state uses NOW (a network may have been replaced through the public setter)."""
        return [getattr(self.s, n) for n in self.s.networks]

    def live_snap(self):
        return [snap(n) for n in self.nets]

    def watch_gibbs(self):
        """Observation point on the CURRENT amplitude network's gibbs_steps (re-installed when the network was replaced)."""
        rbm = self.s.rbm_am
        if "gibbs_steps" in vars(rbm):
            return
        orig_gibbs = rbm.gibbs_steps
        open_cbg = self.open_cbg

        def gibbs(*args, **kw):
            names = ["k", "initial_state", "overwrite"]
            got = dict(zip(names, args)); got.update({n: v for n, v in kw.items() if n in names})
            init = got["initial_state"].detach().clone()
            out = orig_gibbs(*args, **kw)
            if open_cbg:
                open_cbg[-1]["gibbs"].append({"k": int(got["k"]), "init": init, "vk": out.detach().clone()})
            return out

        rbm.gibbs_steps = gibbs

    def mutate(self, ctx, muts):
        """Apply the mutations of one history step to the live state.  False: a mutation itself raised (nothing the
        property speaks about: the history ends there, counted)."""
        for mut in muts:
            ctx.count("history_mutation:" + mut["op"])
            try:
                apply_mutation(ctx, self.s, self.spec["state"], mut)
            except Exception as e:
                ctx.count("history_mutation_raised:%s:%s" % (mut["op"], type(e).__name__))
                return False
        self.watch_gibbs()
        return True

    def sched_class(self, kind):
        import torch
        if kind not in self.rec_scheds:
            self.rec_scheds[kind] = self._rec_sched(getattr(torch.optim.lr_scheduler, kind))
        return self.rec_scheds[kind]

    def data_object(self, form):
        """The caller's data object of the given form (content = spec["data"]); the SAME object at every call that uses the form."""
        import torch
        if form not in self.data_objs:
            d = self.data_np
            if form == "list":
                o = [[float(x) for x in r] for r in d.tolist()]
            elif form == "np_reversed":
                o = d[::-1].copy()[::-1]                        # a view with a negative row stride
            elif form == "np_flipped":
                o = d[:, ::-1].copy()[:, ::-1]                  # ... negative column stride
            elif form == "np_fortran":
                o = np.asfortranarray(d)
            elif form == "np_stride2":
                big = np.full((2 * d.shape[0], d.shape[1]), 0.5); big[::2] = d
                o = big[::2]                                    # every second row of a larger array
            elif form == "np_readonly":
                o = d.copy(); o.setflags(write=False)
            elif form == "np_int":
                o = d.astype(np.int8)
            elif form == "tensor_view":
                big = torch.full((d.shape[0], 2 * d.shape[1]), 0.5, dtype=torch.double); big[:, ::2] = self.data_t
                o = big[:, ::2]                                 # non-contiguous tensor view
            elif form == "tensor_float32":
                o = self.data_t.to(torch.float32)
            elif form == "tuple":
                o = tuple(tuple(float(x) for x in r) for r in d.tolist())
            else:
                raise ValueError("unknown data form " + str(form))
            self.data_objs[form] = o
        return self.data_objs[form]

    def fit(self, ctx, run, case):
        """One real fit() call with the run's arguments.  Returns (ok, events, init_params)."""
        import torch
        spec, s = self.spec, self.s
        self.ctx = ctx
        self.events = []
        self.spy.calls = []
        self.mid = copy.deepcopy(run["mid"]) if run.get("mid") else None
        if self.mid is not None:
            ctx.count("mid_fit_in_place_edit:" + self.mid["op"])
        se = run["starting_epoch"]
        ik = run.get("int_kind")
        kw = dict(epochs=_as_int(se + run["epochs"] - 1, ik), pos_batch_size=_as_int(run["pos_batch_size"], ik),
                  neg_batch_size=_as_int(run["neg_batch_size"], ik), k=_as_int(run["k"], ik),
                  lr=run["lr"] if ik is None else np.float64(run["lr"]))           # ... and the lr as a numpy float
        if se != 1:
            kw["starting_epoch"] = _as_int(se, ik)
        # -- how the optimizer is handed over: the recording class, nothing (the default), torch's SGD itself, or another callable
        form = run.get("opt_form") or "class"
        RS = self.RecSGD
        if form == "class":
            kw["optimizer"] = RS
        elif form == "sgd":
            kw["optimizer"] = torch.optim.SGD
        elif form == "partial":
            kw["optimizer"] = functools.partial(RS, dampening=0.0)
        elif form == "factory":
            kw["optimizer"] = _Factory(RS)
        elif form == "lambda":
            kw["optimizer"] = lambda params, lr=1e-3, **k: RS(params, lr=lr, **k)
        cbs = run.get("callbacks") or "recording"
        if self.mid is not None:
            cbs = "recording"
        if cbs == "recording":
            cc = run.get("cb_container") or "list"
            if cc == "callback_list":
                from qucumber.callbacks import CallbackList
            kw["callbacks"] = ((self.cb,) if cc == "tuple" else (c for c in [self.cb]) if cc == "generator" else iter([self.cb]) if cc == "iter"
                               else filter(None, [self.cb]) if cc == "filter" else CallbackList([self.cb]) if cc == "callback_list" else [self.cb])
        elif cbs == "empty_list":
            kw["callbacks"] = []
        elif cbs == "none":
            kw["callbacks"] = None
        # the caller's container objects (one per form for the whole history); the caller writes its OWN keys only
        aform = run.get("args_form") or "shared"
        reuse = bool(run.get("reuse_last_args"))          # follow-up call: exactly the objects of the previous call once more
        if reuse:
            for name in ("optimizer_args", "scheduler_args"):
                if name in self.last_kw:
                    kw[name] = self.last_kw[name]
        elif run.get("optimizer_args") is not None or aform != "shared":
            kw["optimizer_args"] = self.arg_container("opt", aform, run.get("optimizer_args") or {})
        if run["scheduler"] is not None:
            cls = self.sched_class(sched_kind(run["scheduler"]))
            skw = sched_kwargs(run["scheduler"])
            sform = run.get("sched_form") or "class"
            if sform == "partial":
                kw["scheduler"] = functools.partial(cls, **skw)            # every argument bound, scheduler_args omitted
            else:
                kw["scheduler"] = cls if sform == "class" else _Factory(cls) if sform == "factory" else (lambda opt, **k: cls(opt, **k))
                if not reuse or "scheduler_args" not in kw:
                    kw["scheduler_args"] = self.arg_container("sched", aform, skw)
        elif aform == "shared_explicit" and not reuse:
            kw["scheduler_args"] = self.arg_container("sched", aform, {})      # ignored by fit (no scheduler), accepted
        if spec["state"] != "positive":
            kw["input_bases"] = self.bases_np
        data = self.data_object(run.get("data_form") or ("tensor" if run.get("data_as_tensor") else "ndarray"))
        init_params = self.live_snap()
        # deep snapshot of EVERY object handed to fit (containers, arrays, tensors; other objects by identity)
        handed = dict(kw, data=data)
        before_args = {name: _snap_arg(v) for name, v in handed.items()}
        self.last_kw = kw
        handles = []
        if form in ("default", "sgd"):
            # no recording class can be handed over: optimizer.step is observed through torch's public global step hooks
            from torch.optim.optimizer import register_optimizer_step_pre_hook, register_optimizer_step_post_hook
            R, pend = self, {}

            def pre(opt, a, k):
                if R.in_mut:
                    return
                ps = [p for g in opt.param_groups for p in g["params"]]
                pend[id(opt)] = {"lrs": [float(g["lr"]) for g in opt.param_groups for _ in g["params"]], "params": ps,
                                 "before": [p.data.detach().clone() for p in ps],
                                 "grad": [None if p.grad is None else p.grad.detach().clone() for p in ps]}

            def post(opt, a, k):
                rec = pend.pop(id(opt), None)
                if rec is not None:
                    rec["after"] = [p.data.detach().clone() for p in rec["params"]]
                    R.events.append(("opt", rec))
            handles = [register_optimizer_step_pre_hook(pre), register_optimizer_step_post_hook(post)]
        try:
            with self.spy, warnings.catch_warnings():
                warnings.simplefilter("ignore")
                ok, _ = ctx.call("fit", case, lambda: s.fit(data, **kw))
        finally:
            for h in handles:
                h.remove()
        if self.mid is not None and not self.mid.get("done"):
            ctx.count("mid_fit_in_place_edit_not_reached")
        self.mid = None
        # what the call did to the objects the caller handed over.  Nothing in C06 forbids fit to write into them as such -
        # what C06 demands is that the NEXT call with these objects still applies -lr * (CD gradient) with ITS lr / schedule:
        # every change is counted here and makes run_case issue a follow-up fit() with the very same objects and another lr.
        for name, v in handed.items():
            try:
                same = _same_arg(before_args[name], _snap_arg(v))
            except Exception:
                same = False
            if not same:
                ctx.count("argument_object_changed_by_fit:" + name)
                self.args_changed.append((name, run))
        return ok, self.events, init_params

    def arg_container(self, which, form, wanted):
        """The caller's optimizer_args (which="opt") / scheduler_args ("sched") object in the given form, holding `wanted`."""
        if form == "fresh":
            return dict(wanted)
        key = (which, form if form in ("ordered", "userdict") else "dict")
        obj, own = self.arg_objs[key], self.arg_own[key]
        for k in [k for k in own if k not in wanted]:        # a setting the caller no longer wants: it removes ITS key
            own.pop(k); obj.pop(k, None)
        for k, v in wanted.items():                          # a setting that is new or whose value changed: the caller writes it
            if k not in own or own[k] is not v and not _plain_equal(own[k], v):
                obj[k] = v; own[k] = v
        return types.MappingProxyType(obj) if form == "proxy" else obj


def tclose(a, b, rtol, atol):
    a = np.asarray(a, dtype=float); b = np.asarray(b, dtype=float)
    if a.shape != b.shape:
        return False
    return bool(np.all(np.abs(a - b) <= rtol * np.maximum(np.abs(a), np.abs(b)) + atol))


def is01(x):
    x = np.asarray(x, dtype=float)
    return bool(np.all((x == 0.0) | (x == 1.0)))


def same_values(a, b):
    import torch
    return tuple(a.shape) == tuple(b.shape) and bool(torch.equal(a.to(torch.double), b.to(torch.double)))


def chain_ends(calls, neg, k):
    """End states of chains of OBSERVED gibbs_steps calls (in call order) that start from the negative batch
    and total k steps (used only to learn vk when the Bernoulli draws themselves are not observable)."""
    outs = []

    def go(i0, state, steps):
        if steps == k:
            if not any(same_values(state, o) for o in outs):
                outs.append(state)
            return
        for i in range(i0, len(calls)):
            c = calls[i]
            if c["k"] > 0 and steps + c["k"] <= k and same_values(c["init"], state):
                go(i + 1, c["vk"], steps + c["k"])
    go(0, neg, 0)
    return outs


def vb_slice(par_am):
    """position of the visible-bias block in the flat amplitude gradient"""
    nW = sum(int(np.prod(p.shape)) for p in par_am[:(2 if len(par_am) == 5 else 1)])
    nv = int(par_am[2 if len(par_am) == 5 else 1].shape[0])
    return nW, nW + nv


def runs_of(spec):
    """[(mutations applied to the live state before the call, arguments of the fit() call)]"""
    first = {k: spec[k] for k in RUN_KEYS}
    first.update({o: spec.get(o, d) for o, d in RUN_OPTS.items()})
    base = dict(first, **RUN_OPTS)                 # a later call that does not say otherwise uses the historic call form
    runs = [([], first)]
    if spec.get("second"):
        runs.append(([], dict(base, **{k: v for k, v in spec["second"].items() if k in RUN_KEYS + list(RUN_OPTS)})))
    for step in (spec.get("history") or []):
        runs.append((step.get("mut") or [], dict(base, **{k: v for k, v in step["run"].items() if k in RUN_KEYS + ["mid"] + list(RUN_OPTS)})))
    return runs


def run_case(ctx, spec, model_every=1, label=None):
    spec = dict(SPEC_DEFAULTS, **spec)
    case = dict(spec)
    kind = spec["state"]
    runs = runs_of(spec)
    pb, nb_arg = spec["pos_batch_size"], spec["neg_batch_size"]
    nb = nb_arg if nb_arg else pb
    N = spec["N"]
    nbatches = math.ceil(N / pb)
    sched = spec["scheduler"]
    nontriv = (nb != pb and spec["k"] >= 1 and nbatches >= 2 and sched is not None and spec["epochs"] >= 2)
    ctx.case({"state": kind, "nv": spec["nv"], "nh": spec["nh"], "na": spec["na"], "N": N, "pos": pb, "neg": nb_arg,
              "k": spec["k"], "lr": spec["lr"], "epochs": spec["epochs"], "start": spec["starting_epoch"],
              "scheduler": sched, "fits": len(runs), "seed": spec["torch_seed"],
              "history": [[mu["op"] for mu in muts] + ([("mid:" + run["mid"]["op"])] if run.get("mid") else []) for muts, run in runs[1:]]},
             nontrivial=nontriv)
    for key in ("state:" + kind, "k:%d" % spec["k"], "pattern:" + spec["pattern"], "epochs:%d" % spec["epochs"],
                "starting_epoch:%d" % spec["starting_epoch"], "N:%s" % ("1" if N == 1 else "2" if N == 2 else ">=3"),
                "shape:%s" % ("tiny" if max(spec["nv"], spec["nh"]) <= 4 else "20..40" if max(spec["nv"], spec["nh"]) <= 40 else ">100"),
                "fit_calls_on_the_state:%d" % len(runs), "regime:" + (label or "generated"),
                "optimizer_args:" + ("none" if spec["optimizer_args"] is None else "neutral"),
                "scheduler:" + ("none" if sched is None else "steplr%d" % sched["step_size"] if sched_kind(sched) == "StepLR" else sched_kind(sched)),
                "batches_per_epoch:%d" % nbatches, "neg_vs_pos:" + ("eq" if nb == pb else "lt" if nb < pb else "gt")):
        ctx.count(key)
    import torch
    torch.manual_seed(spec["torch_seed"])
    R = Recorder(spec)
    flags = {"need_stat": None}
    if spec.get("prelude"):
        # two models configured from ONE settings object: ANOTHER state object (same construction) is trained first, with
        # the first call's arguments except the lr, the caller's optimizer_args / scheduler_args objects being the very same
        R0 = Recorder(spec, share_from=R)
        run0 = dict(runs[0][1], mid=None, **spec["prelude"])
        ctx.count("prelude_fit_on_another_state_object_sharing_the_args_objects")
        pcase = dict(case, fit_call=0, prelude_fit_on_another_state_object=True,
                     **{("run_" + k): run0.get(k) for k in ("lr", "scheduler", "epochs", "k", "neg_batch_size") + tuple(RUN_OPTS)})
        ok, events, init_params = R0.fit(ctx, run0, pcase)
        if not ok:
            return
        analyse_run(ctx, spec, run0, pcase, R0, events, init_params, model_every, flags)
        R.args_changed += R0.args_changed
    ri = 0
    while ri < len(runs):
        muts, run = runs[ri]
        ri += 1
        if muts and not R.mutate(ctx, muts):
            break
        rcase = dict(case, fit_call=ri, mutations_before_this_fit=[mu["op"] for mu in muts],
                     **{("run_" + k): run.get(k) for k in ("lr", "scheduler", "epochs", "k", "neg_batch_size") + tuple(RUN_OPTS)})
        if run.get("reuse_last_args"):
            rcase["follow_up_fit_with_the_same_argument_objects_because_a_fit_changed"] = sorted({n for n, _ in R.args_changed})
        for key in ("optimizer_form:" + (run.get("opt_form") or "class"),
                    "scheduler_form:" + ("none" if run["scheduler"] is None else (run.get("sched_form") or "class")),
                    "scheduler_kind:" + str(sched_kind(run["scheduler"])),
                    "callbacks:" + ("recording" if run.get("mid") else (run.get("callbacks") or "recording")),
                    "integer_arguments:" + str(run.get("int_kind") or "python_int"),
                    "data:" + (run.get("data_form") or ("tensor" if run.get("data_as_tensor") else "ndarray")),
                    "args_containers:" + ("same objects as the previous call" if run.get("reuse_last_args") else (run.get("args_form") or "shared")),
                    "callbacks_container:" + (run.get("cb_container") or "list")):
            ctx.count(key)
        if run.get("mid"):
            rcase["in_place_edit_during_this_fit"] = {k: run["mid"][k] for k in ("op", "epoch", "batch")}
        ok, events, init_params = R.fit(ctx, run, rcase)
        if not ok:
            return
        if not analyse_run(ctx, spec, run, rcase, R, events, init_params, model_every, flags):
            break
        if ri == len(runs) and R.args_changed and not run.get("reuse_last_args"):
            # some fit() call of this history left an object of the caller changed: the caller hands the very same objects
            # to one more call that asks for another lr (same scheduler settings, one or two epochs) - judged like any other call
            ctx.count("follow_up_fit_after_argument_object_change")
            fu = {k: v for k, v in run.items() if k != "mid"}
            fu.update(lr=run["lr"] * 0.2, epochs=2 if run["scheduler"] is not None else 1, starting_epoch=1, reuse_last_args=True,
                      callbacks="recording", cb_container="list")
            runs.append(([], fu))
    if flags["need_stat"] is not None:
        # the chain of some batch could not be observed draw by draw: decide its LAW end to end
        ctx.count("vk_unobserved_decided_by_statistical_test")
        st = {"state": kind, "nv": spec["nv"], "nh": spec["nh"], "na": spec["na"], "am": spec["am"], "ph": spec["ph"],
              "start": flags["need_stat"]["start"]}
        if max(spec["nv"], spec["nh"] + (spec["na"] or 0)) <= 8:
            stat_case(ctx, st, sorted({flags["need_stat"]["k"], 1, 2}), M=40000,
                      why="draws of a fit batch were not observable: " + str(flags["need_stat"].get("why"))[:160], fit_case=case)
        else:
            ctx.count("vk_unobserved_too_large_for_kernel_enumeration")
        # ... and on THIS state object as its history left it (a fresh object would not carry a stale cache / handle)
        live = R.live_snap()
        if max(live[0][0].shape[1], live[0][0].shape[0] + (live[0][1].shape[0] if kind == "dm" else 0)) <= 8:
            st_live = dict(st, am=gen.plist(*live[0]), ph=gen.plist(*live[1]) if len(live) > 1 else None,
                           nh=int(live[0][0].shape[0]))
            stat_case(ctx, st_live, sorted({flags["need_stat"]["k"], 1}), M=40000,
                      why="draws of a fit batch were not observable; the state object after its history", fit_case=case, live_state=R.s)


def analyse_run(ctx, spec, run, case, R, events, init_params, model_every, flags):
    """All per-step relations for one fit() call.  Returns False when the recorded history could not be aligned."""
    import torch
    m = ctx.get_model()
    s, nets = R.s, R.nets
    kind = spec["state"]
    sched = run["scheduler"]
    k_run = run["k"]
    kinds = [e[0] for e in events]
    if any(not all(bool(torch.isfinite(p).all()) for p in rec["pos"]) for ke, rec in events if ke == "cbg"):
        ctx.count("skipped_nonfinite_positive_phase")      # a rotated amplitude vanished: the NLL itself is undefined there
        return False

    # ---------------------------------------------------------------- protocol: steps per batch / per epoch
    # Epochs and batches are what the user's callback saw; optimizer / scheduler steps are what the objects handed to
    # fit saw.  Demanded: #optimizer steps == #batches, #scheduler steps == #epochs, and in the sequence of
    # optimizer/scheduler steps alone: (opt x batches of epoch e, then sched) for e = 1, 2, ...  Nothing is demanded about
    # the position of scheduler.step relative to on_epoch_end, or of internal calls relative to the batch callbacks.
    nb_per_epoch = []
    if (run.get("callbacks") or "recording") != "recording" and not run.get("mid"):
        # a run WITHOUT callbacks: nobody sees the epochs; they are cut by the requested numbers (epochs to run,
        # ceil(N / pos_batch_size) batches each - that these numbers are right is C12 / C07)
        nb_per_epoch = [math.ceil(spec["N"] / run["pos_batch_size"])] * run["epochs"]
    for ke in kinds:
        if ke == "epoch_start":
            nb_per_epoch.append(0)
        elif ke == "batch_end" and nb_per_epoch:
            nb_per_epoch[-1] += 1
    n_epochs = len(nb_per_epoch)
    n_batches = sum(nb_per_epoch)
    n_opt = kinds.count("opt"); n_sched = kinds.count("sched")
    steps = [ke for ke in kinds if ke in ("opt", "sched")]
    expect = []
    for e in range(n_epochs):
        expect += ["opt"] * nb_per_epoch[e] + (["sched"] if sched is not None else [])
    ok1 = ctx.require("one optimizer step per batch", n_opt == n_batches, case, {"optimizer_steps": n_opt, "batches": n_batches})
    ok2 = ctx.require("scheduler stepped exactly once per epoch", n_sched == (n_epochs if sched is not None else 0), case,
                      {"scheduler_steps": n_sched, "epochs": n_epochs})
    if ok1 and ok2:
        ctx.require("the scheduler step of an epoch follows that epoch's last optimizer step and precedes the next epoch's first",
                    steps == expect, case, {"got": steps[:60], "expected": expect[:60]})
    if steps != expect:
        return False
    if [ke for ke in kinds if ke in ("cbg", "opt")] != ["cbg", "opt"] * n_opt:
        # the per-batch method named in observe_at was not seen exactly once before each step: cannot learn the batch
        ctx.count("compute_batch_gradients_not_observed_per_step")
        return False
    epoch_of_step = [e for e in range(n_epochs) for _ in range(nb_per_epoch[e])]
    lr_ref = ref_lrs(run["lr"], sched, n_epochs)       # one scheduler step per completed epoch, constant inside an epoch

    # ---------------------------------------------------------------- per optimizer step
    layouts = [layout_of(n) for n in nets]
    owner = {}
    for ni, net in enumerate(nets):
        for name, p in named_params(net):
            owner[id(p)] = (ni, name)
    # what the state's parameters must hold NOW: the start values, then the result of the last optimizer step (or of an
    # in-place edit a callback of the harness made during the fit)
    cur_vals = {(ni, name): init_params[ni][j] for ni in range(len(nets)) for j, name in enumerate(layouts[ni])}
    stepped = False
    final = [snap(n) for n in nets]
    # the LIVE parameters (read through state.<network>.<name> at that moment) right after every optimizer step: the
    # snapshot taken when the next batch's gradient is requested / before a callback edit / after fit returned
    live_next = []
    for ei, (ke, rec) in enumerate(events):
        if ke == "opt":
            nxt = next((r for kk, r in events[ei + 1:] if kk in ("cbg", "mut")), None)
            live_next.append(final if nxt is None else nxt["params"] if "params" in nxt else nxt["live_before"])
    cur = None
    trace = [0 if ke == "opt" else 1 for ke in steps]          # 0 = optimizer step, 1 = scheduler step
    lrs = []
    grads_by_epoch = [[] for _ in range(n_epochs)]
    big = max(spec["nv"], spec["nh"]) > 40
    bi = 0
    for kind_e, rec in events:
        if kind_e == "cbg":
            cur = rec
        elif kind_e == "mut":
            cur_vals = {(ni, name): rec["live_after"][ni][j] for ni in range(len(nets)) for j, name in enumerate(layouts[ni])}
        elif kind_e == "opt":
            epoch = epoch_of_step[bi]
            bcase = dict(case, epoch=epoch + 1, batch_index=bi)
            bi += 1
            c = cur
            par = c["params"]                      # per network, layout order, numpy
            nneg = int(c["neg"].shape[0])
            neg_np = c["neg"].numpy().astype(float)
            pos = [p.numpy() for p in c["pos"]]
            if kind == "positive":
                pos_np = np_grad_sum(par[0], c["samples"].numpy()) / float(c["samples"].shape[0])
                ctx.require("positive phase == mean energy gradient of the data batch", tclose(pos[0], pos_np, 1e-9, 1e-12), bcase)
                pos_am = pos_np
            else:
                pos_am = pos[0]
            # -- what the optimizer saw
            ctx.require("optimizer holds exactly the state's parameters",
                        sorted(id(p) for p in rec["params"]) == sorted(owner.keys()), bcase)
            seen = {}
            for p, gr, be, af, lr_p in zip(rec["params"], rec["grad"], rec["before"], rec["after"], rec["lrs"]):
                if id(p) in owner:
                    seen[owner[id(p)]] = (p, gr, be, af, lr_p)
            step_lrs = sorted(set(v[4] for v in seen.values()))
            lr_step = step_lrs[0] if step_lrs else float("nan")
            lrs.append(lr_step)
            gsq = sum(float((v[1].double() ** 2).sum()) for v in seen.values() if v[1] is not None)
            ctx.count("grad_norm:1e%+d" % (int(math.floor(math.log10(math.sqrt(gsq)))) if gsq > 0 else -99))

            def flat_seen(ni):
                out = []
                for name in layouts[ni]:
                    v = seen.get((ni, name))
                    if v is None or v[1] is None or tuple(v[1].shape) != tuple(v[0].shape):
                        return None
                    out.append(v[1].numpy().ravel())
                return np.concatenate(out)

            def want_am(vk_np):
                nt = np_grad_sum(par[0], vk_np) / float(nneg)
                return pos_am - nt, max(1.0, float(np.max(np.abs(pos_am))), float(np.max(np.abs(nt))))

            def uses(vk_np):
                if got_am is None:
                    return False
                w, sc = want_am(vk_np)
                return tclose(got_am, w, 1e-9, 1e-12 * sc)

            got_am = flat_seen(0)
            # -- which chain end state enters the negative phase
            vk = None
            neg_failed = False
            if k_run == 0:
                vk = neg_np
            else:
                cnet = CondNet(par[0])
                calls = c["bern"]
                reads = []                                   # the draws read as exact block-Gibbs steps from the negative batch,
                for i in range(max(1, len(calls))):          # starting at any recorded call (earlier draws may serve other purposes)
                    states, reason = read_chain(cnet, calls[i:], neg_np, k_run)
                    reads.append((states, reason))
                    if len(states) > k_run and uses(states[k_run]):
                        vk = states[k_run]
                        break
                    if got_am is None:
                        break
                states0, reason0 = reads[0]
                if vk is not None:
                    ctx.count("chain_read_from_bernoulli_draws")
                elif any(uses(st) for states, _ in reads for st in states[1:]):
                    # every draw leading to that state was an observed exact conditional: the gradient uses the visible state
                    # after another number (>= 1) of exact steps
                    j = [jj for states, _ in reads for jj, st in enumerate(states) if jj >= 1 and uses(st)][0]
                    neg_failed = True
                    ctx.require("negative phase uses the states reached by k Gibbs steps from the negative batch", False, bcase,
                                {"k": k_run, "the gradient uses the visible state after this many exact block-Gibbs steps": j})
                elif reason0 is None and len(states0) > k_run:
                    # every draw is an exact conditional and k complete steps were made: these ARE the states reached by k steps
                    vk = states0[k_run]
                    ctx.count("chain_read_from_bernoulli_draws")
                else:
                    # not observable draw by draw (draws made by other means, or not the exact conditionals of a k-step chain
                    # from the negative batch): this alone proves nothing.  Learn vk from the gibbs_steps wrapper if possible
                    # (for the exact gradient formula) and let the STATISTICAL LAW TEST decide the law after the run.
                    for cd in chain_ends(c["gibbs"], c["neg"], k_run):
                        if uses(cd.numpy().astype(float)):
                            vk = cd.numpy().astype(float)
                            break
                    ctx.count("vk_unobserved")
                    ctx.count("vk_unobserved:" + ("no_bernoulli_calls" if not calls else "draws_not_readable_as_k_exact_steps"))
                    if flags["need_stat"] is None:
                        flags["need_stat"] = {"k": k_run, "start": neg_np[0].tolist(), "why": reason0 or "fewer than k complete steps drawn"}
            # -- the chain end states are 0/1
            if vk is not None:
                ctx.require("chain end states are 0/1", is01(vk), bcase, {"k": k_run})
            elif got_am is not None and not neg_failed:
                # vk itself was not observed: read the sum over the chain of v_j off the gradient
                i0, i1 = vb_slice(par[0])
                S = (got_am[i0:i1] - pos_am[i0:i1]) * float(nneg)
                tolS = 1e-7 * max(1.0, float(nneg)) * max(1.0, float(np.max(np.abs(pos_am[i0:i1]))))
                ctx.require("chain end states are 0/1: visible-bias block of (grad - positive phase)*|neg_batch| is an integer vector in [0, |neg_batch|]",
                            bool(np.all(np.abs(S - np.round(S)) <= tolS) and np.all(S >= -tolS) and np.all(S <= nneg + tolS)), bcase,
                            {"sum_of_chain_end_states": S.tolist()[:12], "neg_size": nneg, "k": k_run})
            if vk is not None:
                w, sc = want_am(vk)
                want = [w] + [p for p in pos[1:]]
                scale = [sc] + [max(1.0, float(np.max(np.abs(p)))) for p in pos[1:]]
            else:
                want = [None] + [p for p in pos[1:]]
                scale = [1.0] + [max(1.0, float(np.max(np.abs(p)))) for p in pos[1:]]
            # -- the parameters the state USES (whatever objects the optimizer holds): with plain SGD they move by exactly
            #    -lr * gradient at this batch, lr from THIS fit call's schedule
            lr_want = lr_ref[epoch]
            after_live = live_next[bi - 1]
            for ni in range(len(nets)):
                off = 0
                for j, name in enumerate(layouts[ni]):
                    b0 = par[ni][j]
                    a1 = after_live[ni][j] if ni < len(after_live) and j < len(after_live[ni]) else None
                    num = int(b0.size)
                    block = None if want[ni] is None else want[ni][off:off + num].reshape(b0.shape)
                    off += num
                    if block is None:
                        continue
                    pc = dict(bcase, network=s.networks[ni], parameter=name)
                    target = -lr_want * block
                    okm = a1 is not None and a1.shape == b0.shape
                    if okm:
                        tolm = abs(lr_want) * (2e-9 * np.abs(block) + 2e-12 * scale[ni]) + 1e-14 * np.maximum(1.0, np.abs(b0))
                        okm = bool(np.all(np.abs((a1 - b0) - target) <= tolm))
                    ctx.require("with plain SGD the state's live parameters move by -lr * (CD gradient), once per batch", okm, pc,
                                {"moved": None if a1 is None or a1.shape != b0.shape else (a1 - b0).ravel().tolist()[:12],
                                 "want -lr*grad": target.ravel().tolist()[:12], "lr": lr_want})
            for ni, net in enumerate(nets):
                off = 0
                for name in layouts[ni]:
                    if (ni, name) not in seen:
                        off += int(par[ni][layouts[ni].index(name)].size)
                        continue
                    p, gr, be, af, lr_p = seen[(ni, name)]
                    num = p.numel()
                    block = None if want[ni] is None else want[ni][off:off + num].reshape(tuple(p.shape))
                    off += num
                    pc = dict(bcase, network=s.networks[ni], parameter=name)
                    if not ctx.require("every parameter has a gradient at optimizer.step", gr is not None, pc):
                        continue
                    ctx.require(".grad has the parameter's shape", tuple(gr.shape) == tuple(p.shape), pc, {"grad": list(gr.shape), "param": list(p.shape)})
                    if tuple(gr.shape) != tuple(p.shape):
                        continue
                    if block is not None:
                        what = ("amplitude gradient == positive phase - sum grad E(vk) / |neg_batch| on its own parameter"
                                if ni == 0 else "phase gradient == positive phase only on its own parameter")
                        ctx.require(what, tclose(gr.numpy(), block, 1e-9, 1e-12 * scale[ni]), pc,
                                    {"got": gr.numpy().ravel().tolist()[:12], "want": block.ravel().tolist()[:12], "neg_size": nneg,
                                     "pos_size": int(c["samples"].shape[0]),
                                     "norm_got": float(np.linalg.norm(gr.numpy())), "norm_want": float(np.linalg.norm(block))})
                    # -- SGD displacement and the untouched-in-between chain
                    upd = be.numpy() - lr_p * gr.numpy()
                    tol = 4.5e-16 * (np.abs(be.numpy()) + np.abs(lr_p * gr.numpy()))
                    ctx.require("parameters after step == before - lr*grad", bool(np.all(np.abs(af.numpy() - upd) <= tol)), pc,
                                {"max_err": float(np.max(np.abs(af.numpy() - upd))), "lr": lr_p})
                    ctx.count("sgd_bit_exact" if np.array_equal(af.numpy(), upd) else "sgd_one_rounding")
                    prev = cur_vals[(ni, name)]
                    ctx.require("parameters change only through optimizer.step (before == previous after)",
                                np.array_equal(be.numpy(), prev), pc)
                    ctx.require("gradient evaluated at the parameters the step is applied to",
                                np.array_equal(be.numpy(), par[ni][layouts[ni].index(name)]), pc)
            for key, v in seen.items():
                cur_vals[key] = v[3].numpy().copy()
            stepped = stepped or bool(seen)
            # -- learning rate of this epoch (every param group that holds a parameter of the state)
            ctx.require("lr of epoch e follows the schedule (one scheduler step per completed epoch)",
                        bool(step_lrs) and all(math.isclose(x, lr_want, rel_tol=1e-12) for x in step_lrs), bcase,
                        {"lr": step_lrs, "want": lr_want, "epoch": epoch + 1})
            grads_by_epoch[epoch].append(np.concatenate([r.numpy().ravel() for r in c["ret"]]))
            # ------------------------------------------------------------ correspondence with the Coq model
            if (bi - 1) % model_every == 0 and not (big and bi > 1):
                sh = [shapes_of(p) for p in par]
                if vk is not None:
                    pos_l = [p.tolist() for p in pos]
                    if kind == "dm":
                        mg = m.call("cbg_purification", *par[0], pos_l, neg_np, vk)
                    else:
                        mg = m.call("cbg_binary", *par[0], pos_l, neg_np, vk)
                    ctx.agree_exact("compute_batch_gradients: number of vectors", len(c["ret"]), len(mg), bcase)
                    for ni in range(min(len(mg), len(c["ret"]))):
                        ctx.agree("compute_batch_gradients[%d]" % ni, c["ret"][ni], mg[ni], bcase, scale=scale[ni])
                ma = m.call("assign_grads", [r.tolist() for r in c["ret"]], sh)
                ctx.agree_exact("assign_grads succeeds", True, len(ma) == 1, bcase)
                if len(ma) == 1:
                    for ni in range(len(nets)):
                        mts = untens(ma[0][ni])
                        for j, name in enumerate(layouts[ni]):
                            if (ni, name) in seen and seen[(ni, name)][1] is not None:
                                gr = seen[(ni, name)][1].numpy()
                                # the model slices compute_batch_gradients' RETURN value; the optimizer must see the same numbers
                                ctx.agree_exact("vector_to_grads shape %s.%s" % (s.networks[ni], name), list(gr.shape), list(mts[j].shape), bcase)
                                if list(gr.shape) == list(mts[j].shape):
                                    ctx.agree("vector_to_grads %s.%s" % (s.networks[ni], name), gr, mts[j], bcase, rtol=1e-15, atol=0.0)
                for ni in range(len(nets)):
                    if not all((ni, name) in seen and seen[(ni, name)][1] is not None for name in layouts[ni]):
                        continue
                    be_l = [seen[(ni, name)][2].numpy() for name in layouts[ni]]
                    af_l = [seen[(ni, name)][3].numpy() for name in layouts[ni]]
                    # one fused rounding is <= 1.2e-16 * (|p| + |lr g|): compare on that scale
                    sc_u = max(1.0, float(np.max(np.abs(flat_of(be_l)))), float(np.max(np.abs(lr_step * c["ret"][ni].numpy()))) if c["ret"][ni].numel() else 1.0)
                    mu = m.call("batch_update", lr_step, tens(be_l), sh[ni], c["ret"][ni].tolist())
                    ctx.agree_exact("batch_update succeeds", True, len(mu) == 1, bcase)
                    if len(mu) == 1:
                        ctx.agree("batch_update %s (structured SGD)" % s.networks[ni], flat_of(af_l), flat_of(untens(mu[0])), bcase,
                                  rtol=1e-12, atol=2e-15, scale=sc_u)
                    ms = m.call("sgd_step", lr_step, flat_of(be_l), c["ret"][ni].tolist())
                    ctx.agree("sgd_step %s (flat)" % s.networks[ni], flat_of(af_l), ms, bcase, rtol=1e-12, atol=2e-15, scale=sc_u)

    # ---------------------------------------------------------------- end of run
    if stepped:
        for ni in range(len(nets)):
            for j, name in enumerate(layouts[ni]):
                ctx.require("parameters after fit == parameters after the last optimizer step",
                            np.array_equal(final[ni][j], cur_vals[(ni, name)]), dict(case, network=s.networks[ni], parameter=name))
    # whole-run machine: the model driven by the recorded gradient vectors
    if "mut" in kinds:
        ctx.count("fit_machine_not_compared:parameters_edited_in_place_during_the_fit")   # the model machine has no such event
    elif not big:
        theta0 = np.concatenate([flat_of(p) for p in init_params])
        thetaF = np.concatenate([flat_of(p) for p in final])
        skind = sched_kind(sched)
        if sched is None:
            r = m.call("cd_run", run["lr"], 1.0, 1, 0, theta0, [[g.tolist() for g in ep] for ep in grads_by_epoch])
        elif skind in ("StepLR", "ExponentialLR"):
            r = m.call("cd_run", run["lr"], sched["gamma"], sched.get("step_size", 1), 1, theta0, [[g.tolist() for g in ep] for ep in grads_by_epoch])
        else:
            # the model's scheduler is StepLR: for the other kinds only the step machine (counts, order) is compared
            r = m.call("cd_run", run["lr"], 1.0, 1, 1, theta0, [[g.tolist() for g in ep] for ep in grads_by_epoch])
            ctx.count("fit_machine_lr_not_compared:scheduler_kind_" + skind)
        m_theta, m_nopt, m_nsched, m_trace, m_lrs = r
        ctx.agree_exact("fit machine: optimizer steps", n_opt, int(m_nopt), case)
        ctx.agree_exact("fit machine: scheduler steps", n_sched, int(m_nsched), case)
        ctx.agree_exact("fit machine: step trace", trace, [int(x) for x in m_trace], case)
        if sched is None or skind in ("StepLR", "ExponentialLR"):
            ctx.agree("fit machine: lr of every step", lrs, m_lrs, case, rtol=1e-12, atol=0.0)
            ctx.agree("fit machine: final parameters", thetaF, m_theta, case, rtol=1e-9, atol=1e-12)
    ctx.traces += 1
    return True


# ------------------------------------------------------------------------------------------ statistical law test
def stat_case(ctx, st, ks, M=40000, why="fixed", fit_case=None, live_state=None):
    """Direct compute_batch_gradients(k, data, M identical negative rows): every entry of the negative term is a mean of M
    independent [-1, 0]-valued variables; its expectation under the exact k-step kernel is computed in numpy."""
    import torch
    spec = {"state": st["state"], "nv": st["nv"], "nh": st["nh"], "na": st["na"], "am": st["am"], "ph": st["ph"]}
    par = [np.array(a, dtype=float) for a in st["am"]]
    net = CondNet(par)
    K, V = exact_kernel(net)
    s0 = row_index(st["start"])
    gradE = np.stack([np_grad_sum(par, V[i:i + 1]) for i in range(len(V))])         # (2^nv, num_pars)
    eps = math.sqrt(math.log(2.0 / HOEFFDING_DELTA) / (2.0 * M))
    nv = st["nv"]
    data = torch.tensor(np.array([[1.0] * nv, [0.0] * nv]), dtype=torch.double)
    bases = None if st["state"] == "positive" else np.array([["Z"] * nv, ["Z"] * nv])
    neg = torch.tensor(np.repeat(np.array([st["start"]], dtype=float), M, axis=0), dtype=torch.double)
    for k in ks:
        seed = ctx.torch_seed()
        s = build_state(spec) if live_state is None else live_state
        case = {"call": "compute_batch_gradients (statistical law test)", "why": why, "state": st["state"], "nv": nv, "nh": st["nh"],
                "na": st["na"], "am": st["am"], "ph": st["ph"], "k": k, "negative_rows": M, "start": st["start"], "torch_seed": seed}
        if live_state is not None and fit_case is not None:
            case["history_of_the_state_object"] = {k_: fit_case.get(k_) for k_ in SPEC_KEYS + list(SPEC_DEFAULTS)}
        ctx.case({"stat": st["state"], "k": k, "M": M, "am": st["am"], "start": st["start"]}, nontrivial=True)
        ctx.count("statistical_law_test:%s:k=%d" % (st["state"], k))
        args = (k, data, neg) if bases is None else (k, data, neg, bases)
        ok, out = ctx.call("compute_batch_gradients (direct call)", case,
                           lambda: (s.compute_batch_gradients(*args), s.positive_phase_gradients(data) if bases is None
                                    else s.positive_phase_gradients(data, bases_batch=bases)))
        if not ok:
            continue
        got, pos = out
        neg_term = (pos[0] - got[0]).detach().numpy().astype(float)               # = sum_v grad E(v) / M
        if len(got) > 1:
            ctx.require("phase gradient == positive phase only on its own parameter", tclose(got[1].numpy(), pos[1].numpy(), 1e-12, 1e-15), case)
        i0, i1 = vb_slice(par)
        S = -neg_term[i0:i1] * float(M)
        ctx.require("chain end states are 0/1: visible-bias block of (grad - positive phase)*|neg_batch| is an integer vector in [0, |neg_batch|]",
                    bool(np.all(np.abs(S - np.round(S)) <= 1e-6 * M) and np.all(S >= -1e-6) and np.all(S <= M + 1e-6)), case,
                    {"sum_of_chain_end_states": S.tolist(), "neg_size": M})
        law = np.linalg.matrix_power(K, k)[s0]
        expect = law @ gradE
        dev = float(np.max(np.abs(neg_term - expect)))
        j = int(np.argmax(np.abs(neg_term - expect)))
        ctx.require("STATISTICAL TEST (Hoeffding, delta=1e-9 per entry): negative phase == expectation of grad E under the exact k-step Gibbs kernel from the negative batch",
                    dev <= eps, case, {"entry": j, "got": float(neg_term[j]), "expected": float(expect[j]), "max deviation": dev, "bound": eps,
                                       "mean of chain end states": (S / M).tolist(), "k-step law marginals": (law @ V).tolist()})
        ctx.extra.setdefault("statistical_test", []).append({"state": st["state"], "k": k, "rows": M, "max_deviation": dev, "hoeffding_bound": eps, "why": why})
        # correspondence: k = 0 form of the same call against the model (deterministic)
    return


# ------------------------------------------------------------------------------------------ direct per-batch call, histories
BUFFER_OPS = ["refill_neg", "refill_samples", "edit_bases", "change_k"]


def direct_history(ctx, kind, ops, k=None):
    """The public per-batch method compute_batch_gradients called several times on ONE state with the SAME tensor / array
    objects; between two calls one mutation of the live state (MUT_OPS) or an in-place refill of a buffer the caller passed
    before.  After every call the oracle is the one of a fresh object: numpy on the CURRENT parameters and CURRENT contents."""
    import torch
    rng = ctx.rng
    nv, nh, na = int(rng.integers(1, 4)), int(rng.integers(1, 4)), int(rng.integers(1, 3))
    B, M = int(rng.integers(1, 5)), int(rng.integers(1, 5))
    k = int(rng.integers(0, 3)) if k is None else k
    am, ph = _params(ctx, kind, nv, nh, na)
    spec = {"state": kind, "nv": nv, "nh": nh, "na": na if kind == "dm" else None,
            "am": gen.plist(*am), "ph": gen.plist(*ph) if ph is not None else None}
    nhs = {n: nh for n in _nets_of(kind)}
    samples0 = rng.integers(0, 2, size=(B, nv)).astype(float)
    neg0 = rng.integers(0, 2, size=(M, nv)).astype(float)
    bases0 = _bases(rng, kind, B, nv)
    steps = [None]
    for o in ops:
        if o == "refill_neg":
            steps.append({"op": o, "values": rng.integers(0, 2, size=(M, nv)).astype(float).tolist()})
        elif o == "refill_samples":
            steps.append({"op": o, "values": rng.integers(0, 2, size=(B, nv)).astype(float).tolist()})
        elif o == "edit_bases":
            steps.append({"op": o, "values": _bases(rng, kind, B, nv)})
        elif o == "change_k":
            steps.append({"op": o, "k": int((k + 1 + rng.integers(0, 2)) % 3)})
        else:
            steps.append(rand_mutation(ctx, kind, nv, nhs, na, op=o))
    seed = ctx.torch_seed()
    direct_exec(ctx, dict(spec, call="compute_batch_gradients (same-object history)", k=k, samples=samples0.tolist(), neg=neg0.tolist(),
                          bases=bases0, steps=steps[1:], torch_seed=seed))


def direct_exec(ctx, case0):
    """Run one direct same-object history from its complete description (also the replay entry)."""
    import torch
    spec = {kk: case0[kk] for kk in ("state", "nv", "nh", "na", "am", "ph")}
    kind, nv, k = spec["state"], spec["nv"], case0["k"]
    samples0, neg0, bases0 = np.array(case0["samples"], dtype=float), np.array(case0["neg"], dtype=float), case0["bases"]
    B, M = samples0.shape[0], neg0.shape[0]
    steps = [None] + list(case0["steps"])
    torch.manual_seed(case0["torch_seed"])
    ctx.case({"direct": kind, "nv": nv, "nh": spec["nh"], "na": spec["na"], "k": k, "B": B, "M": M,
              "ops": [st["op"] for st in steps[1:]], "seed": case0["torch_seed"]}, nontrivial=True)
    s = build_state(spec)
    samples_t = torch.tensor(samples0, dtype=torch.double)
    neg_t = torch.tensor(neg0, dtype=torch.double)
    bases_np = None if bases0 is None else np.array([list(b) for b in bases0])
    for ci, step in enumerate(steps):
        if step is not None:
            ctx.count("direct_history_op:" + step["op"])
            if step["op"] == "refill_neg":
                neg_t.copy_(torch.tensor(step["values"], dtype=torch.double))
            elif step["op"] == "refill_samples":
                samples_t.copy_(torch.tensor(step["values"], dtype=torch.double))
            elif step["op"] == "edit_bases":
                if bases_np is not None:
                    bases_np[...] = np.array([list(b) for b in step["values"]])
            elif step["op"] == "change_k":
                k = step["k"]
            else:
                try:
                    apply_mutation(ctx, s, kind, step)
                except Exception as e:
                    ctx.count("history_mutation_raised:%s:%s" % (step["op"], type(e).__name__))
                    return
        case = dict(case0, call_index=ci + 1, k_of_this_call=k)
        par = [snap(getattr(s, n)) for n in s.networks]
        neg_np = neg_t.numpy().astype(float).copy()
        smp_np = samples_t.numpy().astype(float).copy()
        with BernoulliSpy() as spy:
            if bases_np is None:
                ok, got = ctx.call("compute_batch_gradients (direct call)", case, lambda: s.compute_batch_gradients(k, samples_t, neg_t))
            elif ci % 2 == 0:
                ok, got = ctx.call("compute_batch_gradients (direct call)", case, lambda: s.compute_batch_gradients(k, samples_t, neg_t, bases_np))
            else:
                ok, got = ctx.call("compute_batch_gradients (direct call)", case,
                                   lambda: s.compute_batch_gradients(k, samples_t, neg_t, bases_batch=bases_np))
        if not ok:
            return
        returned = list(got)
        got = [g.detach().clone().numpy().astype(float) for g in got]
        pos = s.positive_phase_gradients(samples_t) if bases_np is None else s.positive_phase_gradients(samples_t, bases_batch=bases_np)
        pos = [p.detach().numpy().astype(float) for p in pos]
        for g in returned:                   # the caller owns what was returned: scribbling on it must not reach the next call
            if isinstance(g, torch.Tensor) and not g.requires_grad:
                g.fill_(float("nan"))
        if not all(np.all(np.isfinite(p)) for p in pos):
            ctx.count("skipped_nonfinite_positive_phase")
            return
        pos_am = np_grad_sum(par[0], smp_np) / float(B) if kind == "positive" else pos[0]
        if k == 0:
            vk = neg_np
        else:
            states, reason = read_chain(CondNet(par[0]), spy.calls, neg_np, k)
            vk = states[k] if (reason is None and len(states) > k) else None
        ctx.traces += 1
        if vk is None:
            ctx.count("direct_history_chain_not_observable")
        else:
            nt = np_grad_sum(par[0], vk) / float(M)
            sc = max(1.0, float(np.max(np.abs(pos_am))), float(np.max(np.abs(nt))))
            ctx.require("amplitude gradient == positive phase - sum grad E(vk) / |neg_batch| on its own parameter",
                        tclose(got[0], pos_am - nt, 1e-9, 1e-12 * sc), case,
                        {"got": got[0].tolist()[:12], "want": (pos_am - nt).tolist()[:12], "after": None if step is None else step["op"]})
        if len(got) > 1:
            ctx.require("phase gradient == positive phase only on its own parameter",
                        tclose(got[1], pos[1], 1e-12, 1e-15 * max(1.0, float(np.max(np.abs(pos[1]))))), case,
                        {"after": None if step is None else step["op"]})


def direct_histories(ctx, n_random):
    kinds = ["positive", "complex", "dm"]
    fixed = [["reinit", "refill_neg"], ["replace_net", "data_copy"], ["rebind", "refill_samples"], ["load_state_dict", "edit_bases"],
             ["data_assign", "change_k"], ["state_load", "copy_nograd"], ["rbm_init", "ext_step"], ["refill_neg", "refill_neg"],
             ["change_k", "reinit"]]
    for i, ops in enumerate(fixed):
        direct_history(ctx, kinds[i % 3], ops, k=[0, 1, 2][(i // 3) % 3])
    for i in range(n_random):
        ops = [str(o) for o in ctx.rng.choice(MUT_OPS + BUFFER_OPS, size=int(ctx.rng.integers(1, 4)))]
        direct_history(ctx, str(ctx.rng.choice(kinds)), ops)


# ------------------------------------------------------------------------------------------ direct vector_to_grads cases
def v2g_cases(ctx, n):
    """vector_to_grads called directly.  Exact-length vectors: every parameter must receive its slice (oracle + model).
    Surplus / short vectors: only recorded in the evidence histogram (raises vs accepts, implementation and model)."""
    import torch
    from qucumber.utils.gradients_utils import vector_to_grads
    from qucumber.rbm import BinaryRBM, PurificationRBM
    m = ctx.get_model()
    for _ in range(n):
        nv, nh, na = (int(ctx.rng.integers(1, 5)) for _ in range(3))
        pur = bool(ctx.rng.random() < 0.5)
        rbm = PurificationRBM(nv, nh, na, gpu=False) if pur else BinaryRBM(nv, nh, gpu=False)
        total = sum(p.numel() for p in rbm.parameters())
        delta = int(ctx.rng.choice([0, 0, 1, 3, -1, -2, -total]))
        L = max(0, total + delta)
        vec = ctx.rng.normal(size=L)
        case = {"call": "vector_to_grads", "purification": pur, "nv": nv, "nh": nh, "na": na, "len": L, "total": total, "vec": vec.tolist()}
        ctx.case({"call": "vector_to_grads", "pur": pur, "nv": nv, "nh": nh, "na": na, "delta": L - total}, nontrivial=(L != total))
        ctx.count("v2g:" + ("exact" if L == total else "surplus" if L > total else "short"))
        shapes = [list(p.shape) for p in rbm.parameters()]
        mshapes = m.call("p_shapes", nv, nh, na) if pur else m.call("b_shapes", nv, nh)
        ctx.agree_exact("parameters() shapes in registration order", shapes, [[int(x) for x in sh] for sh in mshapes], case)
        mr = m.call("vector_to_grads", vec, shapes)
        try:
            vector_to_grads(torch.tensor(vec, dtype=torch.double), rbm.parameters())
            raised = False
        except Exception:
            raised = True
        # surplus / short vectors never occur inside fit and the property says nothing about them: histogram only
        ctx.count("v2g:%s:impl_%s:model_%s" % ("exact" if L == total else "surplus" if L > total else "short",
                                                "raises" if raised else "accepts", "none" if len(mr) == 0 else "some"))
        if L == total:
            ctx.require("vector_to_grads accepts a vector of exactly the total parameter count", not raised, case)
            ctx.agree_exact("vector_to_grads (exact length) succeeds in the model", True, len(mr) == 1, case)
        else:
            continue
        if not raised and len(mr) == 1:
            off = 0
            for j, p in enumerate(rbm.parameters()):
                want = vec[off:off + p.numel()].reshape(tuple(p.shape)); off += p.numel()
                ctx.require("parameter j receives the slice at offset sum_{i<j} numel_i with its own shape",
                            p.grad is not None and tuple(p.grad.shape) == tuple(p.shape) and np.array_equal(p.grad.numpy(), want),
                            dict(case, parameter_index=j))
                if p.grad is not None and tuple(p.grad.shape) == tuple(p.shape):
                    ctx.agree("vector_to_grads slice %d" % j, p.grad, mr[0][j][1], case, rtol=0.0, atol=0.0)
            # -- same-object history: the same network (and, for "refill", the same vector object) again after a legal change
            how = str(ctx.rng.choice(["reinit", "rebind_one", "refill_vec", "data_assign", "as_list"]))
            ctx.count("v2g_history:" + how)
            vec_t = torch.tensor(vec, dtype=torch.double)
            try:
                vector_to_grads(vec_t, rbm.parameters())
                vec2 = ctx.rng.normal(size=L)
                if how == "reinit":
                    rbm.initialize_parameters()
                elif how == "rebind_one":
                    name = str(ctx.rng.choice(layout_of(rbm)))
                    setattr(rbm, name, torch.nn.Parameter(torch.zeros_like(getattr(rbm, name).data), requires_grad=False))
                elif how == "data_assign":
                    for q in rbm.parameters():
                        q.data = torch.ones_like(q.data)
                if how == "refill_vec":
                    vec_t.copy_(torch.tensor(vec2, dtype=torch.double))
                else:
                    vec_t = torch.tensor(vec2, dtype=torch.double)
                vector_to_grads(vec_t, list(rbm.parameters()) if how == "as_list" else rbm.parameters())
                raised2 = False
            except Exception as e:
                raised2 = True
            hcase = dict(case, history=how, vec_second_call=vec2.tolist())
            ctx.require("vector_to_grads accepts a vector of exactly the total parameter count", not raised2, hcase)
            if not raised2:
                off = 0
                for j, p in enumerate(rbm.parameters()):
                    want = vec2[off:off + p.numel()].reshape(tuple(p.shape)); off += p.numel()
                    ctx.require("parameter j receives the slice at offset sum_{i<j} numel_i with its own shape",
                                p.grad is not None and tuple(p.grad.shape) == tuple(p.shape) and np.array_equal(p.grad.numpy(), want),
                                dict(hcase, parameter_index=j))


# ------------------------------------------------------------------------------------------ entry points
def grid(ctx):
    pats = ["equal_div", "equal_nodiv", "neg_smaller", "neg_larger", "neg_default", "single_batch"]
    out = []
    i = 0
    for kind in ("positive", "complex", "dm"):
        for k in range(4):
            reps = pats if ctx.thorough else [pats[(i + j) % len(pats)] for j in (0, 2, 3)]
            for p in reps:
                out.append((kind, k, p))
            i += 1
    return out


def run(ctx):
    t0 = time.time()
    budget = 420 if ctx.thorough else 45
    # 1. regimes the random stream rarely reaches: always first
    for st in stat_fixed(ctx):
        stat_case(ctx, st, [1, 2] if not ctx.thorough else [1, 2, 3], M=40000 if not ctx.thorough else 200000)
    for label, sp in fixed_call_forms(ctx):          # scheduler kinds, optimizer / scheduler call forms, no callbacks, numpy ints
        run_case(ctx, sp, label=label)
    for label, sp in fixed_shared_args(ctx):         # one optimizer_args / scheduler_args object handed to several calls
        run_case(ctx, sp, label=label)
    for label, sp in fixed_histories(ctx):           # same-object histories: every mutation operator x state type, never cut
        run_case(ctx, sp, label=label)
    for label, sp in fixed_specs(ctx):
        run_case(ctx, sp, label=label)
    direct_histories(ctx, 60 if ctx.thorough else 12)
    # 2. covering grid, direct vector_to_grads
    for (kind, k, pat) in grid(ctx):
        run_case(ctx, rand_spec(ctx, kind, k, pat, large=False))
    v2g_cases(ctx, 60 if ctx.thorough else 20)
    # 3. random stream
    n_random = 4000 if ctx.thorough else 100
    for i in range(n_random):
        if time.time() - t0 > budget:
            ctx.count("random_cases_skipped_by_time_budget", n_random - i)
            break
        run_case(ctx, rand_spec(ctx), model_every=1 if i % 3 == 0 else 2)


def search(ctx, broken, budget):
    """Wider oracle sweep when proof or correspondence broke."""
    t0 = time.time()
    n0 = len(ctx.failures)
    for st in stat_fixed(ctx):
        stat_case(ctx, st, [1, 2, 3], M=200000, why="search")
        if len(ctx.failures) > n0:
            return ctx.failures[n0]
    while time.time() - t0 < budget:
        run_case(ctx, rand_spec(ctx), model_every=4)
        if len(ctx.failures) > n0:
            return ctx.failures[n0]
        if len(ctx.failures) == n0 and ctx.evaluations > 5000:
            break
    return None


def _spec_of(case):
    spec = {k: case[k] for k in SPEC_KEYS}
    spec.update({k: case.get(k, d) for k, d in SPEC_DEFAULTS.items()})
    return spec


def shrink(ctx, rec):
    """Try to reproduce the failure with one fit call / one epoch / no scheduler; keep the smallest that still fails."""
    case = rec.get("case", {})
    if "data" not in case or "torch_seed" not in case or not all(k in case for k in SPEC_KEYS):
        return rec
    spec = _spec_of(case)
    best = rec
    for mod in ({"second": None, "history": None}, {"second": None, "history": None, "epochs": 1, "starting_epoch": 1},
                {"second": None, "history": None, "epochs": 1, "starting_epoch": 1, "scheduler": None}):
        trial = dict(spec, **mod)
        sub = _silent_ctx(ctx)
        try:
            run_case(sub, trial, model_every=10 ** 9)
        except Exception:
            continue
        hit = [f for f in sub.failures if f["what"] == rec["what"]]
        if hit:
            best = hit[0]
    return best


def _silent_ctx(ctx):
    import common
    sub = common.Ctx(ctx.pid, ctx.tier, ctx.seed)
    sub.model = ctx.get_model()
    sub.scratch = ctx.scratch
    return sub


def replay(ctx, rec):
    case = rec.get("failing", {}).get("case", {})
    if case.get("call") == "vector_to_grads":
        v2g_cases(ctx, 40)
        return
    if str(case.get("call", "")).startswith("compute_batch_gradients (same-object history)"):
        print("replay of a direct compute_batch_gradients history:", {k: case.get(k) for k in ("state", "nv", "nh", "na", "k")},
              [st.get("op") for st in case.get("steps", [])])
        direct_exec(ctx, {k: v for k, v in case.items() if k not in ("call_index", "k_of_this_call")})
        return
    if str(case.get("call", "")).startswith("compute_batch_gradients (statistical"):
        print("replay of the statistical law test:", {k: case.get(k) for k in ("state", "nv", "nh", "na", "k", "negative_rows", "start")})
        import torch
        st = {k: case[k] for k in ("state", "nv", "nh", "na", "am", "ph", "start")}
        stat_case(ctx, st, [case["k"]], M=case["negative_rows"], why="replay")
        return
    if all(k in case for k in SPEC_KEYS):
        print("replay of fit:", {k: case[k] for k in ("state", "nv", "nh", "na", "N", "pos_batch_size", "neg_batch_size", "k", "lr", "epochs", "scheduler")},
              "second fit:", case.get("second"),
              "history:", [[mu.get("op") for mu in st.get("mut", [])] + (["mid:" + st["run"]["mid"]["op"]] if st["run"].get("mid") else [])
                           for st in (case.get("history") or [])])
        run_case(ctx, _spec_of(case))
    else:
        run(ctx)
