"""C19 — basis-state indexing and data loading.
Correspondence: generate_hilbert_space / subspace_vector / _convert_basis_element_to_index vs the extracted
Coq model (Bits.v mirrors the code's bit arithmetic; theorems tie it to the structural enumeration).
Oracle: itertools.product enumeration; big-endian expansion; idx round trips; psi/rho array positions via
one-hot probes; size guard; extract_refbasis_samples vs an independent filter; data loaders vs an independent
parser of files written by the harness (loader clause is correspondence-only, not modelled)."""
import itertools, os
import numpy as np

RULE = ("sizes n=1..10 exhaustively (thorough: ..12), sampled indices for n up to 20; random data files (N, n, basis "
        "alphabet, complex targets); a case is (function, n, index-or-file); non-trivial := n >= 2 and the index has "
        "both 0 and 1 bits (asymmetric expansion) or the file has >= 2 rows with distinct content")
ASSUMPTIONS = ["np.loadtxt / file system behave as documented (loader clause is correspondence-only)"]


def bigendian(n, k):
    return [(k >> (n - 1 - j)) & 1 for j in range(n)]


def run(ctx):
    import torch
    from qucumber.nn_states import PositiveWaveFunction, ComplexWaveFunction, DensityMatrix
    from qucumber.utils import unitaries as U
    from qucumber.utils.data import extract_refbasis_samples, load_data, load_data_DM
    from qucumber.utils import cplx
    m = ctx.get_model()
    rng = ctx.rng
    nmax = 12 if ctx.thorough else 10
    # ---- full spaces
    for n in range(1, nmax + 1):
        kind = [PositiveWaveFunction, ComplexWaveFunction, DensityMatrix][n % 3]
        s = kind(n, gpu=False) if kind is not DensityMatrix else kind(n, 1, 1, gpu=False)
        case = {"fn": "generate_hilbert_space", "n": n, "state": kind.__name__}
        ctx.case(case, nontrivial=(n >= 2))
        ok, space = ctx.call("generate_hilbert_space", case, s.generate_hilbert_space)
        if not ok:
            continue
        sp = space.numpy().astype(int)
        want = np.array(list(itertools.product([0, 1], repeat=n)))
        ctx.require("rows == itertools.product order (big-endian, site 0 MSB)", sp.shape == want.shape and bool((sp == want).all()), case)
        mod = m.call("generate_hilbert_space", n)
        ctx.agree_exact("generate_hilbert_space", sp.tolist(), [[int(x) for x in r] for r in mod[0]], case)
        # explicit size argument
        if n <= 6:
            sp2 = s.generate_hilbert_space(size=n + 1).numpy().astype(int)
            ctx.require("size= argument", bool((sp2 == np.array(list(itertools.product([0, 1], repeat=n + 1)))).all()), case)
        # idx of every row == its position
        idxs = U._convert_basis_element_to_index(space).long().tolist()
        ctx.require("index of row k is k", idxs == list(range(2 ** n)), case)
        midx = m.call("idx", sp.tolist())
        ctx.agree_exact("idx", idxs, [int(x) for x in midx], case)
        # subspace_vector for a sample of indices
        ks = sorted(set([0, 1, 2 ** n - 1, 2 ** (n - 1)] + [int(x) for x in rng.integers(0, 2 ** n, size=6)]))
        for k in ks:
            c2 = {"fn": "subspace_vector", "n": n, "k": k}
            ctx.case(c2, nontrivial=(n >= 2 and 0 < k < 2 ** n - 1))
            v = s.subspace_vector(k).numpy().astype(int).tolist()
            ctx.require("subspace_vector == big-endian expansion", v == bigendian(n, k), c2, v)
            ctx.require("subspace_vector == row k", v == sp[k].tolist(), c2)
            ctx.agree_exact("subspace_vector", v, [int(x) for x in m.call("subspace_vector", n, k)], c2)
            v3 = s.subspace_vector(k, size=n + 2).numpy().astype(int).tolist()
            ctx.require("subspace_vector size=", v3 == bigendian(n + 2, k), c2)
    # ---- the FULL generated space at large sizes (rows sampled): generate_hilbert_space itself, not only subspace_vector
    sbig = PositiveWaveFunction(3, gpu=False)
    for n in ([13, 16, 17, 20] if ctx.thorough else [14, 17]):
        c2 = {"fn": "generate_hilbert_space (large)", "n": n}
        ctx.case(c2)
        ok, space = ctx.call("generate_hilbert_space large", c2, sbig.generate_hilbert_space, n)
        if ok:
            ctx.require("large space has 2^n rows of n sites", tuple(space.shape) == (2 ** n, n), c2, list(space.shape))
            ks = [0, 1, 2 ** n - 1, 2 ** (n - 1), 2 ** (n - 1) - 1, 2 ** 15 + 5 if n > 15 else 5] + [int(x) for x in rng.integers(0, 2 ** n, size=40)]
            ks = [k for k in ks if k < 2 ** n]
            rows = space[ks].numpy().astype(int).tolist()
            ctx.require("large space: row k == big-endian expansion of k", rows == [bigendian(n, k) for k in ks], c2,
                        [k for k, r in zip(ks, rows) if r != bigendian(n, k)][:5])
            del space
    # ---- large sizes: sampled rows only
    s = PositiveWaveFunction(3, gpu=False)
    for n in ([14, 17, 20] if ctx.thorough else [15, 20]):
        for k in [0, 2 ** n - 1] + [int(x) for x in rng.integers(0, 2 ** n, size=8)]:
            c2 = {"fn": "subspace_vector", "n": n, "k": k}
            ctx.case(c2)
            v = s.subspace_vector(k, size=n)
            ctx.require("subspace_vector == big-endian expansion", v.numpy().astype(int).tolist() == bigendian(n, k), c2)
            back = int(U._convert_basis_element_to_index(v).item())
            ctx.require("idx(subspace_vector(k)) == k", back == k, c2, back)
            ctx.agree_exact("idx large", back, int(m.call("idx", [v.numpy().astype(int).tolist()])[0]), c2)
    # ---- size guard: spaces beyond the state's own size limit are refused (any exception); the limit itself is not prescribed
    lim = int(s.max_size)
    for n in (lim + 1, lim + 5):
        c2 = {"fn": "size guard", "n": n, "max_size": lim}
        ctx.case(c2)
        try:
            s.generate_hilbert_space(size=n)
            refused = False
        except Exception:
            refused = True
        ctx.require("spaces beyond max_size are refused", refused, c2)
        if lim == 20:                      # the model's max_size mirrors the code's 20
            mod = m.call("generate_hilbert_space", n)
            ctx.agree_exact("guard", refused, mod == [], c2)
    # default-size call form on a state larger than the limit (subclass with a small limit keeps this cheap)
    for kind in (PositiveWaveFunction, ComplexWaveFunction):
        class Small(kind):
            @property
            def max_size(self):
                return 4
        for nvis in (4, 5, 6):
            st = Small(nvis, gpu=False)
            c2 = {"fn": "size guard default size", "state": kind.__name__, "num_visible": nvis, "max_size": 4}
            ctx.case(c2)
            try:
                sp_ = st.generate_hilbert_space()
                refused = False
            except Exception:
                refused = True
            ctx.require("default-size call: refused iff num_visible exceeds max_size", refused == (nvis > 4), c2)
            if not refused:
                ctx.require("default-size call rows", sp_.numpy().astype(int).tolist() == [list(t) for t in itertools.product([0, 1], repeat=nvis)], c2)
    # ---- positions of psi / rho arrays: basis state k of the array is row k of the space
    for n in (2, 3):
        cw = ComplexWaveFunction(n, gpu=False)
        sp = cw.generate_hilbert_space()
        psi = cw.psi(sp)
        for k in range(2 ** n):
            c2 = {"fn": "psi position", "n": n, "k": k}
            ctx.case(c2)
            one = cw.psi(cw.subspace_vector(k))
            ctx.require("psi(space)[:,k] == psi(subspace_vector(k))", bool(torch.allclose(psi[:, k], one, rtol=1e-10, atol=1e-14 * float(psi.abs().max()))), c2)
        # explicit psi through rotate_psi_inner_prod: one-hot array picks position idx(state)
        for k in range(2 ** n):
            arr = torch.zeros(2, 2 ** n, dtype=torch.double); arr[0, k] = 1.0
            out = U.rotate_psi_inner_prod(cw, "Z" * n, sp, psi=arr)
            got = out[0].numpy()
            c2 = {"fn": "explicit psi position", "n": n, "k": k}
            ctx.case(c2)
            ctx.require("explicit psi entry k belongs to basis state row k", bool((got == np.eye(2 ** n)[k]).all()), c2, got.tolist())
        dm = DensityMatrix(n, 2, 2, gpu=False)
        rho = dm.rho(sp, sp)
        for i in range(2 ** n):
            for j in range(2 ** n):
                one = dm.rho(sp[i], sp[j])
                c2 = {"fn": "rho position", "n": n, "i": i, "j": j}
                ctx.case(c2)
                ctx.require("rho(space,space)[:,i,j] == rho(row i,row j)", bool(torch.allclose(rho[:, i, j], one.reshape(2), rtol=1e-10, atol=1e-14 * float(rho.abs().max()))), c2)
    # ---- leftmost tensor factor = site 0: rotations of explicit arrays vs dense numpy Kronecker products
    from functools import reduce
    ud = U.create_dict()
    def cmat(name):
        t = ud[name].numpy(); return t[0] + 1j * t[1]
    for n in (2, 3):
        cw = ComplexWaveFunction(n, gpu=False)
        dm = DensityMatrix(n, 1, 1, gpu=False)
        sp = cw.generate_hilbert_space()
        strings = ["".join(t) for t in itertools.product("XYZ", repeat=n)]
        for basis in strings:
            if basis == basis[::-1] and not ctx.thorough:
                continue
            c2 = {"fn": "tensor factor order", "n": n, "basis": basis}
            ctx.case(c2, nontrivial=(basis != basis[::-1]))
            dense = reduce(np.kron, [cmat(ch) for ch in basis])
            vec = rng.normal(size=2 ** n) + 1j * rng.normal(size=2 ** n)
            arr = torch.tensor(np.stack([vec.real, vec.imag]), dtype=torch.double)
            ok, out = ctx.call("rotate_psi", c2, U.rotate_psi, cw, basis, sp, psi=arr)
            if ok:
                got = out[0].numpy() + 1j * out[1].numpy()
                ctx.require("rotate_psi: site 0 is the leftmost Kronecker factor (position k = big-endian state k)",
                            bool(np.allclose(got, dense @ vec, rtol=1e-10, atol=1e-12)), c2, float(np.abs(got - dense @ vec).max()))
            a = rng.normal(size=(2 ** n, 2 ** n)) + 1j * rng.normal(size=(2 ** n, 2 ** n)); h = a + a.conj().T
            rarr = torch.tensor(np.stack([h.real, h.imag]), dtype=torch.double)
            ok, out = ctx.call("rotate_rho", c2, U.rotate_rho, dm, basis, sp, rho=rarr)
            if ok:
                got = out[0].numpy() + 1j * out[1].numpy()
                ctx.require("rotate_rho: site 0 is the leftmost Kronecker factor",
                            bool(np.allclose(got, dense @ h @ dense.conj().T, rtol=1e-10, atol=1e-11)), c2)
            # fast path agrees: entry idx(state) of the dense rotation
            st = sp[[1, 2 ** n - 2]]
            ok, out = ctx.call("rotate_psi_inner_prod", c2, U.rotate_psi_inner_prod, cw, basis, st, psi=arr)
            if ok:
                got = out[0].numpy() + 1j * out[1].numpy()
                ctx.require("rotate_psi_inner_prod picks entry idx(state)", bool(np.allclose(got, (dense @ vec)[[1, 2 ** n - 2]], rtol=1e-10, atol=1e-12)), c2)
    # ---- reference-basis extraction
    for t in range(40 if ctx.thorough else 12):
        N = int(rng.integers(1, 9)); n = int(rng.integers(1, 5))
        alphabet = list("XYZ") if t % 3 else list("ZHSX")          # any basis alphabet: only "Z" is the reference letter
        bases = rng.choice(alphabet, size=(N, n), p=[0.2, 0.2, 0.6] if len(alphabet) == 3 else [0.55, 0.15, 0.15, 0.15])
        if t % 4 == 0:
            bases[:] = "Z"
        if t % 4 == 1:
            bases[:, 0] = "X"
        if t % 2:
            samples = torch.tensor(rng.integers(0, 2, size=(N, n)) + np.arange(N)[:, None] * 2.0, dtype=torch.double)  # distinct rows
        else:
            samples = torch.tensor(rng.integers(0, 2, size=(N, n)), dtype=torch.double)   # genuine 0/1 rows: repeats, unsorted
        c2 = {"fn": "extract_refbasis_samples", "bases": ["".join(r) for r in bases], "N": N}
        ctx.case(c2, nontrivial=bool((bases != "Z").any() and (bases == "Z").all(1).any()))
        ok, z = ctx.call("extract_refbasis_samples", c2, extract_refbasis_samples, samples, bases)
        if ok:
            keep = [i for i in range(N) if all(ch == "Z" for ch in bases[i])]
            ctx.require("refbasis rows are exactly the all-Z rows in order", z.shape[0] == len(keep) and bool(torch.equal(z, samples[keep])), c2)
    # ---- data loaders (differential test only: the loaders are not modelled).  Files written here, parsed back by the
    #      library, compared with what was written; every subset of the optional arguments; N = 1 included.
    d = ctx.scratch
    def same_rows(t, want, what, case):
        arr = np.asarray(t.numpy() if hasattr(t, "numpy") else t)
        want = np.asarray(want)
        ok = arr.size == want.size and (arr.shape == want.shape or want.shape[0] == 1 or want.ndim == 1 or want.shape[-1] == 1)
        ctx.require(what, bool(ok and (arr.reshape(want.shape) == want).all()), case, {"got_shape": list(arr.shape), "want_shape": list(want.shape)})
    nfiles = 24 if ctx.thorough else 10
    for t in range(nfiles):
        N = 1 if t % 5 == 4 else int(rng.integers(2, 8))
        n = int(rng.integers(1, 4))
        samp = rng.integers(0, 2, size=(N, n))
        alphabet = list("XYZ") if t % 2 else list("XYZH")
        bases = rng.choice(alphabet, size=(N, n))
        psi = rng.normal(size=(2 ** n, 2))
        allb = rng.choice(alphabet, size=(int(rng.integers(1, 4)), n))
        f1, f2, f3, f4 = [os.path.join(d, "f%d_%d.txt" % (t, i)) for i in range(4)]
        np.savetxt(f1, samp, fmt=["%d", "%.1f", "%.18e", "%g"][t % 4])        # integer and float notations of the same 0/1 samples
        np.savetxt(f2, psi, fmt="%.18e")
        if t % 3 == 2:                                                       # multi-character basis names (dictionary keys are arbitrary strings)
            names = {"X": "Rx", "Y": "Y", "Z": "Z", "H": "H2"}
            bases = np.array([[names[ch] for ch in row] for row in bases])
        np.savetxt(f3, bases, fmt="%s")
        np.savetxt(f4, np.array(["".join(r) for r in allb]), fmt="%s")
        f5 = os.path.join(d, "f%d_joined.txt" % t)                               # one joined string per sample row, e.g. "XZ"
        joined = np.array(["".join(r) for r in bases])
        np.savetxt(f5, joined, fmt="%s")
        cj = {"fn": "load_data", "N": N, "n": n, "tr_bases": "one joined string per row"}
        ctx.case(cj)
        ok, outj = ctx.call("load_data (joined basis rows)", cj, load_data, f1, None, f5, None)
        if ok:
            ctx.require("joined basis rows as written", len(outj) == 2 and [str(x) for x in np.atleast_1d(outj[1])] == joined.tolist(), cj,
                        [str(x) for x in np.atleast_1d(outj[1])] if len(outj) == 2 else len(outj))
        for mask in range(8):                                   # which optional files are passed
            use_psi, use_tb, use_ab = bool(mask & 1), bool(mask & 2), bool(mask & 4)
            c2 = {"fn": "load_data", "N": N, "n": n, "psi": use_psi, "tr_bases": use_tb, "bases": use_ab}
            ctx.case(c2, nontrivial=(N >= 2 and mask != 0))
            ok, out = ctx.call("load_data", c2, load_data, f1, f2 if use_psi else None, f3 if use_tb else None, f4 if use_ab else None)
            if not ok:
                continue
            ctx.require("load_data returns one item per given file, samples first", len(out) == 1 + use_psi + use_tb + use_ab, c2, len(out))
            if len(out) != 1 + use_psi + use_tb + use_ab:
                continue
            it = iter(out)
            ts = next(it)
            same_rows(ts, samp.astype(float), "samples as written", c2)
            if use_psi:
                tp = next(it)
                want = psi.astype(np.float32).astype(np.float64)
                ctx.require("target psi to single precision, [re; im] rows", tuple(tp.shape) == (2, 2 ** n) and bool((tp.numpy() == want.T).all()), c2)
            if use_tb:
                tb = next(it)
                got = np.asarray(tb)
                ctx.require("bases as written", got.size == bases.size and got.reshape(bases.shape).tolist() == bases.tolist(), c2, got.tolist())
            if use_ab:
                ab = next(it)
                ctx.require("basis list as written", [str(x) for x in np.atleast_1d(ab)] == ["".join(r) for r in allb], c2)
        mr = rng.normal(size=(2 ** n, 2 ** n)); mi = rng.normal(size=(2 ** n, 2 ** n))
        g1, g2 = os.path.join(d, "g%d_r.txt" % t), os.path.join(d, "g%d_i.txt" % t)
        np.savetxt(g1, mr, fmt="%.18e"); np.savetxt(g2, mi, fmt="%.18e")
        for mask in range(8):
            use_m, use_tb, use_ab = bool(mask & 1), bool(mask & 2), bool(mask & 4)
            c3 = {"fn": "load_data_DM", "N": N, "n": n, "matrix": use_m, "tr_bases": use_tb, "bases": use_ab}
            ctx.case(c3, nontrivial=(N >= 2 and mask != 0))
            ok, out = ctx.call("load_data_DM", c3, load_data_DM, f1, g1 if use_m else None, g2 if use_m else None, f3 if use_tb else None, f4 if use_ab else None)
            if not ok or len(out) != 1 + use_m + use_tb + use_ab:
                ctx.require("load_data_DM returns one item per given file", not ok or False, c3)
                continue
            it = iter(out)
            same_rows(next(it), samp.astype(float), "DM samples as written", c3)
            if use_m:
                tm = next(it)
                ctx.require("target matrix to single precision",
                            tuple(tm.shape) == (2, 2 ** n, 2 ** n) and
                            bool((tm[0].numpy().reshape(mr.shape) == mr.astype(np.float32).astype(np.float64)).all() and (tm[1].numpy().reshape(mi.shape) == mi.astype(np.float32).astype(np.float64)).all()), c3)
            if use_tb:
                got = np.asarray(next(it))
                ctx.require("DM bases as written", got.size == bases.size and got.reshape(bases.shape).tolist() == bases.tolist(), c3)
            if use_ab:
                ctx.require("DM basis list as written", [str(x) for x in np.atleast_1d(next(it))] == ["".join(r) for r in allb], c3)
        try:
            load_data_DM(f1, tr_mtx_real_path=g1)
            rej = False
        except Exception:
            rej = True
        ctx.require("real part without imaginary part is refused", rej, {"fn": "load_data_DM", "only_real": True})
    ctx.traces = ctx.evaluations


def replay(ctx, rec):
    run(ctx)
