"""C19 — basis-state indexing and data loading.
Correspondence: generate_hilbert_space / subspace_vector / _convert_basis_element_to_index vs the extracted
Coq model (Bits.v mirrors the code's bit arithmetic; theorems tie it to the structural enumeration).
Oracle: itertools.product enumeration; big-endian expansion; idx round trips; psi/rho array positions via
one-hot probes; size guard; extract_refbasis_samples vs an independent filter; data loaders vs an independent
parser of files written by the harness (loader clause is correspondence-only, not modelled).
Histories (seed round 3): every operation above is also evaluated repeatedly on the SAME objects with legal changes in
between (see the block "HISTORIES" below); the oracle after every step is the one used for a fresh object.
Red-team round 2: integer arguments in numpy encodings (enc_size / enc_index), limits raised above the stock value
(raised_limit_cases), one-column / one-row files with shapes demanded and the loader -> extraction -> fit round
(loader_shape_cases), the narrow-integer size finding candidate (narrow_size_cases)."""
import itertools, os
import numpy as np

RULE = ("sizes n=1..10 exhaustively (thorough: ..12), sampled indices for n up to 20; random data files (N, n, basis "
        "alphabet, complex targets); a case is (function, n, index-or-file); non-trivial := n >= 2 and the index has "
        "both 0 and 1 bits (asymmetric expansion) or the file has >= 2 rows with distinct content; "
        "HISTORIES on the same objects (fixed ones first, never cut by a budget; then 150 / 1500 random ones from the seed, time-boxed): "
        "evaluate (generate_hilbert_space in the call forms default / size= / positional / device=, subspace_vector, "
        "_convert_basis_element_to_index, psi / rho tables of the full space, rotate_psi / rotate_rho / rotate_psi_inner_prod / rotate_rho_probs "
        "of explicit arrays, the size guard, the loaders, extract_refbasis_samples) -> a legal change -> evaluate again, the changes being: "
        "in-place edits of a tensor the library RETURNED earlier (mul_(2).sub_(1), sample(k, initial_state=t, overwrite=True), zero_, fill_, "
        "copy_ of random bits, reversed rows / sites, one flipped row, two swapped rows, add_, t_(), resize_(0)); buffers the caller PASSED "
        "earlier refilled with copy_ and passed again; reinitialize_parameters, rbm.initialize_parameters, a rebound weights Parameter, "
        ".data = new, .data.copy_, copy_ under no_grad, load_state_dict, save + load(path), a one-epoch fit, the device setter, both networks "
        "replaced (same / other num_visible); the unitary dictionary edited in place / a key rebound / replaced; tables of several sizes "
        "alive at once and the same size requested on another device (meta) in between; a FRESH state of the same class after another "
        "state's table was edited; the size limit of a subclass lowered / raised between calls, a refused request repeated, a table another "
        "state was allowed to build; data files rewritten at the same paths (also with identical byte size and the old mtime restored) and "
        "loader results edited in place before loading again; samples / bases arrays refilled in place between two extractions; "
        "results returned earlier and not touched by the caller must still hold what was returned. "
        "Red-team round 2: every size / index argument of generate_hilbert_space / subspace_vector (keyword and positional forms) rotates through "
        "int, numpy.int64 / int32 / intp / int16 / int8 (narrow ones where 2**size fits), np.sum(...) results and elements of integer arrays "
        "(indices also uint8); the size limit RAISED above the stock 20 in a subclass (limit 25 / 30 with small sizes; limit 21 with the "
        "2^21-row table itself when 3 GB are available, size 22 refused); one-column (n = 1), one-row (N = 1) and 1 x 1 data files with the "
        "SHAPE (N, n) of samples and per-sample bases demanded, the loaded objects handed on to extract_refbasis_samples and to "
        "fit(input_bases=...) of a ComplexWaveFunction / DensityMatrix. "
        "A history is non-trivial when n >= 2 and at least one change happened before the evaluation")
ASSUMPTIONS = ["np.loadtxt / file system behave as documented (loader clause is correspondence-only)",
               "after BOTH networks of a state were replaced by ones of ANOTHER num_visible only explicit size= forms are demanded: the states copy "
               "num_visible into an attribute of their own at construction, so on the unchanged library generate_hilbert_space() follows the new "
               "network while subspace_vector(k) keeps the old width (histogram 'default widths after replacement ...'; the documented use "
               "keeps the parameter shapes)",
               "calls with float32 basis vectors and calls on the 'meta' device are only INTERVENING steps of a history (counted, never required)",
               "whether two calls return the same tensor object is only counted; what is required is that every returned table is right when "
               "it is returned and that a result the caller has not touched is not altered by a later library call",
               "sizes are generated as Python ints and SIGNED numpy integers only (what len-like numpy results are); unsigned numpy sizes, float sizes "
               "and float / uint64 indices are not generated (documented type: int; integer arithmetic such as size - 1 is not int arithmetic on them, "
               "float sizes are refused by the bit operations of the unchanged tree)",
               "a limit above the stock one is reached by overriding the public property max_size in a subclass (the only way the library offers)"]


def bigendian(n, k):
    return [(k >> (n - 1 - j)) & 1 for j in range(n)]


# ---- encodings of the integer arguments (size, index): the documented type is int; numpy code hands over numpy integers
#      (np.sum(basis != "Z"), np.count_nonzero(...), an element of np.arange / np.argmax).  Signed types only for SIZES (see ASSUMPTIONS);
#      a narrow type is used only where 2**size still fits it (beyond that: finding candidate F-C19-narrow-int-size, see narrow_size_cases)
_ROT = [0]
FINDING_NARROW_SIZE = "F-C19-narrow-int-size"


def enc_size(ctx, n, wide_only=False):
    """-> (value to pass, name of the encoding); rotates deterministically over the encodings"""
    _ROT[0] += 1
    r = _ROT[0] % 8
    n = int(n)
    if r in (0, 4):
        out = n
    elif r == 1:
        out = np.int64(n)
    elif r == 2:
        out = np.int32(n)
    elif r == 3:
        out = np.sum(np.ones(n, dtype=bool))                 # what np.sum(basis != "Z") gives: numpy.int64
    elif r == 5:
        out = np.intp(n)
    elif r == 6:
        out = np.int16(n) if (n <= 14 and not wide_only) else np.int64(n)
    else:
        out = np.int8(n) if (n <= 6 and not wide_only) else np.int32(n)
    name = type(out).__name__
    ctx.count("size given as:" + name)
    return out, name


def enc_index(ctx, k):
    _ROT[0] += 1
    r = _ROT[0] % 8
    k = int(k)
    if r in (0, 4):
        out = k
    elif r == 1:
        out = np.int64(k)
    elif r == 2:
        out = np.int32(k) if k < 2 ** 31 else np.int64(k)
    elif r == 3:
        out = np.arange(k, k + 1)[0]                          # an element of an integer array
    elif r == 5:
        out = np.intp(k)
    elif r == 6:
        out = np.int16(k) if k < 2 ** 15 else np.int64(k)
    else:
        out = np.uint8(k) if k < 2 ** 8 else np.int64(k)
    name = type(out).__name__
    ctx.count("index given as:" + name)
    return out, name



# =====================================================================================================================
# HISTORIES on the SAME objects (seed round 3, C19c: a lazily built table / memo / stored handle that goes stale).
# Every public operation of the property is evaluated, then something legal happens (an in-place edit of a tensor the
# library returned earlier or the caller passed earlier, a parameter / network / limit / file change), then the SAME
# operation is evaluated again on the SAME objects; the oracle after each step is the one used for a fresh object.
# =====================================================================================================================
KINDS = ("PositiveWaveFunction", "ComplexWaveFunction", "DensityMatrix")

EDITS = ["mul_(2).sub_(1)", "sample(k, initial_state=t, overwrite=True)", "zero_()", "fill_(1)", "copy_(random bits)",
         "reverse rows", "reverse sites", "flip one row", "swap two rows", "add_(0.5)", "t_()", "resize_(0)"]

STATE_MUTS = ["reinitialize_parameters()", "rbm.initialize_parameters()", "rebind weights Parameter", ".data = new",
              ".data.copy_()", "copy_ under no_grad", "load_state_dict", "save + load(path)", "short fit", "device setter",
              "replace networks (same num_visible, other num_hidden)", "replace networks (other num_visible)"]

FORMS = ["default", "size=", "positional", "device=", "device str"]


def np_space(n):
    return np.array(list(itertools.product([0, 1], repeat=n)), dtype=float).reshape(2 ** n, n)


def bits_ok(t, n):
    """t: what the library returned as the full space of n sites -> (ok, detail with the first wrong row)"""
    want = np_space(n)
    try:
        got = np.asarray(t.detach().cpu().numpy(), dtype=float)
    except Exception as e:
        return False, "not a tensor: %r" % (e,)
    if got.shape != want.shape:
        return False, {"shape": list(got.shape), "want_shape": list(want.shape)}
    if bool((got == want).all()):
        return True, ""
    bad = int(np.where((got != want).any(1))[0][0])
    return False, {"first_bad_row": bad, "row": got[bad].tolist(), "want": want[bad].tolist()}


def new_state(kind, n, nh=None, limit=None):
    """a fresh state; limit: None = the stock class, else a subclass whose size limit is the settable attribute `limit`"""
    from qucumber import nn_states
    cls = getattr(nn_states, kind)
    if limit is not None:
        class Limited(cls):
            @property
            def max_size(self):
                return self.__dict__.get("limit", 20)
        Limited.__name__ = kind
        cls = Limited
    nh = int(nh or max(1, n))
    st = cls(n, nh, nh, gpu=False) if kind == "DensityMatrix" else cls(n, nh, gpu=False)
    if limit is not None:
        st.__dict__["limit"] = int(limit)
    return st


def edit_tensor(ctx, name, t, what="bits"):
    """in-place edit of a tensor the caller owns (the library returned it earlier).  Never raises: what the caller does to
    their tensor is not under test, only what the library returns NEXT."""
    import torch
    from qucumber.nn_states import PositiveWaveFunction
    rng = ctx.rng
    try:
        with torch.no_grad():
            if name == "mul_(2).sub_(1)":
                t.mul_(2).sub_(1)
            elif name == "zero_()":
                t.zero_()
            elif name == "fill_(1)":
                t.fill_(1)
            elif name == "add_(0.5)":
                t.add_(0.5) if t.is_floating_point() else t.add_(1)
            elif name == "copy_(random bits)":
                t.copy_(torch.tensor(rng.integers(0, 2, size=tuple(t.shape))).to(t.dtype))
            elif name == "reverse rows":
                t.copy_(t.flip(0).clone())
            elif name == "reverse sites":
                t.copy_(t.flip(-1).clone())
            elif name == "flip one row":
                k = int(rng.integers(0, t.shape[0]))
                t[k] = 1 - t[k]
            elif name == "swap two rows":
                if t.shape[0] >= 2:
                    i, j = [int(x) for x in rng.choice(t.shape[0], size=2, replace=False)]
                    a = t[i].clone(); t[i] = t[j]; t[j] = a
            elif name == "sample(k, initial_state=t, overwrite=True)":
                if what == "bits" and t.dim() >= 1 and t.shape[-1] >= 1 and t.is_floating_point():
                    ctx.torch_seed()
                    aux = PositiveWaveFunction(int(t.shape[-1]), 2, gpu=False)
                    with torch.no_grad():
                        aux.rbm_am.visible_bias.add_(3.0)            # chains that move: almost every site ends at 1
                    aux.sample(k=3, initial_state=t, overwrite=True)
                else:
                    t.neg_().add_(1)
            elif name == "t_()":
                t.t_() if t.dim() == 2 else t.unsqueeze_(0)
            elif name == "resize_(0)":
                t.resize_(0)
            else:
                raise ValueError(name)
        ctx.count("edit:" + name)
    except Exception:
        ctx.count("edit not applicable:" + name)


class Session:
    """one state object + everything the library handed out for it + the buffers the caller passes again and again"""

    def __init__(self, ctx, tag, kind, n, nh=None, limit=None):
        self.ctx, self.tag, self.kind, self.n, self.limit = ctx, tag, kind, int(n), limit
        self.nh = int(nh or max(1, n))
        self.st = new_state(kind, n, self.nh, limit)
        self.steps = []
        self.live = []            # (label, tensor, what): returned earlier, kept by the caller
        self.snap = {}            # id(tensor) -> clone taken when it was returned (only while the caller has not edited it)
        self.explicit_only = False  # after the networks were replaced by ones of ANOTHER num_visible only explicit sizes are demanded
        self.bufs = {}            # buffers the caller passes (same objects every time)

    # ---- bookkeeping
    def log(self, s):
        self.steps.append(s)

    def case(self, fn, **kw):
        c = {"fn": fn, "history": self.tag, "state": self.kind, "n": self.n, "steps": list(self.steps)}
        c.update(kw)
        return c

    def keep(self, label, t, what):
        try:
            snap = t.detach().clone()
        except Exception:
            return
        prev = self.snap.get(id(t))
        if prev is not None and any(x[1] is t for x in self.live):
            # the library handed out the very object it returned earlier (untouched by the caller since): fine as long as the
            # earlier result was not overwritten by that
            same = tuple(prev.shape) == tuple(snap.shape) and bool((prev == snap).all())
            self.ctx.require("history: a result the library returned earlier, untouched by the caller, still holds what was returned",
                             same, self.case("earlier results (history)", result=label, returned_again=True),
                             {"now": snap.reshape(-1)[:8].tolist(), "returned": prev.reshape(-1)[:8].tolist()})
        self.live.append((label, t, what))
        self.snap[id(t)] = snap               # what the library returned; dropped as soon as the caller edits the tensor
        if len(self.live) > 12:
            old = self.live.pop(0)
            if not any(x[1] is old[1] for x in self.live):
                self.snap.pop(id(old[1]), None)

    def ev_untouched(self):
        """values the library returned earlier and the caller has NOT touched since are still what they were (a later call must
        not write into a table / workspace it handed out before)"""
        import torch
        ctx = self.ctx
        c = self.case("earlier results (history)")
        ctx.case(c)
        ctx.count("history eval:earlier results untouched")
        for label, t, what in self.live:
            snap = self.snap.get(id(t))
            if snap is None:
                continue
            try:
                same = tuple(t.shape) == tuple(snap.shape) and bool(torch.equal(t.detach(), snap))
            except Exception:
                same = False
            ctx.require("history: a result the library returned earlier, untouched by the caller, still holds what was returned",
                        same, dict(c, result=label), {"now": t.detach().reshape(-1)[:8].tolist(), "returned": snap.reshape(-1)[:8].tolist()})

    # ---- evaluations (each one oracle-checked)
    def ev_space(self, size=None, form="default", fresh=False, probe=True):
        import torch
        from qucumber.utils import unitaries as U
        ctx = self.ctx
        st = new_state(self.kind, self.n, self.nh, self.limit) if fresh else self.st
        n = self.n if size is None else int(size)
        if size is None and self.explicit_only and not fresh:
            size, form = n, "size="
        if n > int(st.max_size):                 # beyond the CURRENT limit of this state: must be refused instead
            return self.ev_guard(n, "default" if size is None else ("positional" if form == "positional" else "size="))
        if size is None:
            form = "default"
        elif form == "default":
            form = "size="
        args, kw = (), {}
        nenc, nname = enc_size(ctx, n) if form != "default" else (n, "default")
        if form == "size=":
            kw = {"size": nenc}
        elif form == "positional":
            args = (nenc,)
        elif form == "device=":
            kw = {"size": nenc, "device": torch.device("cpu")}
        elif form == "device str":
            kw = {"size": nenc, "device": "cpu"}
        self.log("generate_hilbert_space(%s)%s" % ("" if form == "default" else "%s %s(%d)" % (form, nname, n), " on a FRESH state of the same class" if fresh else ""))
        c = self.case("generate_hilbert_space (history)", size=n, form=form, size_type=nname)
        ctx.case(c, nontrivial=(n >= 2 and len(self.steps) >= 2))
        ctx.count("history eval:generate_hilbert_space/" + form)
        ok, sp = ctx.call("generate_hilbert_space (history)", c, st.generate_hilbert_space, *args, **kw)
        if not ok:
            return None
        good, detail = bits_ok(sp, n)
        ctx.require("history: row k of the generated space == big-endian bits of k (itertools.product order)", good, c, detail)
        if any(sp is t for _, t, _ in self.live):
            ctx.count("history: the SAME tensor object was returned again (counted only)")
        if good and probe:
            ks = sorted(set([0, 2 ** n - 1, 2 ** (n - 1)] + [int(x) for x in ctx.rng.integers(0, 2 ** n, size=3)]))
            for k in ks:
                kenc, kname = enc_index(ctx, k)
                n2, n2name = enc_size(ctx, n)
                ok2, v = ctx.call("subspace_vector (history)", dict(c, k=k, k_type=kname, size_type=n2name), st.subspace_vector, kenc, size=n2)
                if ok2:
                    vv = np.asarray(v.detach().cpu().numpy(), dtype=float).tolist()
                    ctx.require("history: subspace_vector(k) == row k of the generated space == bits of k",
                                vv == [float(b) for b in bigendian(n, k)], dict(c, k=k, k_type=kname, size_type=n2name), vv)
            ok3, idx = ctx.call("_convert_basis_element_to_index (history)", c, U._convert_basis_element_to_index, sp)
            if ok3:
                got = [int(round(float(x))) for x in np.asarray(idx.detach().cpu().numpy()).reshape(-1)]
                ctx.require("history: index of row k of the generated space is k", got == list(range(2 ** n)), c, got[:8])
        self.keep("space n=%d" % n, sp, "bits")
        return sp

    def ev_subvec(self, k=None, size=None):
        ctx = self.ctx
        n = self.n if size is None else int(size)
        if size is None and self.explicit_only:
            size = n
        k = int(ctx.rng.integers(0, 2 ** n)) if k is None else int(k)
        kenc, kname = enc_index(ctx, k)
        nenc, nname = enc_size(ctx, n) if size is not None else (None, "default")
        self.log("subspace_vector(%s(%d)%s)" % (kname, k, "" if size is None else ", size=%s(%d)" % (nname, n)))
        c = self.case("subspace_vector (history)", k=k, size=n, default_size=(size is None), k_type=kname, size_type=nname)
        ctx.case(c, nontrivial=(n >= 2 and 0 < k < 2 ** n - 1))
        ctx.count("history eval:subspace_vector")
        kw = {} if size is None else {"size": nenc}
        ok, v = ctx.call("subspace_vector (history)", c, self.st.subspace_vector, kenc, **kw)
        if not ok:
            return None
        try:
            vv = np.asarray(v.detach().cpu().numpy(), dtype=float).tolist()
        except Exception as e:
            vv = repr(e)
        ctx.require("history: subspace_vector(k) == big-endian bits of k", vv == [float(b) for b in bigendian(n, k)], c, vv)
        self.keep("vector k=%d n=%d" % (k, n), v, "bits")
        return v

    def ev_guard(self, size=None, form="size="):
        """a space beyond the state's CURRENT size limit must be refused (any exception)"""
        ctx = self.ctx
        lim = int(self.st.max_size)
        size = lim + 1 if size is None else int(size)
        if size <= lim or size > 14:
            return
        self.log("generate_hilbert_space(%s) beyond the limit %d" % (size if form != "default" else "", lim))
        c = self.case("size guard (history)", size=size, max_size=lim, form=form)
        ctx.case(c)
        ctx.count("history eval:size guard")
        senc, sname = enc_size(ctx, size, wide_only=True)
        c["size_type"] = sname
        try:
            if form == "default":
                self.st.generate_hilbert_space()
            elif form == "positional":
                self.st.generate_hilbert_space(senc)
            else:
                self.st.generate_hilbert_space(size=senc)
            refused = False
        except Exception:
            refused = True
        ctx.require("history: a space beyond the current size limit is refused", refused, c)

    def ev_idx(self, width=None, rows=5, dtype="double"):
        """_convert_basis_element_to_index on a buffer the caller passes again and again (refilled in place between calls)"""
        import torch
        from qucumber.utils import unitaries as U
        ctx = self.ctx
        w = self.n if width is None else int(width)
        key = ("idx", w, rows, dtype)
        content = ctx.rng.integers(0, 2, size=(rows, w))
        tdt = torch.double if dtype == "double" else torch.float32
        if key in self.bufs:
            with torch.no_grad():
                self.bufs[key].copy_(torch.tensor(content).to(tdt))
            how = "the same buffer refilled with copy_"
        else:
            self.bufs[key] = torch.tensor(content).to(tdt)
            how = "a new buffer"
        buf = self.bufs[key]
        self.log("_convert_basis_element_to_index(%dx%d %s, %s)" % (rows, w, dtype, how))
        c = self.case("_convert_basis_element_to_index (history)", rows=content.tolist(), dtype=dtype, buffer=how)
        ctx.case(c, nontrivial=(w >= 2))
        ctx.count("history eval:idx/" + dtype)
        want = [sum(int(b) << (w - 1 - j) for j, b in enumerate(r)) for r in content.tolist()]
        if dtype != "double":
            # another dtype is only an INTERVENING call (samples are doubles by the library's convention): counted, not required
            try:
                got = [int(round(float(x))) for x in U._convert_basis_element_to_index(buf).reshape(-1)]
                ctx.count("history: float32 index %s" % ("right" if got == want else "differs (counted only)"))
            except Exception:
                ctx.count("history: float32 index raised (counted only)")
            return None
        for variant in ("batch", "single row", "3-d batch"):
            arg = buf if variant == "batch" else (buf[rows - 1] if variant == "single row" else buf.reshape(1, rows, w))
            ok, idx = ctx.call("_convert_basis_element_to_index (history)", dict(c, shape=variant), U._convert_basis_element_to_index, arg)
            if not ok:
                continue
            got = [int(round(float(x))) for x in np.asarray(idx.detach().cpu().numpy()).reshape(-1)]
            ctx.require("history: index of a basis vector == value of its big-endian bits", got == (want if variant != "single row" else want[-1:]),
                        dict(c, shape=variant), got)
            if variant == "batch":
                self.keep("indices", idx, "index")
        return None

    def full_space(self, c):
        """the library's table of the state's own size (an independent one if that is wrong - reported by ev_space)"""
        import torch
        kw = {"size": self.n} if self.explicit_only else {}
        if self.n > int(self.st.max_size):        # the state's own size is beyond its current limit: nothing to ask the library for
            return torch.tensor(np_space(self.n), dtype=torch.double)
        ok, sp = self.ctx.call("generate_hilbert_space (history)", c, self.st.generate_hilbert_space, **kw)
        if not ok or not bits_ok(sp, self.n)[0]:
            sp = torch.tensor(np_space(self.n), dtype=torch.double)
        return sp

    def vec(self, k):
        return self.st.subspace_vector(k, size=self.n) if self.explicit_only else self.st.subspace_vector(k)

    def cur_params(self):
        """current parameters of the pure state as numpy (read at evaluation time)"""
        out = []
        for nm in self.st.networks:
            r = getattr(self.st, nm)
            out.append([r.weights.detach().numpy().astype(float), r.visible_bias.detach().numpy().astype(float), r.hidden_bias.detach().numpy().astype(float)])
        return out

    def ev_tables(self):
        """position k of the psi / rho table the library produces for the full space belongs to basis state k (CURRENT parameters)"""
        import torch
        ctx = self.ctx
        n, st = self.n, self.st
        if n > 6:
            return
        self.log("psi/rho table of the full space")
        c = self.case("array position (history)")
        ctx.case(c, nontrivial=(n >= 2))
        ctx.count("history eval:array position")
        sp = self.full_space(c)
        if self.kind != "DensityMatrix":
            ok, tab = ctx.call("psi(space) (history)", c, st.psi, sp)
            if not ok:
                return
            got = tab.detach().numpy()[0] + 1j * tab.detach().numpy()[1]
            P = self.cur_params()
            S = np_space(n)
            import gen
            want = np.exp(-0.5 * gen.np_eff_energy(*P[0], S)).astype(complex)
            if len(P) > 1:
                want = want * np.exp(1j * (-0.5 * gen.np_eff_energy(*P[1], S)))
            scale = float(np.abs(want).max())
            err = np.abs(got - want) if got.shape == want.shape else np.array([np.inf])
            ctx.require("history: entry k of psi(space) is the amplitude of the big-endian basis state k (numpy, current parameters)",
                        bool(err.max() <= 1e-9 * scale), c, {"max_err": float(err.max()), "k": int(err.argmax()), "scale": scale})
            for k in sorted(set([0, 2 ** n - 1] + [int(x) for x in ctx.rng.integers(0, 2 ** n, size=2)])):
                ok2, one = ctx.call("psi(subspace_vector(k)) (history)", c, lambda: st.psi(self.vec(k)))
                if ok2:
                    o = one.detach().numpy().reshape(2)
                    ctx.require("history: psi(space)[:,k] == psi(subspace_vector(k))", abs((o[0] + 1j * o[1]) - want[k]) <= 1e-9 * scale, dict(c, k=k))
            self.keep("psi table", tab, "table")
        else:
            ok, tab = ctx.call("rho(space, space) (history)", c, st.rho, sp, sp)
            if not ok:
                return
            T = tab.detach().numpy()
            scale = float(np.abs(T).max())
            pairs = [(0, 2 ** n - 1), (2 ** n - 1, 0)] + [tuple(int(x) for x in ctx.rng.integers(0, 2 ** n, size=2)) for _ in range(4)]
            for i, j in pairs:
                ok2, one = ctx.call("rho(row i, row j) (history)", c, lambda: st.rho(self.vec(i), self.vec(j)))
                if ok2:
                    o = one.detach().numpy().reshape(2)
                    ctx.require("history: rho(space,space)[:,i,j] == rho(subspace_vector(i), subspace_vector(j))",
                                T.shape == (2, 2 ** n, 2 ** n) and bool(np.abs(T[:, i, j] - o).max() <= 1e-9 * scale), dict(c, i=i, j=j))
            self.keep("rho table", tab, "table")

    def ev_rotate(self, basis=None, rows=None):
        """explicit psi / rho arrays in buffers the caller passes again (refilled in place): full rotation and the per-state fast
        path (which enumerates the sub-space of the rotated sites internally) vs dense numpy Kronecker products of the CURRENT
        unitaries"""
        import torch
        from functools import reduce
        from qucumber.utils import unitaries as U
        ctx = self.ctx
        n, st = self.n, self.st
        if n > 5:
            return
        if basis is None:
            basis = "".join(ctx.rng.choice(list("XYZ"), size=n))
        D = 2 ** n
        vec = ctx.rng.normal(size=D) + 1j * ctx.rng.normal(size=D)
        a = ctx.rng.normal(size=(D, D)) + 1j * ctx.rng.normal(size=(D, D)); h = a + a.conj().T
        new = ("psi", n) not in self.bufs
        if new:
            self.bufs[("psi", n)] = torch.zeros(2, D, dtype=torch.double)
            self.bufs[("rho", n)] = torch.zeros(2, D, D, dtype=torch.double)
            self.bufs[("states", n)] = torch.zeros(3, n, dtype=torch.double)
        arr, rarr, sts = self.bufs[("psi", n)], self.bufs[("rho", n)], self.bufs[("states", n)]
        ks = [int(x) for x in ctx.rng.integers(0, D, size=3)] if rows is None else list(rows)
        with torch.no_grad():
            arr.copy_(torch.tensor(np.stack([vec.real, vec.imag])))
            rarr.copy_(torch.tensor(np.stack([h.real, h.imag])))
            sts.copy_(torch.tensor(np_space(n)[ks]))
        ud = getattr(st, "unitary_dict", None) or U.create_dict()
        try:
            dense = reduce(np.kron, [ud[ch].detach().numpy()[0] + 1j * ud[ch].detach().numpy()[1] for ch in basis])
        except Exception:
            ctx.count("history: rotate skipped (dictionary unusable after the caller's edit)")
            return
        self.log("rotate %s (explicit arrays in %s)" % (basis, "new buffers" if new else "the same buffers refilled with copy_"))
        c = self.case("rotation of explicit arrays (history)", basis=basis, states=ks)
        ctx.case(c, nontrivial=(n >= 2 and basis != basis[::-1]))
        ctx.count("history eval:rotate")
        sp = self.full_space(c)
        fast = sum(ch != "Z" for ch in basis) <= int(st.max_size)     # the fast path enumerates the rotated sites: subject to the limit
        if self.kind != "DensityMatrix":
            want = dense @ vec
            tol = 1e-9 * float(np.abs(want).max())
            ok, out = ctx.call("rotate_psi (history)", c, U.rotate_psi, st, basis, sp, psi=arr)
            if ok:
                got = out.detach().numpy()[0] + 1j * out.detach().numpy()[1]
                ctx.require("history: rotate_psi of an explicit array == dense Kronecker product (site 0 leftmost) applied to it",
                            got.shape == want.shape and bool(np.abs(got - want).max() <= tol), c)
                self.keep("rotated psi", out, "table")
            ok, out = ctx.call("rotate_psi_inner_prod (history)", c, U.rotate_psi_inner_prod, st, basis, sts, psi=arr) if fast else (False, None)
            if ok:
                got = out.detach().numpy()[0] + 1j * out.detach().numpy()[1]
                ctx.require("history: rotate_psi_inner_prod picks entry idx(state) of the dense rotation",
                            got.shape == (len(ks),) and bool(np.abs(got - want[ks]).max() <= tol), c, {"got": str(got), "want": str(want[ks])})
        else:
            want = dense @ h @ dense.conj().T
            tol = 1e-9 * float(np.abs(want).max())
            ok, out = ctx.call("rotate_rho (history)", c, U.rotate_rho, st, basis, sp, rho=rarr)
            if ok:
                got = out.detach().numpy()[0] + 1j * out.detach().numpy()[1]
                ctx.require("history: rotate_rho of an explicit array == dense Kronecker conjugation (site 0 leftmost)",
                            got.shape == want.shape and bool(np.abs(got - want).max() <= tol), c)
                self.keep("rotated rho", out, "table")
            ok, out = ctx.call("rotate_rho_probs (history)", c, U.rotate_rho_probs, st, basis, sts, rho=rarr) if fast else (False, None)
            if ok:
                got = out.detach().numpy()
                w = np.real(np.diag(want))[ks]
                ctx.require("history: rotate_rho_probs picks the diagonal entry idx(state) of the dense rotation",
                            got.shape == (len(ks),) and bool(np.abs(got - w).max() <= tol), c, {"got": got.tolist(), "want": w.tolist()})

    # ---- legal things that happen between two evaluations
    def other_device(self, size=None):
        """the same tables requested on ANOTHER device (the storage-less 'meta' device exists everywhere): not checked itself"""
        n = self.n if size is None else int(size)
        self.log("generate_hilbert_space / subspace_vector (size %d) on device 'meta'" % n)
        for f in (lambda: self.st.generate_hilbert_space(size=n, device="meta"), lambda: self.st.subspace_vector(1, size=n, device="meta")):
            try:
                f()
                self.ctx.count("intervening call on device meta")
            except Exception:
                self.ctx.count("intervening call on device meta raised (counted only)")

    def edit_live(self, edit=None, which=None):
        ctx = self.ctx
        if not self.live:
            return
        if isinstance(which, str):              # the latest returned tensor with that label
            hits = [i for i, (lab, _, _) in enumerate(self.live) if lab == which]
            if not hits:
                return
            i = hits[-1]
        else:
            i = len(self.live) - 1 if which is None else which % len(self.live)
        label, t, what = self.live[i]
        edit = edit or str(ctx.rng.choice(EDITS))
        self.log("caller edits the returned %s in place: %s" % (label, edit))
        self.snap.pop(id(t), None)
        edit_tensor(ctx, edit, t, what)

    def edit_unitaries(self, how=None):
        import torch
        from qucumber.utils import unitaries as U
        ctx = self.ctx
        ud = getattr(self.st, "unitary_dict", None)
        if not ud:
            return
        how = how or str(ctx.rng.choice(["entry edited in place", "key rebound", "dictionary replaced"]))
        self.log("unitary_dict: " + how)
        ctx.count("mutation:unitary_dict " + how)
        th = float(ctx.rng.uniform(0.3, 1.2))
        rot = torch.tensor([[[np.cos(th), -np.sin(th)], [np.sin(th), np.cos(th)]], [[0.0, 0.0], [0.0, 0.0]]], dtype=torch.double)
        if how == "entry edited in place":
            with torch.no_grad():
                ud["X"].copy_(rot)
        elif how == "key rebound":
            ud["Y"] = ud["X"].clone()
            ud["X"] = rot
        else:
            self.st.unitary_dict = U.create_dict(X=rot, Y=ud["X"].clone())

    def mutate_state(self, name=None):
        import torch
        from torch import nn
        from qucumber.rbm import BinaryRBM, PurificationRBM
        ctx = self.ctx
        st = self.st
        name = name or str(ctx.rng.choice(STATE_MUTS))
        assert name in STATE_MUTS, name
        self.log("state: " + name)
        ctx.torch_seed()
        nets = [getattr(st, nm) for nm in st.networks]
        try:
            if name == "reinitialize_parameters()":
                st.reinitialize_parameters()
            elif name == "rbm.initialize_parameters()":
                for r in nets:
                    r.initialize_parameters()
            elif name == "rebind weights Parameter":
                for r in nets:
                    for pn in ("weights", "weights_W", "weights_U"):
                        if pn in r._parameters:
                            setattr(r, pn, nn.Parameter(torch.randn_like(r._parameters[pn]), requires_grad=False))
            elif name == ".data = new":
                for r in nets:
                    r.visible_bias.data = torch.randn(self.n, dtype=torch.double)
            elif name == ".data.copy_()":
                for r in nets:
                    r.hidden_bias.data.copy_(torch.randn_like(r.hidden_bias))
            elif name == "copy_ under no_grad":
                with torch.no_grad():
                    for r in nets:
                        for pn, p in r.named_parameters():
                            if not (pn == "aux_bias" and r is nets[-1] and len(nets) > 1):
                                p.copy_(torch.randn_like(p))
            elif name == "load_state_dict":
                other = new_state(self.kind, self.n, self.nh)
                for nm in st.networks:
                    getattr(st, nm).load_state_dict(getattr(other, nm).state_dict())
            elif name == "save + load(path)":
                other = new_state(self.kind, self.n, self.nh)
                path = os.path.join(ctx.scratch, "hist_state_%d.pt" % len(self.steps))
                other.save(path)
                st.load(path)
            elif name == "short fit":
                data = torch.tensor(ctx.rng.integers(0, 2, size=(8, self.n)), dtype=torch.double)
                kw = dict(epochs=1, pos_batch_size=4, neg_batch_size=4, k=1, lr=0.05)
                if self.kind != "PositiveWaveFunction":
                    bases = np.array([["Z"] * self.n] * 8)
                    bases[1::2, 0] = "X"
                    kw["input_bases"] = bases
                st.fit(data, **kw)
            elif name == "device setter":
                st.device = torch.device("cpu")
            elif name == "replace networks (same num_visible, other num_hidden)":
                self.nh = self.nh % 3 + 1
                for nm in st.networks:
                    if self.kind == "DensityMatrix":
                        setattr(st, nm, PurificationRBM(self.n, self.nh, self.nh, gpu=False))
                    else:
                        setattr(st, nm, BinaryRBM(self.n, self.nh, gpu=False))
            elif name == "replace networks (other num_visible)":
                # the states copy num_visible into an attribute of their own at construction, so the DEFAULT sizes of the two
                # enumeration functions disagree after this on the unchanged library (counted, not required; the documented use
                # keeps the shapes): from here on only explicit sizes are demanded
                self.n = self.n % 4 + 1
                for nm in st.networks:
                    if self.kind == "DensityMatrix":
                        setattr(st, nm, PurificationRBM(self.n, self.nh, self.nh, gpu=False))
                    else:
                        setattr(st, nm, BinaryRBM(self.n, self.nh, gpu=False))
                self.explicit_only = True
                self.bufs = {}
                try:
                    w1 = int(st.generate_hilbert_space().shape[-1]); w2 = int(st.subspace_vector(0).shape[-1])
                    ctx.count("default widths after replacement by another num_visible: space %s, vector %s (counted only)" % (
                        "new" if w1 == self.n else "old", "new" if w2 == self.n else "old"))
                except Exception:
                    ctx.count("default forms raise after replacement by another num_visible (counted only)")
            ctx.count("mutation:" + name)
        except Exception as e:
            ctx.count("mutation failed (not under test here):%s:%s" % (name, type(e).__name__))

    def set_limit(self, lim):
        self.log("size limit of the state := %d" % lim)
        self.st.__dict__["limit"] = int(lim)
        self.limit = int(lim)
        self.ctx.count("mutation:size limit changed")


def fixed_histories(ctx):
    """fixed histories, run FIRST (never cut by a budget)"""
    rng = ctx.rng
    # (A) the returned space edited in place, then the same call again: every edit operator, every state type, default and
    #     explicit sizes, the same state and a fresh state of the same class (a table shared between objects)
    for i, edit in enumerate(EDITS):
        kind = KINDS[i % 3]
        n = 4 if i < 2 else (2 + i % 3)
        s = Session(ctx, "A: returned space edited in place", kind, n)
        s.ev_space()
        s.edit_live(edit)
        s.ev_space()
        s.ev_space(size=n, form=FORMS[1 + i % 4])
        s.ev_space(fresh=True)
        s.ev_tables()
        s.ev_untouched()
        ctx.traces += 1
    # a table requested on another device first / in between (a table remembered per size only)
    for i, kind in enumerate(KINDS):
        s = Session(ctx, "A': the same size on another device in between", kind, 3)
        s.other_device(); s.ev_space(); s.ev_subvec(5)
        s.other_device(4); s.ev_space(size=4); s.ev_subvec(9, size=4); s.ev_untouched()
        ctx.traces += 1
    # the two histories of the seed's demo on every state type (n = 4)
    for kind in KINDS:
        for edit in EDITS[:2]:
            s = Session(ctx, "A: returned space edited in place", kind, 4)
            sp = s.ev_space()
            if edit.startswith("sample") and sp is not None:
                s.log("state.sample(k=5, initial_state=space, overwrite=True)")
                ctx.torch_seed()
                s.snap.pop(id(sp), None)
                try:
                    s.st.sample(k=5, initial_state=sp, overwrite=True)
                except Exception:
                    ctx.count("mutation failed (not under test here):sample")
            else:
                s.edit_live(edit)
            s.ev_space()
            s.ev_rotate()
            ctx.traces += 1
    # (B) explicit sizes other than the state's own: tables of several sizes alive at once, one edited; the per-state fast
    #     rotation path enumerates the sub-space of its rotated sites internally (size = number of non-Z sites)
    for i, kind in enumerate(KINDS):
        s = Session(ctx, "B: several sizes on one state", kind, 3)
        s.ev_space(size=2); s.ev_space(size=5, form="positional"); s.ev_space(size=1)
        s.edit_live("mul_(2).sub_(1)", which="space n=2")
        s.edit_live("fill_(1)", which="space n=1")
        s.ev_rotate("XYZ"[i:] + "XYZ"[:i], rows=[1, 6, 3])   # two rotated sites -> internal sub-space of size 2
        s.ev_rotate("ZXZ", rows=[2, 5, 7])                   # one rotated site
        s.ev_rotate("YXY", rows=[0, 7, 4])
        s.ev_space(size=5); s.ev_space(size=2, form="device="); s.ev_space(size=1, form="device str"); s.ev_space()
        s.edit_live("reverse rows", which="space n=5")
        s.ev_space(size=5, form="size="); s.ev_subvec(size=5); s.ev_subvec()
        s.ev_untouched()
        ctx.traces += 1
    # (C) every legal change of the state between two evaluations
    for i, mut in enumerate(STATE_MUTS):
        for j in range(2):
            kind = KINDS[(i + j) % 3]
            s = Session(ctx, "C: state changed between evaluations", kind, 2 + (i + j) % 2, nh=2)
            s.ev_space(); s.ev_tables(); s.ev_rotate(); s.ev_subvec(); s.ev_idx()
            s.mutate_state(mut)
            s.ev_tables(); s.ev_space(); s.ev_rotate(); s.ev_subvec(); s.ev_idx()
            s.edit_live("zero_()", which=int(rng.integers(0, 12)))
            s.ev_tables(); s.ev_space(size=s.n)
            s.ev_untouched()
            ctx.traces += 1
    # (D) the unitaries a rotation uses are the CURRENT ones (dictionary handed over by reference)
    for kind in KINDS[1:]:
        for how in ("entry edited in place", "key rebound", "dictionary replaced"):
            s = Session(ctx, "D: unitary dictionary changed between rotations", kind, 2)
            s.ev_rotate("XY", rows=[1, 2, 3]); s.ev_rotate("YX", rows=[0, 1, 2])
            s.edit_unitaries(how)
            s.ev_rotate("XY", rows=[1, 2, 3]); s.ev_rotate("YX", rows=[0, 1, 2]); s.ev_rotate("XZ", rows=[3, 2, 1])
            s.ev_untouched()
            ctx.traces += 1
    # (E) the size limit: a refused request stays refused, does not poison later requests, follows the state's CURRENT
    #     limit, and a table some OTHER state was allowed to build does not leak through
    for i, kind in enumerate(KINDS):
        s = Session(ctx, "E: size limit", kind, 3, limit=5)
        s.ev_guard(6); s.ev_guard(6); s.ev_space(size=5); s.ev_guard(6, form="positional"); s.ev_space()
        s.set_limit(4)
        s.ev_guard(5); s.ev_space(size=4); s.ev_guard(5, form="positional")
        s.set_limit(2)
        s.ev_guard(3, form="default"); s.ev_guard(3); s.ev_space(size=2)
        s.set_limit(6)
        s.ev_space(size=6); s.ev_space(size=5); s.ev_space(); s.ev_guard(7)
        big = Session(ctx, "E: size limit", kind, 3)                # stock limit: builds the 6- and 7-site tables
        big.ev_space(size=6); big.ev_space(size=7, probe=False)
        small = Session(ctx, "E: size limit", kind, 3, limit=5)
        small.steps = list(big.steps) + ["(other state of the same base class, limit 5)"]
        small.ev_guard(6); small.ev_guard(7); small.ev_space(size=5); small.ev_space()
        ctx.traces += 2
    # (F) single vectors and indices: returned values edited, passed buffers refilled, sizes / dtypes interleaved
    for i, kind in enumerate(KINDS):
        s = Session(ctx, "F: vectors and indices", kind, 3)
        for k in (5, 2):
            s.ev_subvec(k); s.edit_live(EDITS[(2 * i + k) % len(EDITS)]); s.ev_subvec(k)
        s.ev_subvec(9, size=5); s.ev_subvec(5); s.ev_subvec(5, size=3); s.ev_subvec(9, size=4)
        s.edit_live("mul_(2).sub_(1)"); s.ev_subvec(9, size=4); s.ev_subvec(9, size=5)
        s.ev_idx(); s.ev_idx(); s.edit_live("zero_()"); s.ev_idx()
        s.ev_idx(width=5); s.ev_idx(width=2); s.ev_idx(width=5, dtype="float32"); s.ev_idx(width=5); s.ev_idx(); s.ev_idx(width=2)
        s.ev_idx(width=12, rows=3); s.ev_idx(width=12, rows=3); s.ev_idx(width=3, rows=3)
        s.ev_untouched()
        ctx.traces += 1


def random_histories(ctx, count, tmax):
    rng = ctx.rng
    t0 = ctx.elapsed()
    done = 0
    for h in range(count):
        if ctx.elapsed() - t0 > tmax:
            ctx.count("random histories skipped (time budget)", count - h)
            break
        kind = KINDS[int(rng.integers(0, 3))]
        n = int(rng.integers(1, 6))
        limited = rng.random() < 0.3
        s = Session(ctx, "R%d: random history" % h, kind, n, nh=int(rng.integers(1, 4)), limit=(n + int(rng.integers(0, 3))) if limited else None)
        sizes = [n]
        for step in range(int(rng.integers(5, 11))):
            r = rng.random()
            if r < 0.30:
                size = None if rng.random() < 0.4 else int(rng.integers(1, min(9, s.limit if s.limit is not None else 6) + 1))
                if size is not None and size not in sizes:
                    sizes.append(size)
                s.ev_space(size=size, form=str(rng.choice(FORMS[1:])), fresh=bool(rng.random() < 0.15))
            elif r < 0.55:
                s.edit_live(which=int(rng.integers(0, 12)))
            elif r < 0.67:
                s.mutate_state()
            elif r < 0.75:
                s.ev_subvec(size=None if rng.random() < 0.5 else int(rng.integers(1, 8)))
            elif r < 0.81:
                s.ev_tables()
            elif r < 0.87:
                s.ev_rotate()
            elif r < 0.89:
                s.edit_unitaries()
            elif r < 0.91:
                s.other_device(None if rng.random() < 0.5 else int(rng.integers(1, 6)))
            elif r < 0.96:
                s.ev_idx(width=None if rng.random() < 0.5 else int(rng.integers(1, 9)), dtype="double" if rng.random() < 0.8 else "float32")
            elif s.limit is not None:
                if rng.random() < 0.5:
                    s.set_limit(min(10, max(1, s.limit + int(rng.integers(-2, 3)))))
                s.ev_guard()
            else:
                s.ev_subvec()
        for size in sizes:                      # every table that was ever handed out, once more (refused if beyond the limit now)
            s.ev_space(size=size, form="size=")
        s.ev_space()
        s.ev_untouched()
        done += 1
        ctx.traces += 1
    ctx.count("random histories run", done)


def loader_histories(ctx, rounds):
    """the same PATHS loaded again: after the caller edited what the loader returned, and after the files were rewritten
    (other content; in half of the rounds with identical byte size and the old modification time restored)"""
    import torch
    from qucumber.utils.data import load_data, load_data_DM, extract_refbasis_samples
    rng = ctx.rng
    d = ctx.scratch

    def content(N, n):
        return {"samples": rng.integers(0, 2, size=(N, n)), "psi": rng.normal(size=(2 ** n, 2)), "bases": rng.choice(list("XYZ"), size=(N, n)),
                "all": rng.choice(list("XYZ"), size=(2, n)), "re": rng.normal(size=(2 ** n, 2 ** n)), "im": rng.normal(size=(2 ** n, 2 ** n))}

    def write(paths, C, keep_stat):
        old = {k: os.stat(p) for k, p in paths.items()} if keep_stat else None
        np.savetxt(paths["samples"], C["samples"], fmt="%d")
        np.savetxt(paths["psi"], C["psi"], fmt="%+.18e")
        np.savetxt(paths["bases"], C["bases"], fmt="%s")
        np.savetxt(paths["all"], np.array(["".join(r) for r in C["all"]]), fmt="%s")
        np.savetxt(paths["re"], C["re"], fmt="%+.18e")
        np.savetxt(paths["im"], C["im"], fmt="%+.18e")
        same = False
        if keep_stat:
            same = all(os.stat(p).st_size == old[k].st_size for k, p in paths.items())
            for k, p in paths.items():
                os.utime(p, ns=(old[k].st_atime_ns, old[k].st_mtime_ns))
        return same

    def f32(x):
        return np.asarray(x).astype(np.float32).astype(np.float64)

    def rows_of(b, N, n):
        """the loaded per-sample bases as rows; the SHAPE (N, n) of the file is part of "as written" (a one-site file and a
        one-sample file are different things)"""
        b = np.asarray(b)
        return b.tolist() if b.shape == (N, n) else {"wrong shape": list(b.shape), "want": [N, n]}

    def verify(C, paths, case):
        N, n = C["samples"].shape
        ok, out = ctx.call("load_data (history)", case, load_data, paths["samples"], paths["psi"], paths["bases"], paths["all"])
        res = []
        if ok:
            good = len(out) == 4
            ctx.require("history: load_data returns one item per file", good, case, len(out))
            if good:
                s, p, b, ab = out
                ctx.require("history: load_data samples as written in the file", tuple(s.shape) == (N, n) and bool((s.numpy() == C["samples"]).all()), case)
                ctx.require("history: load_data target as written in the file (single precision)", tuple(p.shape) == (2, 2 ** n) and bool((p.numpy() == f32(C["psi"]).T).all()), case)
                ctx.require("history: load_data bases as written in the file", rows_of(b, N, n) == C["bases"].tolist(), case)
                ctx.require("history: load_data basis list as written in the file", [str(x) for x in np.atleast_1d(ab)] == ["".join(r) for r in C["all"]], case)
                res += [s, p, b, ab]
        ok, out = ctx.call("load_data_DM (history)", case, load_data_DM, paths["samples"], paths["re"], paths["im"], paths["bases"], paths["all"])
        if ok:
            good = len(out) == 4
            ctx.require("history: load_data_DM returns one item per file", good, case, len(out))
            if good:
                s, m, b, ab = out
                ctx.require("history: load_data_DM samples as written in the file", tuple(s.shape) == (N, n) and bool((s.numpy() == C["samples"]).all()), case)
                ctx.require("history: load_data_DM target as written in the files (single precision)",
                            tuple(m.shape) == (2, 2 ** n, 2 ** n) and bool((m[0].numpy() == f32(C["re"])).all() and (m[1].numpy() == f32(C["im"])).all()), case)
                ctx.require("history: load_data_DM bases as written in the file", rows_of(b, N, n) == C["bases"].tolist(), case)
                ctx.require("history: load_data_DM basis list as written in the file", [str(x) for x in np.atleast_1d(ab)] == ["".join(r) for r in C["all"]], case)
                res += [s, m, b, ab]
        return res

    for t in range(rounds):
        N, n = int(rng.integers(2, 7)), int(rng.integers(2, 4))
        if t % 4 == 1:
            n = 1                   # one-site files
        if t % 4 == 3:
            N = 1                   # one-sample files (rewritten with one or two rows more)
        ctx.count("loader history:N=%s,n=%s" % ("1" if N == 1 else ">1", "1" if n == 1 else ">1"))
        paths = {k: os.path.join(d, "hist%d_%s.txt" % (t, k)) for k in ("samples", "psi", "bases", "all", "re", "im")}
        steps = []
        def case():
            c = {"fn": "loaders (history)", "round": t, "N": N, "n": n, "steps": list(steps)}
            ctx.case(c); ctx.count("history eval:loaders")
            return c
        A = content(N, n)
        write(paths, A, False)
        steps.append("files written (content A), loaded")
        got = verify(A, paths, case())
        steps.append("caller edits every returned object in place")
        for x in got:
            try:
                if isinstance(x, torch.Tensor):
                    with torch.no_grad():
                        x.mul_(-1).add_(3)
                else:
                    x[...] = "Q"
            except Exception:
                ctx.count("edit not applicable:loader result")
        steps.append("same paths loaded again (files untouched)")
        verify(A, paths, case())
        keep = (t % 2 == 0)
        N2 = N if keep else N + 1 + t % 2
        B = content(N2, n)
        same = write(paths, B, keep)
        steps.append("files REWRITTEN at the same paths (content B, %d rows%s), loaded again" % (N2, ", same byte sizes, old mtime restored" if (keep and same) else ""))
        ctx.count("loader rewrite:" + ("same size + mtime" if (keep and same) else "other size"))
        N = N2
        verify(B, paths, case())
        # reference-basis extraction on the SAME objects: result edited, samples refilled with copy_, bases edited in place
        samples = torch.tensor(B["samples"], dtype=torch.double)
        bases = B["bases"].copy()
        bases[0, :] = "Z"
        esteps = []
        def echeck():
            c = {"fn": "extract_refbasis_samples (history)", "round": t, "bases": ["".join(r) for r in bases], "samples": samples.tolist(), "steps": list(esteps)}
            ctx.case(c); ctx.count("history eval:extract_refbasis_samples")
            cur = samples.clone()
            ok, z = ctx.call("extract_refbasis_samples (history)", c, extract_refbasis_samples, samples, bases)
            if ok:
                keep_rows = [i for i in range(bases.shape[0]) if all(ch == "Z" for ch in bases[i])]
                ctx.require("history: refbasis rows are exactly the all-Z rows of the CURRENT samples, in order",
                            tuple(z.shape) == (len(keep_rows), n) and bool(torch.equal(z, cur[keep_rows])), c, z.tolist())
            return z if ok else None
        esteps.append("first call")
        z = echeck()
        if z is not None:
            esteps.append("caller edits the returned rows in place (zero_)")
            try:
                z.zero_()
            except Exception:
                pass
        esteps.append("same objects again")
        echeck()
        esteps.append("samples refilled with copy_")
        samples.copy_(torch.tensor(rng.integers(0, 2, size=tuple(samples.shape)), dtype=torch.double) + 2.0 * torch.arange(samples.shape[0], dtype=torch.double)[:, None])
        echeck()
        esteps.append("bases edited in place (last row := Z, row 0 site 0 := X)")
        bases[-1, :] = "Z"; bases[0, 0] = "X"
        echeck()
        esteps.append("bases all Z")
        bases[:, :] = "Z"
        echeck()
        ctx.traces += 2


def mem_available_gb():
    try:
        with open("/proc/meminfo") as f:
            for line in f:
                if line.startswith("MemAvailable:"):
                    return int(line.split()[1]) / 1048576.0
    except Exception:
        pass
    return 0.0


def raised_limit_cases(ctx):
    """the size limit RAISED above the stock value in a subclass (`max_size` is a public property of the states; a machine with
    enough memory): every size up to the state's OWN limit is generated, only sizes beyond it are refused.  A second, hard-wired cap
    (a constant 20, a row limit) is visible only with a limit above 20, i.e. with the 2^21-row table (about 0.7 GB on top of the
    process for two seconds): run in both tiers when at least 3 GB are available, skipped (and counted) otherwise."""
    from qucumber.nn_states import PositiveWaveFunction, ComplexWaveFunction, DensityMatrix
    # (a) cheap: a limit far above 20, small sizes in all call forms; (b) limit lowered below and raised back above the stock value on one object
    for i, kind in enumerate(KINDS):
        s = Session(ctx, "G: size limit raised above the stock value", kind, 3, limit=25)
        s.ev_space(size=6); s.ev_space(size=11, form="positional", probe=False); s.ev_space()
        s.set_limit(4); s.ev_guard(5); s.ev_space(size=4)
        s.set_limit(30); s.ev_space(size=5); s.ev_space(size=12, probe=False); s.ev_untouched()
        ctx.traces += 1
    need = 3.0
    have = mem_available_gb()
    if have < need:
        ctx.count("raised limit: the 2^21-row table skipped (%.1f GB available, %.0f GB wanted)" % (have, need))
        note = "the 2^21-row table of a state whose limit was raised to 21 was NOT generated in this run (too little memory available)"
        if note not in ASSUMPTIONS:
            ASSUMPTIONS.append(note)
        return
    kind = KINDS[int(ctx.seed) % 3]
    n = 21
    st = new_state(kind, 2, 2, limit=n)
    nenc, nname = enc_size(ctx, n, wide_only=True)
    form = ["size=", "positional"][int(ctx.seed) % 2]
    c = {"fn": "generate_hilbert_space (limit raised to 21)", "state": kind, "size": n, "max_size": n, "size_type": nname, "form": form}
    ctx.case(c, nontrivial=True)
    ctx.count("raised limit: the 2^21-row table generated")
    ok, space = ctx.call("generate_hilbert_space of a size within the state's own (raised) limit", c,
                         (lambda: st.generate_hilbert_space(size=nenc)) if form == "size=" else (lambda: st.generate_hilbert_space(nenc)))
    if ok:
        good = tuple(space.shape) == (2 ** n, n)
        ctx.require("limit 21: the space of 21 sites has 2^21 rows of 21 sites", good, c, list(space.shape))
        if good:
            ks = [0, 1, 2 ** n - 1, 2 ** (n - 1), 2 ** (n - 1) - 1, 2 ** 20 + 5, 1234567] + [int(x) for x in ctx.rng.integers(0, 2 ** n, size=40)]
            rows = space[ks].numpy().astype(int).tolist()
            ctx.require("limit 21: row k == big-endian expansion of k", rows == [bigendian(n, k) for k in ks], c,
                        [k for k, r in zip(ks, rows) if r != bigendian(n, k)][:5])
        del space
    c2 = dict(c, fn="size guard (limit raised to 21)", size=22)
    ctx.case(c2)
    try:
        st.generate_hilbert_space(size=22)
        refused = False
    except Exception:
        refused = True
    ctx.require("limit 21: a space of 22 sites is refused", refused, c2)


def narrow_size_cases(ctx):
    """The size given as a NARROW signed numpy integer for which 2**size leaves the type (np.int8(7), np.int16(15)): on the
    unchanged tree (NumPy 2 promotion rules) `2 ** size` wraps to 0 and generate_hilbert_space silently returns an EMPTY (0, size)
    tensor.  Inside the quantifier (all sizes 1..max_size) but it FAILS on the unchanged tree, so it is a finding reported to the
    integrator: it becomes a demand (ctx.require; known-findings `match: {"finding": "F-C19-narrow-int-size"}`) as soon as
    known_findings.json lists that id; until then the outcome is only recorded in the evidence (histogram + extra)."""
    from qucumber.nn_states import PositiveWaveFunction
    active = any(k.get("id") == FINDING_NARROW_SIZE for k in ctx.known)
    st = PositiveWaveFunction(2, 2, gpu=False)
    for size in (np.int8(7), np.int16(15)):
        n = int(size)
        case = {"fn": "generate_hilbert_space", "finding": FINDING_NARROW_SIZE, "size": n, "size_type": type(size).__name__}
        ctx.case(case)
        try:
            sp = st.generate_hilbert_space(size=size)
            ok, detail = bits_ok(sp, n)
        except Exception as e:
            ok, detail = False, repr(e)[:200]
        if active:
            ctx.require("generate_hilbert_space with the size given as a narrow numpy integer returns the 2^size rows", ok, case, detail)
        else:
            ctx.count("finding candidate (reported, not yet a demand) %s: %s" % (FINDING_NARROW_SIZE, "holds" if ok else "FAILS on this tree"))
            if not ok:
                ctx.extra.setdefault("finding_candidates", {})[FINDING_NARROW_SIZE] = {"case": case, "detail": str(detail)}


def loader_shape_cases(ctx):
    """one-column (one site) and one-row (one sample) files: samples and per-sample bases come back with the SHAPE (N, n) of the
    file (a one-site file and a one-sample file are different things), values as written; then the loaded objects go where the
    library takes them: extract_refbasis_samples(samples, bases) and fit(samples, input_bases=bases)"""
    import torch
    from qucumber.nn_states import ComplexWaveFunction, DensityMatrix
    from qucumber.utils.data import load_data, load_data_DM, extract_refbasis_samples
    rng = ctx.rng
    d = ctx.scratch
    shapes = [(3, 1), (2, 1), (1, 3), (1, 2), (1, 1), (5, 1), (4, 2)]
    for t, (N, n) in enumerate(shapes):
        samp = rng.integers(0, 2, size=(N, n))
        bases = rng.choice(list("XYZ"), size=(N, n), p=[0.25, 0.25, 0.5])
        bases[0, :] = "Z"                                   # at least one reference-basis row
        if N >= 3:
            bases[1, 0] = "X"; bases[2, :] = "Z"
        psi = rng.normal(size=(2 ** n, 2))
        mr, mi = rng.normal(size=(2 ** n, 2 ** n)), rng.normal(size=(2 ** n, 2 ** n))
        allb = rng.choice(list("XYZ"), size=(1 + t % 2, n))
        f = {k: os.path.join(d, "shape%d_%s.txt" % (t, k)) for k in ("s", "psi", "b", "all", "re", "im")}
        np.savetxt(f["s"], samp, fmt=["%d", "%.1f", "%.18e"][t % 3])
        np.savetxt(f["psi"], psi, fmt="%.18e")
        np.savetxt(f["b"], bases, fmt="%s")
        np.savetxt(f["all"], np.array(["".join(r) for r in allb]), fmt="%s")
        np.savetxt(f["re"], mr, fmt="%.18e"); np.savetxt(f["im"], mi, fmt="%.18e")
        keep = [i for i in range(N) if all(ch == "Z" for ch in bases[i])]
        for loader in ("load_data", "load_data_DM"):
            for with_target in (True, False):
                c = {"fn": loader + " (one-column / one-row files)", "N": N, "n": n, "target": with_target, "bases": ["".join(r) for r in bases],
                     "samples": samp.tolist()}
                ctx.case(c, nontrivial=True)
                ctx.count("loader shapes:N=%s,n=%s" % ("1" if N == 1 else ">1", "1" if n == 1 else ">1"))
                if loader == "load_data":
                    ok, out = ctx.call(loader, c, load_data, f["s"], f["psi"] if with_target else None, f["b"], f["all"])
                else:
                    ok, out = ctx.call(loader, c, load_data_DM, f["s"], f["re"] if with_target else None, f["im"] if with_target else None, f["b"], f["all"])
                if not ok:
                    continue
                good = len(out) == 3 + with_target
                ctx.require("loader returns one item per given file, samples first", good, c, len(out))
                if not good:
                    continue
                ts, tb = out[0], out[-2]
                sshape = tuple(getattr(ts, "shape", ()))
                ctx.require("loaded samples have the shape (N, n) of the file", sshape == (N, n), c, {"got_shape": list(sshape), "want_shape": [N, n]})
                ctx.require("loaded samples as written", sshape == (N, n) and bool((np.asarray(ts.numpy()) == samp).all()), c)
                bshape = tuple(np.shape(tb))
                ctx.require("loaded per-sample bases have the shape (N, n) of the file", bshape == (N, n), c, {"got_shape": list(bshape), "want_shape": [N, n]})
                ctx.require("loaded per-sample bases as written", bshape == (N, n) and np.asarray(tb).tolist() == bases.tolist(), c, np.asarray(tb).tolist())
                ctx.require("loaded basis list as written", [str(x) for x in np.atleast_1d(out[-1])] == ["".join(r) for r in allb], c)
                if with_target and loader == "load_data":
                    want = psi.astype(np.float32).astype(np.float64)
                    ctx.require("target psi to single precision, [re; im] rows", tuple(out[1].shape) == (2, 2 ** n) and bool((out[1].numpy() == want.T).all()), c)
                if with_target and loader == "load_data_DM":
                    ctx.require("target matrix to single precision", tuple(out[1].shape) == (2, 2 ** n, 2 ** n)
                                and bool((out[1][0].numpy() == mr.astype(np.float32).astype(np.float64)).all()
                                         and (out[1][1].numpy() == mi.astype(np.float32).astype(np.float64)).all()), c)
                # the loaded objects handed on to the consumers the library has for them
                ok, z = ctx.call("extract_refbasis_samples(loaded samples, loaded bases)", c, extract_refbasis_samples, ts, tb)
                if ok:
                    want_z = samp[keep].astype(float)
                    ctx.require("reference-basis rows of the LOADED data are exactly the all-Z rows, in order",
                                tuple(z.shape) == want_z.shape and bool((z.numpy() == want_z).all()), c, {"got": z.tolist(), "want": want_z.tolist()})
                if with_target:
                    continue
                ctx.torch_seed()
                st = ComplexWaveFunction(n, 2, gpu=False) if loader == "load_data" else DensityMatrix(n, 2, 1, gpu=False)
                ok, _ = ctx.call("fit(loaded samples, input_bases=loaded bases)", dict(c, state=type(st).__name__),
                                 lambda: st.fit(ts, epochs=1, pos_batch_size=2, neg_batch_size=2, k=1, lr=0.05, input_bases=tb))
                if ok:
                    ctx.count("loader -> extract_refbasis_samples -> fit rounds")
        ctx.traces += 1


def run(ctx):
    import torch
    from qucumber.nn_states import PositiveWaveFunction, ComplexWaveFunction, DensityMatrix
    from qucumber.utils import unitaries as U
    from qucumber.utils.data import extract_refbasis_samples, load_data, load_data_DM
    from qucumber.utils import cplx
    m = ctx.get_model()
    rng = ctx.rng
    nmax = 12 if ctx.thorough else 10
    # ---- histories on the same objects: the fixed ones FIRST (no budget applies to them)
    fixed_histories(ctx)
    loader_shape_cases(ctx)
    raised_limit_cases(ctx)
    loader_histories(ctx, 4)
    narrow_size_cases(ctx)
    # ---- full spaces
    for n in range(1, nmax + 1):
        kind = [PositiveWaveFunction, ComplexWaveFunction, DensityMatrix][n % 3]
        s = kind(n, gpu=False) if kind is not DensityMatrix else kind(n, 1, 1, gpu=False)
        case = {"fn": "generate_hilbert_space", "n": n, "state": kind.__name__}
        ctx.case(case, nontrivial=(n >= 2))
        ok, space = ctx.call("generate_hilbert_space", case, s.generate_hilbert_space)
        if not ok:
            continue
        sp = space.numpy().astype(int)
        want = np.array(list(itertools.product([0, 1], repeat=n)))
        ctx.require("rows == itertools.product order (big-endian, site 0 MSB)", sp.shape == want.shape and bool((sp == want).all()), case)
        mod = m.call("generate_hilbert_space", n)
        ctx.agree_exact("generate_hilbert_space", sp.tolist(), [[int(x) for x in r] for r in mod[0]], case)
        # explicit size argument (Python int and numpy integer encodings)
        if n <= 6:
            n1, n1name = enc_size(ctx, n + 1)
            c1 = dict(case, size=n + 1, size_type=n1name)
            ok1, sp2 = ctx.call("generate_hilbert_space(size=)", c1, s.generate_hilbert_space, size=n1)
            if ok1:
                good, detail = bits_ok(sp2, n + 1)
                ctx.require("size= argument", good, c1, detail)
        # idx of every row == its position
        idxs = U._convert_basis_element_to_index(space).long().tolist()
        ctx.require("index of row k is k", idxs == list(range(2 ** n)), case)
        midx = m.call("idx", sp.tolist())
        ctx.agree_exact("idx", idxs, [int(x) for x in midx], case)
        # subspace_vector for a sample of indices
        ks = sorted(set([0, 1, 2 ** n - 1, 2 ** (n - 1)] + [int(x) for x in rng.integers(0, 2 ** n, size=6)]))
        for k in ks:
            kenc, kname = enc_index(ctx, k)
            c2 = {"fn": "subspace_vector", "n": n, "k": k, "k_type": kname}
            ctx.case(c2, nontrivial=(n >= 2 and 0 < k < 2 ** n - 1))
            ok1, v = ctx.call("subspace_vector", c2, lambda: s.subspace_vector(kenc).numpy().astype(int).tolist())
            if not ok1:
                continue
            ctx.require("subspace_vector == big-endian expansion", v == bigendian(n, k), c2, v)
            ctx.require("subspace_vector == row k", v == sp[k].tolist(), c2)
            ctx.agree_exact("subspace_vector", v, [int(x) for x in m.call("subspace_vector", n, k)], c2)
            # explicit size other than the state's own, as a Python int and in numpy integer encodings; both argument forms
            for form in ("size=", "positional"):
                n2, n2name = enc_size(ctx, n + 2)
                k2, k2name = enc_index(ctx, k)
                c3 = dict(c2, size=n + 2, size_type=n2name, k_type=k2name, form=form)
                ok3, v3 = ctx.call("subspace_vector with an explicit size", c3,
                                   (lambda: s.subspace_vector(k2, size=n2)) if form == "size=" else (lambda: s.subspace_vector(k2, n2)))
                if ok3:
                    v3 = np.asarray(v3.numpy(), dtype=float).astype(int).tolist()
                    ctx.require("subspace_vector size=", v3 == bigendian(n + 2, k), c3, v3)
    # ---- the FULL generated space at large sizes (rows sampled): generate_hilbert_space itself, not only subspace_vector
    sbig = PositiveWaveFunction(3, gpu=False)
    for n in ([13, 16, 17, 20] if ctx.thorough else [14, 17]):
        nenc, nname = enc_size(ctx, n, wide_only=True)
        c2 = {"fn": "generate_hilbert_space (large)", "n": n, "size_type": nname}
        ctx.case(c2)
        ok, space = ctx.call("generate_hilbert_space large", c2, sbig.generate_hilbert_space, nenc)
        if ok:
            good = tuple(space.shape) == (2 ** n, n)
            ctx.require("large space has 2^n rows of n sites", good, c2, list(space.shape))
            if not good:
                continue
            ks = [0, 1, 2 ** n - 1, 2 ** (n - 1), 2 ** (n - 1) - 1, 2 ** 15 + 5 if n > 15 else 5] + [int(x) for x in rng.integers(0, 2 ** n, size=40)]
            ks = [k for k in ks if k < 2 ** n]
            rows = space[ks].numpy().astype(int).tolist()
            ctx.require("large space: row k == big-endian expansion of k", rows == [bigendian(n, k) for k in ks], c2,
                        [k for k, r in zip(ks, rows) if r != bigendian(n, k)][:5])
            del space
    # ---- large sizes: sampled rows only
    s = PositiveWaveFunction(3, gpu=False)
    for n in ([14, 17, 20] if ctx.thorough else [15, 20]):
        for k in [0, 2 ** n - 1] + [int(x) for x in rng.integers(0, 2 ** n, size=8)]:
            kenc, kname = enc_index(ctx, k)
            nenc, nname = enc_size(ctx, n)
            c2 = {"fn": "subspace_vector", "n": n, "k": k, "k_type": kname, "size_type": nname}
            ctx.case(c2)
            ok1, v = ctx.call("subspace_vector (large size)", c2, s.subspace_vector, kenc, size=nenc)
            if not ok1:
                continue
            ctx.require("subspace_vector == big-endian expansion", v.numpy().astype(int).tolist() == bigendian(n, k), c2)
            back = int(U._convert_basis_element_to_index(v).item())
            ctx.require("idx(subspace_vector(k)) == k", back == k, c2, back)
            ctx.agree_exact("idx large", back, int(m.call("idx", [v.numpy().astype(int).tolist()])[0]), c2)
    # ---- size guard: spaces beyond the state's own size limit are refused (any exception); the limit itself is not prescribed
    lim = int(s.max_size)
    for n in (lim + 1, lim + 1, lim + 5):
        nenc, nname = enc_size(ctx, n, wide_only=True)
        c2 = {"fn": "size guard", "n": n, "max_size": lim, "size_type": nname}
        ctx.case(c2)
        try:
            s.generate_hilbert_space(size=nenc)
            refused = False
        except Exception:
            refused = True
        ctx.require("spaces beyond max_size are refused", refused, c2)
        if lim == 20:                      # the model's max_size mirrors the code's 20
            mod = m.call("generate_hilbert_space", n)
            ctx.agree_exact("guard", refused, mod == [], c2)
    # default-size call form on a state larger than the limit (subclass with a small limit keeps this cheap)
    for kind in (PositiveWaveFunction, ComplexWaveFunction):
        class Small(kind):
            @property
            def max_size(self):
                return 4
        for nvis in (4, 5, 6):
            st = Small(nvis, gpu=False)
            c2 = {"fn": "size guard default size", "state": kind.__name__, "num_visible": nvis, "max_size": 4}
            ctx.case(c2)
            try:
                sp_ = st.generate_hilbert_space()
                refused = False
            except Exception:
                refused = True
            ctx.require("default-size call: refused iff num_visible exceeds max_size", refused == (nvis > 4), c2)
            if not refused:
                ctx.require("default-size call rows", sp_.numpy().astype(int).tolist() == [list(t) for t in itertools.product([0, 1], repeat=nvis)], c2)
    # ---- positions of psi / rho arrays: basis state k of the array is row k of the space
    for n in (2, 3):
        cw = ComplexWaveFunction(n, gpu=False)
        sp = cw.generate_hilbert_space()
        psi = cw.psi(sp)
        for k in range(2 ** n):
            c2 = {"fn": "psi position", "n": n, "k": k}
            ctx.case(c2)
            one = cw.psi(cw.subspace_vector(k))
            ctx.require("psi(space)[:,k] == psi(subspace_vector(k))", bool(torch.allclose(psi[:, k], one, rtol=1e-10, atol=1e-14 * float(psi.abs().max()))), c2)
        # explicit psi through rotate_psi_inner_prod: one-hot array picks position idx(state)
        for k in range(2 ** n):
            arr = torch.zeros(2, 2 ** n, dtype=torch.double); arr[0, k] = 1.0
            out = U.rotate_psi_inner_prod(cw, "Z" * n, sp, psi=arr)
            got = out[0].numpy()
            c2 = {"fn": "explicit psi position", "n": n, "k": k}
            ctx.case(c2)
            ctx.require("explicit psi entry k belongs to basis state row k", bool((got == np.eye(2 ** n)[k]).all()), c2, got.tolist())
        dm = DensityMatrix(n, 2, 2, gpu=False)
        rho = dm.rho(sp, sp)
        for i in range(2 ** n):
            for j in range(2 ** n):
                one = dm.rho(sp[i], sp[j])
                c2 = {"fn": "rho position", "n": n, "i": i, "j": j}
                ctx.case(c2)
                ctx.require("rho(space,space)[:,i,j] == rho(row i,row j)", bool(torch.allclose(rho[:, i, j], one.reshape(2), rtol=1e-10, atol=1e-14 * float(rho.abs().max()))), c2)
    # ---- leftmost tensor factor = site 0: rotations of explicit arrays vs dense numpy Kronecker products
    from functools import reduce
    ud = U.create_dict()
    def cmat(name):
        t = ud[name].numpy(); return t[0] + 1j * t[1]
    for n in (2, 3):
        cw = ComplexWaveFunction(n, gpu=False)
        dm = DensityMatrix(n, 1, 1, gpu=False)
        sp = cw.generate_hilbert_space()
        strings = ["".join(t) for t in itertools.product("XYZ", repeat=n)]
        for basis in strings:
            if basis == basis[::-1] and not ctx.thorough:
                continue
            c2 = {"fn": "tensor factor order", "n": n, "basis": basis}
            ctx.case(c2, nontrivial=(basis != basis[::-1]))
            dense = reduce(np.kron, [cmat(ch) for ch in basis])
            vec = rng.normal(size=2 ** n) + 1j * rng.normal(size=2 ** n)
            arr = torch.tensor(np.stack([vec.real, vec.imag]), dtype=torch.double)
            ok, out = ctx.call("rotate_psi", c2, U.rotate_psi, cw, basis, sp, psi=arr)
            if ok:
                got = out[0].numpy() + 1j * out[1].numpy()
                ctx.require("rotate_psi: site 0 is the leftmost Kronecker factor (position k = big-endian state k)",
                            bool(np.allclose(got, dense @ vec, rtol=1e-10, atol=1e-12)), c2, float(np.abs(got - dense @ vec).max()))
            a = rng.normal(size=(2 ** n, 2 ** n)) + 1j * rng.normal(size=(2 ** n, 2 ** n)); h = a + a.conj().T
            rarr = torch.tensor(np.stack([h.real, h.imag]), dtype=torch.double)
            ok, out = ctx.call("rotate_rho", c2, U.rotate_rho, dm, basis, sp, rho=rarr)
            if ok:
                got = out[0].numpy() + 1j * out[1].numpy()
                ctx.require("rotate_rho: site 0 is the leftmost Kronecker factor",
                            bool(np.allclose(got, dense @ h @ dense.conj().T, rtol=1e-10, atol=1e-11)), c2)
            # fast path agrees: entry idx(state) of the dense rotation
            st = sp[[1, 2 ** n - 2]]
            ok, out = ctx.call("rotate_psi_inner_prod", c2, U.rotate_psi_inner_prod, cw, basis, st, psi=arr)
            if ok:
                got = out[0].numpy() + 1j * out[1].numpy()
                ctx.require("rotate_psi_inner_prod picks entry idx(state)", bool(np.allclose(got, (dense @ vec)[[1, 2 ** n - 2]], rtol=1e-10, atol=1e-12)), c2)
    # ---- reference-basis extraction
    for t in range(40 if ctx.thorough else 12):
        N = int(rng.integers(1, 9)); n = int(rng.integers(1, 5))
        alphabet = list("XYZ") if t % 3 else list("ZHSX")          # any basis alphabet: only "Z" is the reference letter
        bases = rng.choice(alphabet, size=(N, n), p=[0.2, 0.2, 0.6] if len(alphabet) == 3 else [0.55, 0.15, 0.15, 0.15])
        if t % 4 == 0:
            bases[:] = "Z"
        if t % 4 == 1:
            bases[:, 0] = "X"
        if t % 2:
            samples = torch.tensor(rng.integers(0, 2, size=(N, n)) + np.arange(N)[:, None] * 2.0, dtype=torch.double)  # distinct rows
        else:
            samples = torch.tensor(rng.integers(0, 2, size=(N, n)), dtype=torch.double)   # genuine 0/1 rows: repeats, unsorted
        c2 = {"fn": "extract_refbasis_samples", "bases": ["".join(r) for r in bases], "N": N}
        ctx.case(c2, nontrivial=bool((bases != "Z").any() and (bases == "Z").all(1).any()))
        ok, z = ctx.call("extract_refbasis_samples", c2, extract_refbasis_samples, samples, bases)
        if ok:
            keep = [i for i in range(N) if all(ch == "Z" for ch in bases[i])]
            ctx.require("refbasis rows are exactly the all-Z rows in order", z.shape[0] == len(keep) and bool(torch.equal(z, samples[keep])), c2)
    # ---- data loaders (differential test only: the loaders are not modelled).  Files written here, parsed back by the
    #      library, compared with what was written; every subset of the optional arguments; N = 1 included.
    d = ctx.scratch
    def same_rows(t, want, what, case):
        """values AND shape (N, n) as written in the file"""
        arr = np.asarray(t.numpy() if hasattr(t, "numpy") else t)
        want = np.asarray(want)
        ok = arr.shape == want.shape
        ctx.require(what, bool(ok and (arr == want).all()), case, {"got_shape": list(arr.shape), "want_shape": list(want.shape)})
    nfiles = 24 if ctx.thorough else 10
    for t in range(nfiles):
        N = 1 if t % 5 == 4 else int(rng.integers(2, 8))
        n = 1 if t % 5 == 1 else int(rng.integers(1, 4))
        if t % 10 == 9:
            N = n = 1
        samp = rng.integers(0, 2, size=(N, n))
        alphabet = list("XYZ") if t % 2 else list("XYZH")
        bases = rng.choice(alphabet, size=(N, n))
        psi = rng.normal(size=(2 ** n, 2))
        allb = rng.choice(alphabet, size=(int(rng.integers(1, 4)), n))
        f1, f2, f3, f4 = [os.path.join(d, "f%d_%d.txt" % (t, i)) for i in range(4)]
        np.savetxt(f1, samp, fmt=["%d", "%.1f", "%.18e", "%g"][t % 4])        # integer and float notations of the same 0/1 samples
        np.savetxt(f2, psi, fmt="%.18e")
        if t % 3 == 2:                                                       # multi-character basis names (dictionary keys are arbitrary strings)
            names = {"X": "Rx", "Y": "Y", "Z": "Z", "H": "H2"}
            bases = np.array([[names[ch] for ch in row] for row in bases])
        np.savetxt(f3, bases, fmt="%s")
        np.savetxt(f4, np.array(["".join(r) for r in allb]), fmt="%s")
        f5 = os.path.join(d, "f%d_joined.txt" % t)                               # one joined string per sample row, e.g. "XZ"
        joined = np.array(["".join(r) for r in bases])
        np.savetxt(f5, joined, fmt="%s")
        cj = {"fn": "load_data", "N": N, "n": n, "tr_bases": "one joined string per row"}
        ctx.case(cj)
        ok, outj = ctx.call("load_data (joined basis rows)", cj, load_data, f1, None, f5, None)
        if ok:
            ctx.require("joined basis rows as written", len(outj) == 2 and [str(x) for x in np.asarray(outj[1]).reshape(-1)] == joined.tolist(), cj,
                        [str(x) for x in np.asarray(outj[1]).reshape(-1)] if len(outj) == 2 else len(outj))
        for mask in range(8):                                   # which optional files are passed
            use_psi, use_tb, use_ab = bool(mask & 1), bool(mask & 2), bool(mask & 4)
            c2 = {"fn": "load_data", "N": N, "n": n, "psi": use_psi, "tr_bases": use_tb, "bases": use_ab}
            ctx.case(c2, nontrivial=(N >= 2 and mask != 0))
            ok, out = ctx.call("load_data", c2, load_data, f1, f2 if use_psi else None, f3 if use_tb else None, f4 if use_ab else None)
            if not ok:
                continue
            ctx.require("load_data returns one item per given file, samples first", len(out) == 1 + use_psi + use_tb + use_ab, c2, len(out))
            if len(out) != 1 + use_psi + use_tb + use_ab:
                continue
            it = iter(out)
            ts = next(it)
            same_rows(ts, samp.astype(float), "samples as written", c2)
            if use_psi:
                tp = next(it)
                want = psi.astype(np.float32).astype(np.float64)
                ctx.require("target psi to single precision, [re; im] rows", tuple(tp.shape) == (2, 2 ** n) and bool((tp.numpy() == want.T).all()), c2)
            if use_tb:
                tb = next(it)
                got = np.asarray(tb)
                ctx.require("bases as written", got.shape == bases.shape and got.tolist() == bases.tolist(), c2,
                            {"got": got.tolist(), "got_shape": list(got.shape), "want_shape": list(bases.shape)})
            if use_ab:
                ab = next(it)
                ctx.require("basis list as written", [str(x) for x in np.atleast_1d(ab)] == ["".join(r) for r in allb], c2)
        mr = rng.normal(size=(2 ** n, 2 ** n)); mi = rng.normal(size=(2 ** n, 2 ** n))
        g1, g2 = os.path.join(d, "g%d_r.txt" % t), os.path.join(d, "g%d_i.txt" % t)
        np.savetxt(g1, mr, fmt="%.18e"); np.savetxt(g2, mi, fmt="%.18e")
        for mask in range(8):
            use_m, use_tb, use_ab = bool(mask & 1), bool(mask & 2), bool(mask & 4)
            c3 = {"fn": "load_data_DM", "N": N, "n": n, "matrix": use_m, "tr_bases": use_tb, "bases": use_ab}
            ctx.case(c3, nontrivial=(N >= 2 and mask != 0))
            ok, out = ctx.call("load_data_DM", c3, load_data_DM, f1, g1 if use_m else None, g2 if use_m else None, f3 if use_tb else None, f4 if use_ab else None)
            if not ok or len(out) != 1 + use_m + use_tb + use_ab:
                ctx.require("load_data_DM returns one item per given file", not ok or False, c3)
                continue
            it = iter(out)
            same_rows(next(it), samp.astype(float), "DM samples as written", c3)
            if use_m:
                tm = next(it)
                ctx.require("target matrix to single precision",
                            tuple(tm.shape) == (2, 2 ** n, 2 ** n) and
                            bool((tm[0].numpy().reshape(mr.shape) == mr.astype(np.float32).astype(np.float64)).all() and (tm[1].numpy().reshape(mi.shape) == mi.astype(np.float32).astype(np.float64)).all()), c3)
            if use_tb:
                got = np.asarray(next(it))
                ctx.require("DM bases as written", got.shape == bases.shape and got.tolist() == bases.tolist(), c3,
                            {"got_shape": list(got.shape), "want_shape": list(bases.shape)})
            if use_ab:
                ctx.require("DM basis list as written", [str(x) for x in np.atleast_1d(next(it))] == ["".join(r) for r in allb], c3)
        try:
            load_data_DM(f1, tr_mtx_real_path=g1)
            rej = False
        except Exception:
            rej = True
        ctx.require("real part without imaginary part is refused", rej, {"fn": "load_data_DM", "only_real": True})
    # ---- histories from the seed (time-boxed; the fixed ones above always run)
    loader_histories(ctx, 12 if ctx.thorough else 3)
    random_histories(ctx, 1500 if ctx.thorough else 150, 240.0 if ctx.thorough else 25.0)
    ctx.hist["histories (same-object traces)"] = ctx.traces
    ctx.traces = ctx.evaluations


def replay(ctx, rec):
    run(ctx)
