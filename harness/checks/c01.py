"""C01 — Born rule for wavefunction states.
Correspondence: psi / amplitude / phase / probability / normalization of real Positive/ComplexWaveFunction
objects vs the extracted Coq model (States.pos_psi, cplx_psi, ...), on all 2^n basis states, 2-D and 1-D forms.
Oracle (property relation on the implementation's own outputs): |psi|^2 = probability = brute-force hidden
marginal; normalization = sum of probabilities; complex modulus independent of the phase net; phase = -E_ph/2
(E_ph computed independently in numpy); positive state real and > 0."""
import itertools, math
import numpy as np
import gen

RULE = ("architectures nv 1..5 x nh 1..6 (quick: covering subset incl. nh != nv, size-1 dims; thorough: all 30), "
        "parameter draws from the mixture in harness/gen.py, all 2^n basis states, batched and 1-D call forms; "
        "a case is (state type, nv, nh, parameter draw); non-trivial := all biases non-zero and (nh != nv or complex)")
ASSUMPTIONS = ["torch softplus/logsumexp/matmul implement the real functions up to rounding"]


def shapes(ctx):
    if ctx.thorough:
        return [(nv, nh) for nv in range(1, 6) for nh in range(1, 7)]
    return [(1, 1), (1, 3), (2, 1), (2, 3), (3, 2), (3, 5), (4, 4), (5, 6), (4, 2)]


def hidden_marginal(W, b, c, v):
    nh = len(c)
    tot = 0.0
    for h in itertools.product([0.0, 1.0], repeat=nh):
        h = np.array(h)
        tot += math.exp(float(v @ b + c @ h + h @ W @ v))
    return tot


def one_case(ctx, kind, nv, nh, zero_bias=False):
    import torch
    m = ctx.get_model()
    if kind == "positive":
        s, am = gen.make_positive(ctx, nv, nh, zero_bias)
        ph = None
    else:
        s, am, ph = gen.make_complex(ctx, nv, nh, zero_bias)
    W, b, c = am
    case = {"state": kind, "nv": nv, "nh": nh, "am": gen.plist(*am), "ph": gen.plist(*ph) if ph else None}
    space = s.generate_hilbert_space()
    sp = space.numpy()
    E = gen.np_eff_energy(W, b, c, sp)
    if np.max(-E) > 600 or (ph is not None and np.max(np.abs(gen.np_eff_energy(*ph, sp))) > 1e6):
        ctx.count("skipped_overflow")
        return
    nontriv = (not zero_bias) and bool(np.all(b != 0) and np.all(c != 0)) and (nh != nv or kind == "complex")
    ctx.case({"state": kind, "nv": nv, "nh": nh, "W00": float(W[0, 0]), "b0": float(b[0]), "c0": float(c[0])}, nontrivial=nontriv)
    ctx.count("shape:%dx%d" % (nv, nh)); ctx.count("state:" + kind)
    ok, out = ctx.call("state evaluation", case, lambda: (
        s.psi(space), s.amplitude(space), s.phase(space), s.probability(space), s.normalization(space)))
    if not ok:
        return
    psi, amp, phase, prob, Z = out
    # ---- correspondence with the Coq model
    if kind == "positive":
        r = m.call("pos_state", W, b, c, sp)
    else:
        r = m.call("cplx_state", W, b, c, ph[0], ph[1], ph[2], sp)
    m_amp, m_phase, m_psi, m_prob, m_Z = r
    ctx.agree("amplitude", amp, m_amp, case)
    ctx.agree("phase", phase, m_phase, case)
    ctx.agree("psi.re", psi[0], [p[0] for p in m_psi], case, scale=max(m_amp))
    ctx.agree("psi.im", psi[1], [p[1] for p in m_psi], case, scale=max(m_amp))
    ctx.agree("probability", prob, m_prob, case)
    ctx.agree("normalization", Z, m_Z, case)
    # 1-D call forms agree with the batched form
    for i in (0, len(sp) - 1, len(sp) // 2):
        v1 = space[i]
        ok, o1 = ctx.call("1-D call forms", case, lambda: (s.psi(v1), s.amplitude(v1), s.phase(v1), s.probability(v1)))
        if ok:
            ctx.agree("psi 1-D", o1[0], [m_psi[i][0], m_psi[i][1]], case, scale=max(m_amp))
            ctx.agree("amplitude 1-D", o1[1], m_amp[i], case)
            ctx.agree("phase 1-D", o1[2], m_phase[i], case)
            ctx.agree("probability 1-D", o1[3], m_prob[i], case)
    # ---- property oracle on the implementation's own outputs
    psi_n = psi.numpy(); prob_n = prob.numpy()
    mod2 = psi_n[0] ** 2 + psi_n[1] ** 2
    ctx.require("|psi|^2 == probability", np.allclose(mod2, prob_n, rtol=1e-9, atol=0), case, (mod2 - prob_n).tolist())
    marg = np.array([hidden_marginal(W, b, c, v) for v in sp])
    ctx.require("probability == hidden-unit marginal", np.allclose(prob_n, marg, rtol=1e-8, atol=0), case,
                {"prob": prob_n.tolist(), "marginal": marg.tolist()})
    ctx.require("normalization == sum of probabilities", math.isclose(float(Z), float(prob_n.sum()), rel_tol=1e-9), case,
                {"Z": float(Z), "sum": float(prob_n.sum())})
    ctx.require("amplitude == sqrt(probability)", np.allclose(amp.numpy() ** 2, marg, rtol=1e-8, atol=0), case)
    if kind == "positive":
        ctx.require("positive state is real and > 0", bool(np.all(psi_n[1] == 0) and np.all(psi_n[0] > 0)), case)
        ctx.require("positive phase is zero", bool(np.all(phase.numpy() == 0)), case)
    else:
        Eph = gen.np_eff_energy(*ph, sp)
        ctx.require("phase == -E_ph/2", np.allclose(phase.numpy(), -Eph / 2, rtol=1e-9, atol=1e-12), case)
        want = np.sqrt(marg) * np.exp(1j * (-Eph / 2))
        got = psi_n[0] + 1j * psi_n[1]
        ctx.require("psi == amplitude * exp(i phase)", np.allclose(got, want, rtol=1e-8, atol=1e-12 * np.abs(want).max()), case)
    ctx.traces += 1


def run(ctx):
    draws = 10 if ctx.thorough else 3
    for (nv, nh) in shapes(ctx):
        for kind in ("positive", "complex"):
            for d in range(draws):
                ctx.torch_seed()
                one_case(ctx, kind, nv, nh)
    # a few fresh-initialisation style cases (zero biases), the only regime the test-suite visits
    for kind in ("positive", "complex"):
        one_case(ctx, kind, 2, 2, zero_bias=True)


def search(ctx, broken, budget):
    """Wider oracle sweep when proof or correspondence broke: all small shapes, more draws."""
    import time
    t0 = time.time()
    n0 = len(ctx.failures)
    for (nv, nh) in [(nv, nh) for nv in range(1, 5) for nh in range(1, 5)]:
        for kind in ("positive", "complex"):
            for d in range(4):
                one_case(ctx, kind, nv, nh)
                if len(ctx.failures) > n0:
                    return ctx.failures[n0]
                if time.time() - t0 > budget:
                    return None
    return None


def replay(ctx, rec):
    case = rec.get("failing", {}).get("case", {})
    print("replay of", case.get("state"), case.get("nv"), case.get("nh"))
    run(ctx)
