"""C01 — Born rule for wavefunction states.
Correspondence: psi / amplitude / phase / probability / normalization of real Positive/ComplexWaveFunction
objects vs the extracted Coq model (States.pos_psi, cplx_psi, ...), on all 2^n basis states, 2-D and 1-D forms.
Oracle (property relation on the implementation's own outputs): |psi|^2 = probability = brute-force hidden
marginal; normalization = sum of probabilities; complex modulus independent of the phase net; phase = -E_ph/2
(E_ph computed independently in numpy); positive state real and > 0.
Regimes of the CALLING PROGRAM (red-team round 2): every relation is also evaluated with the library calls made under
torch.no_grad(), torch.inference_mode(), torch.enable_grad() and torch.set_default_dtype(float32 / float64); the 1-D call
forms must return ONE entry of the batched result (same shape as indexing it); the normalisation constant is handed
to probability(v, Z) as Python float / numpy float / int / tensor; batches are also strided views; every returned
tensor is overwritten in place by the caller (it is his) and the same calls are repeated.
Construction paths (black-box seed round 5): the state object is also obtained through EVERY documented construction path -- sizes,
default num_hidden, module= (a fresh BinaryRBM / one the user parameterised beforehand), autoload, load, networks replaced through the
setters, reinitialize_parameters -- and its two networks are then given DIFFERENT values through every write mechanism (`.data =`,
`.data.copy_`, `copy_` under no_grad, rebinding, load_state_dict, index assignment, in-place arithmetic, an optimiser step, load(file),
gen.set_brbm), in both orders, and then ONE network alone is rewritten in place; the oracle is always evaluated on the values the
user SET, and "modulus depends only on the amplitude network" is additionally checked as: amplitude / probability / normalization do
not move when only the phase network is rewritten.  The fixed first block visits all 30 architectures."""
import contextlib, itertools, math
import numpy as np
import gen

RULE = ("fixed first block: (A) ALL 30 architectures nv 1..5 x nh 1..6 x both state types, one state each, built through a rotating construction path "
        "{Cls(nv, nh), Cls(nv), module=fresh BinaryRBM, module=RBM parameterised by the user, autoload, load, networks replaced through the setters, "
        "reinitialize_parameters} and written through rotating mechanisms {.data=, .data.copy_, copy_ under no_grad, rebinding, load_state_dict, index assignment, "
        "in-place arithmetic, optimiser step, load(file), gen.set_brbm} in rotating order am->ph / ph->am, the two networks always with different non-zero values; "
        "(B) every construction path x every write mechanism on small architectures, complex cases continuing with the phase network alone and then the amplitude "
        "network alone rewritten in place (modulus / phase of the untouched network must not move); the stream repeats this with random path / mechanisms / order per "
        "architecture; the oracle is evaluated on the values the user set; then: "
        "architectures nv 1..5 x nh 1..6 (stream, quick: covering subset incl. nh != nv, size-1 dims; thorough: all 30), "
        "parameter draws from the mixture in harness/gen.py, all 2^n basis states, batched and 1-D call forms (values AND shapes; "
        "contiguous, strided and column-major batches; double / float32 / int64 0-1 data); fixed cases first: both state types x "
        "calling modes {no_grad, inference_mode, enable_grad, default dtype float32 / float64 (state built and used under it)}, then the stream "
        "in which every third draw rotates through these modes; Z of probability(v, Z) as tensor / Python float (log-uniform) / "
        "numpy float64 / int; every returned tensor overwritten in place by the caller, then the same calls again; "
        "a case is (state type, nv, nh, parameter draw, calling mode); non-trivial := all biases non-zero and (nh != nv or complex)")
ASSUMPTIONS = ["torch softplus/logsumexp/matmul implement the real functions up to rounding",
               "Z of probability(v, Z) is a Python / numpy real number, an int or a 0-dim double tensor (the documented type is float); "
               "single-precision tensors as Z are not generated",
               "module=: the amplitude network must hold the VALUES of the RBM handed over (that is the state the user built), but that it is the same OBJECT is a "
               "docstring rule, not part of the property, and is not demanded: the state is written through state.rbm_am / state.rbm_ph only; what the phase network "
               "holds right after Cls(module=rbm) is not demanded either (it is written before the first evaluation)",
               "autoload / load: the parameter setting of the loaded state is the one in the file (written by save() of another state of the same type)"]

# the regimes of the calling program under which the library is called ("ambient" = whatever the driver set: grad enabled,
# or -- every third quick seed / second thorough pass -- the whole run under no_grad)
MODES = ["ambient", "no_grad", "inference_mode", "enable_grad", "default_float32", "default_float64"]


@contextlib.contextmanager
def calling_mode(mode):
    import torch
    if mode == "no_grad":
        with torch.no_grad():
            yield
    elif mode == "inference_mode":
        with torch.inference_mode():
            yield
    elif mode == "enable_grad":
        with torch.enable_grad():
            yield
    elif mode in ("default_float32", "default_float64"):
        old = torch.get_default_dtype()
        torch.set_default_dtype(torch.float32 if mode == "default_float32" else torch.float64)
        try:
            yield
        finally:
            torch.set_default_dtype(old)
    else:
        yield


def shapes(ctx):
    if ctx.thorough:
        return [(nv, nh) for nv in range(1, 6) for nh in range(1, 7)]
    return [(1, 1), (1, 3), (2, 1), (2, 3), (3, 2), (3, 5), (4, 4), (5, 6), (4, 2)]


def hidden_marginal(W, b, c, v):
    nh = len(c)
    tot = 0.0
    for h in itertools.product([0.0, 1.0], repeat=nh):
        h = np.array(h)
        tot += math.exp(float(v @ b + c @ h + h @ W @ v))
    return tot


def big_bias(ctx, n):
    """biases with a few entries of magnitude up to ~30 (the quantifier's range), the rest O(1)"""
    x = gen.nonzero_bias(ctx, n)
    k = max(1, n // 2)
    ii = ctx.rng.choice(n, size=k, replace=False)
    x[ii] = np.exp(ctx.rng.uniform(np.log(3.0), np.log(30.0), size=k)) * ctx.rng.choice([-1.0, 1.0], size=k)
    return x


def evaluate(ctx, s, kind, am, ph, space, case, nontriv, tag="", mode="ambient"):
    """correspondence + oracle for the state object s holding parameters am (and ph); space: full basis tensor;
    every library call is made under the calling program's regime `mode`"""
    with calling_mode(mode):
        return _evaluate(ctx, s, kind, am, ph, space, case, nontriv, tag, mode)


def same(a, b, bound=0.0):
    """same shape and |a - b| <= 1e-12 |b| + 1e-12 bound elementwise (bound: size of the summands behind b, so that a result that
    is small only through cancellation is not held to a relative tolerance)"""
    a, b = np.asarray(a, dtype=float), np.asarray(b, dtype=float)
    return a.shape == b.shape and bool(np.all(np.abs(a - b) <= 1e-12 * np.abs(b) + 1e-12 * np.asarray(bound)))


def entry_shape(t, i):
    """shape of ONE entry of a batched result (what the vector call form must return)"""
    return tuple(t[..., i].shape)


def overwrite(ts):
    """the caller scribbles over tensors the library returned to him"""
    import torch
    with torch.no_grad():
        for t in ts:
            t.mul_(0).add_(7)


def _evaluate(ctx, s, kind, am, ph, space, case, nontriv, tag, mode):
    import torch
    m = ctx.get_model()
    W, b, c = am
    sp = space.numpy().copy()
    N = len(sp)
    E = gen.np_eff_energy(W, b, c, sp)
    if np.max(-E) > 600 or np.min(-E) < -600 or (ph is not None and np.max(np.abs(gen.np_eff_energy(*ph, sp))) > 1e6):
        ctx.count("skipped_overflow")
        return False
    ctx.case({"state": kind, "nv": case["nv"], "nh": case["nh"], "W00": float(W[0, 0]), "b0": float(b[0]), "c0": float(c[0]), "step": tag,
              "mode": mode}, nontrivial=nontriv)
    ctx.count("mode:" + mode)
    # size of the summands of the phase (a rounding-level difference between two evaluation orders is relative to it)
    ph_scale = 0.0 if ph is None else 0.5 * float(sum(np.abs(x).sum() for x in ph))
    ok, out = ctx.call("state evaluation" + tag, case, lambda: (
        s.psi(space), s.amplitude(space), s.phase(space), s.probability(space), s.normalization(space)))
    if not ok:
        return False
    psi, amp, phase, prob, Z = out
    shp = [tuple(t.shape) for t in (psi, amp, phase, prob)]
    if not ctx.require("batched call form: psi has shape (2, N), amplitude / phase / probability shape (N,)" + tag,
                       shp == [(2, N), (N,), (N,), (N,)], case, shp):
        return False
    # ---- correspondence with the Coq model
    if kind == "positive":
        r = m.call("pos_state", W, b, c, sp)
    else:
        r = m.call("cplx_state", W, b, c, ph[0], ph[1], ph[2], sp)
    m_amp, m_phase, m_psi, m_prob, m_Z = r
    ctx.agree("amplitude" + tag, amp, m_amp, case)
    ctx.agree("phase" + tag, phase, m_phase, case)
    ctx.agree("psi.re" + tag, psi[0], [p[0] for p in m_psi], case, scale=max(m_amp))
    ctx.agree("psi.im" + tag, psi[1], [p[1] for p in m_psi], case, scale=max(m_amp))
    ctx.agree("probability" + tag, prob, m_prob, case)
    ctx.agree("normalization" + tag, Z, m_Z, case)
    # 1-D call forms: ONE entry of the batched form (value and shape); the vector is a fresh row, and a strided one
    # (a column of the transposed, column-major copy of the basis)
    spT = space.t().contiguous()
    ones = []
    names = ("psi", "amplitude", "phase", "probability")
    for j, i in enumerate((0, N - 1, N // 2)):
        v1 = space[i] if j != 1 else spT[:, i]
        ok, o1 = ctx.call("1-D call forms", case, lambda: (s.psi(v1), s.amplitude(v1), s.phase(v1), s.probability(v1)))
        if ok:
            ones.append((i, v1, o1))
            got = [tuple(t.shape) for t in o1]
            want = [entry_shape(t, i) for t in (psi, amp, phase, prob)]
            if not ctx.require("1-D call forms return one entry of the batched result: psi(v) of shape (2,), amplitude / phase / "
                               "probability 0-dim" + tag, got == want, case, {"shapes": got, "want": want, "row": i}):
                continue
            ctx.agree("psi 1-D" + tag, o1[0], [m_psi[i][0], m_psi[i][1]], case, scale=max(m_amp))
            ctx.agree("amplitude 1-D" + tag, o1[1], m_amp[i], case)
            ctx.agree("phase 1-D" + tag, o1[2], m_phase[i], case)
            ctx.agree("probability 1-D" + tag, o1[3], m_prob[i], case)
            good = all(same(o.numpy(), t[..., i].numpy(), bd) for o, t, bd in zip(o1, (psi, amp, phase, prob), (amp[i].item(), 0.0, ph_scale, 0.0)))
            ctx.require("1-D call forms give the value of the batched form at that basis state" + tag, good, case,
                        {"row": i, "1-D": [o.tolist() for o in o1]})
    # ---- property oracle on the implementation's own outputs (copies: the tensors are overwritten further down)
    psi_n = psi.numpy().copy(); prob_n = prob.numpy().copy(); amp_n = amp.numpy().copy(); phase_n = phase.numpy().copy()
    Zf = float(Z)
    mod2 = psi_n[0] ** 2 + psi_n[1] ** 2
    ctx.require("|psi|^2 == probability" + tag, np.allclose(mod2, prob_n, rtol=1e-9, atol=0), case, (mod2 - prob_n).tolist())
    marg = np.array([hidden_marginal(W, b, c, v) for v in sp])
    ctx.require("probability == hidden-unit marginal" + tag, np.allclose(prob_n, marg, rtol=1e-7, atol=0), case,
                {"prob": prob_n.tolist(), "marginal": marg.tolist()})
    ctx.require("normalization == sum of probabilities" + tag, math.isclose(Zf, float(prob_n.sum()), rel_tol=1e-9), case,
                {"Z": Zf, "sum": float(prob_n.sum())})
    ctx.require("normalization == sum of hidden-unit marginals over the whole basis" + tag, math.isclose(Zf, float(marg.sum()), rel_tol=1e-7), case,
                {"Z": Zf, "sum": float(marg.sum())})
    ctx.require("amplitude == sqrt(probability)" + tag, np.allclose(amp_n ** 2, marg, rtol=1e-7, atol=0), case)
    # probability(v, Z): the normalised probabilities sum to one, and scale as 1/Z -- Z handed over as the tensor the
    # library returned, as a Python float (the documented type; the state's own normalisation and a log-uniform one),
    # as a numpy float and as an int
    Zr = float(np.exp(ctx.rng.uniform(np.log(1e-3), np.log(1e3))))
    Zi = int(ctx.rng.integers(2, 10))
    zforms = (("tensor returned by normalization", Z, Zf), ("Python float of the normalisation", Zf, Zf), ("numpy float64 of the normalisation", np.float64(Zf), Zf),
              ("Python float", Zr, Zr), ("Python float 2.5", 2.5, 2.5), ("numpy float64", np.float64(Zr), Zr), ("int", Zi, float(Zi)))
    for zname, zarg, zval in zforms:
        ok, pz = ctx.call("probability(space, Z as %s)" % zname, case, lambda: (s.probability(space, zarg), s.probability(space[N - 1], zarg)))
        if not ok:
            continue
        pzn = np.asarray(pz[0].numpy(), dtype=float)
        zcase = dict(case, Z_form=zname, Z=zval)
        ctx.require("probability(v, Z) == probability(v) / Z" + tag, pzn.shape == prob_n.shape and np.allclose(pzn * zval, prob_n, rtol=1e-12, atol=0)
                    and tuple(pz[1].shape) == () and math.isclose(float(pz[1]) * zval, float(prob_n[N - 1]), rel_tol=1e-12), zcase,
                    {"max rel. error": float(np.max(np.abs(pzn * zval - prob_n) / prob_n)) if pzn.shape == prob_n.shape else "shape %r" % (pzn.shape,)})
        if zval == Zf:
            ctx.require("normalised probabilities sum to one" + tag, math.isclose(float(pzn.sum()), 1.0, rel_tol=1e-9), zcase, float(pzn.sum()))
    ctx.require("normalised state has unit norm" + tag, math.isclose(float(mod2.sum() / Zf), 1.0, rel_tol=1e-9), case)
    # ---- documented aliases, other sample dtypes and memory layouts, batches far larger than the basis (gathered rows)
    ok, al = ctx.call("normalisation aliases", case, lambda: (s.compute_normalization(space), s.rbm_am.partition(space)))
    if ok:
        ctx.require("compute_normalization(space) == normalization(space)" + tag, math.isclose(float(al[0]), Zf, rel_tol=1e-12), case, float(al[0]))
        ctx.require("rbm_am.partition(space) == normalization(space)" + tag, math.isclose(float(al[1]), Zf, rel_tol=1e-12), case, float(al[1]))
    convs = (("float32", lambda t: t.float()), ("int64", lambda t: t.long()),
             ("strided view (every second column of a wider table)", lambda t: torch.stack([t, 1 - t], 2).reshape(len(t), -1)[:, ::2]),
             ("column-major", lambda t: t.t().contiguous().t()))
    for dname, conv in convs:
        ok, od = ctx.call("evaluation on a %s batch" % dname, case, lambda: (s.psi(conv(space)), s.probability(conv(space)), s.amplitude(conv(space)),
                                                                            s.phase(conv(space)), s.normalization(conv(space))))
        if ok:
            good = all(same(a.detach().numpy(), b, bd) for a, b, bd in zip(od, (psi_n, prob_n, amp_n, phase_n, np.float64(Zf)), (amp_n, 0.0, 0.0, ph_scale, 0.0)))
            ctx.require("psi / probability / amplitude / phase / normalization do not depend on the dtype or memory layout of the 0/1 batch (%s)" % dname + tag, good, case)
    if tag == "":
        for B in (N + 1, 70001):
            idx = torch.tensor(ctx.rng.integers(0, N, size=B))
            ok, og = ctx.call("evaluation on a gathered batch of %d rows" % B, case, lambda: (s.psi(space[idx]), s.probability(space[idx])))
            if ok:
                ii = idx.numpy()
                good = tuple(og[0].shape) == (2, B) and tuple(og[1].shape) == (B,) and \
                    same(og[0].numpy(), psi_n[:, ii], amp_n[ii]) and same(og[1].numpy(), prob_n[ii])
                ctx.require("each row of a long batch gets the value of its basis state (B=%d)" % B, good, case)
    if kind == "positive":
        ctx.require("positive state is real and > 0" + tag, bool(np.all(psi_n[1] == 0) and np.all(psi_n[0] > 0)), case)
        ctx.require("positive phase is zero" + tag, bool(np.all(phase_n == 0)), case)
    else:
        Eph = gen.np_eff_energy(*ph, sp)
        ctx.require("phase == -E_ph/2" + tag, np.allclose(phase_n, -Eph / 2, rtol=1e-9, atol=1e-12), case)
        want = np.sqrt(marg) * np.exp(1j * (-Eph / 2))
        got = psi_n[0] + 1j * psi_n[1]
        ctx.require("psi == amplitude * exp(i phase)" + tag, np.allclose(got, want, rtol=1e-7, atol=1e-12 * np.abs(want).max()), case)
    # ---- the caller overwrites IN PLACE every tensor the library handed him (they are his), then makes the same calls:
    #      the values are those of the state, not of what the caller did to earlier results
    hcase = dict(case, history="every returned tensor overwritten in place by the caller (t.mul_(0).add_(7)), then the same calls again")
    try:
        overwrite([psi, amp, phase, prob, Z] + [t for (_, _, o1) in ones for t in o1])
        ctx.count("returned_tensors_overwritten_before_the_repeated_call")
    except Exception as e:                      # results that cannot be written to: nothing to examine
        ctx.count("returned_tensors_not_writable:" + type(e).__name__)
    ctx.require("the caller's batch tensor is unchanged by the calls" + tag, tuple(space.shape) == sp.shape and bool(np.array_equal(space.numpy(), sp)), hcase)
    # (comparisons: within rounding of the first results -- 1e-12 relative, plus 1e-12 of the size of the summands where a value
    #  is small through cancellation, since the vector and the batched form need not round alike)
    refs = (psi_n, amp_n, phase_n, prob_n, np.float64(Zf))
    bounds = (amp_n, 0.0, ph_scale, 0.0, 0.0)
    ok, out2 = ctx.call("state evaluation repeated after the caller overwrote the returned tensors" + tag, hcase, lambda: (
        s.psi(space), s.amplitude(space), s.phase(space), s.probability(space), s.normalization(space)))
    if ok:
        for nm, t2, ref, bd in zip(names + ("normalization",), out2, refs, bounds):
            t2n = np.asarray(t2.numpy(), dtype=float)
            ctx.require("%s: same value when called again after the caller overwrote the tensors returned earlier" % nm + tag,
                        same(t2n, ref, bd), hcase, {"again": t2n.tolist(), "first": np.asarray(ref).tolist()})
        try:
            overwrite(out2)
        except Exception:
            pass
    for (i, v1, o1) in ones[:2]:
        ok, o2 = ctx.call("1-D call forms repeated after the caller overwrote the returned tensors" + tag, hcase,
                          lambda: (s.psi(v1), s.amplitude(v1), s.phase(v1), s.probability(v1)))
        if ok:
            for nm, t2, ref, bd in zip(names, o2, (psi_n[:, i], amp_n[i], phase_n[i], prob_n[i]), (amp_n[i], 0.0, ph_scale, 0.0)):
                t2n = np.asarray(t2.numpy(), dtype=float)
                ctx.require("%s (1-D form): same value when called again after the caller overwrote the tensors returned earlier" % nm + tag,
                            same(t2n, ref, bd), hcase, {"row": i, "again": t2n.tolist(), "first": np.asarray(ref).tolist()})
    # each call repeated IMMEDIATELY after its own result was overwritten (a one-entry memo of the last result is stale exactly here)
    vrow = ones[0][1] if ones else space[0]
    irow = ones[0][0] if ones else 0
    for nm, ref, bd in zip(names + ("normalization",), refs, bounds):
        f = getattr(s, nm)
        forms = [("batched", space, ref, bd)] + ([("1-D", vrow, np.asarray(ref)[..., irow], np.asarray(bd)[..., irow] if np.ndim(bd) else bd)] if nm != "normalization" else [])
        for fname, arg, want, wb in forms:
            ok, t1 = ctx.call("%s (%s form)" % (nm, fname) + tag, hcase, lambda: f(arg))
            if not ok:
                continue
            try:
                overwrite([t1])
            except Exception:
                continue
            ok, t2 = ctx.call("%s (%s form) right after its own result was overwritten" % (nm, fname) + tag, hcase, lambda: f(arg))
            if ok:
                t2n = np.asarray(t2.numpy(), dtype=float)
                ctx.require("%s (%s form): same value when the call is repeated right after the caller overwrote its result" % (nm, fname) + tag,
                            same(t2n, want, wb), hcase, {"again": t2n.tolist(), "first": np.asarray(want).tolist()})
    ctx.traces += 1
    return True


def one_case(ctx, kind, nv, nh, zero_bias=False, large=False, replay_params=None, mode="ambient"):
    if mode in ("default_float32", "default_float64"):
        # a calling program sets the default dtype (single precision: torch's own default; double: common in numerical work)
        # once, at its start: the state is also BUILT under it
        with calling_mode(mode):
            return _one_case(ctx, kind, nv, nh, zero_bias, large, replay_params, mode)
    return _one_case(ctx, kind, nv, nh, zero_bias, large, replay_params, mode)


def _one_case(ctx, kind, nv, nh, zero_bias, large, replay_params, mode):
    import torch
    if kind == "positive":
        s, am = gen.make_positive(ctx, nv, nh, zero_bias)
        ph = None
    else:
        s, am, ph = gen.make_complex(ctx, nv, nh, zero_bias)
    if large and not zero_bias:
        am = (am[0], big_bias(ctx, nv), big_bias(ctx, nh))
        gen.set_brbm(s.rbm_am, *am)
        ctx.count("large_biases")
    if replay_params is not None:
        am = tuple(np.array(x, dtype=float) for x in replay_params["am"])
        gen.set_brbm(s.rbm_am, *am)
        if ph is not None and replay_params.get("ph"):
            ph = tuple(np.array(x, dtype=float) for x in replay_params["ph"])
            gen.set_brbm(s.rbm_ph, *ph)
    W, b, c = am
    case = {"state": kind, "nv": nv, "nh": nh, "am": gen.plist(*am), "ph": gen.plist(*ph) if ph else None, "mode": mode}
    # the full basis, enumerated independently of the library (itertools order = big-endian)
    space = torch.tensor(np.array(list(itertools.product([0.0, 1.0], repeat=nv))), dtype=torch.double)
    nontriv = (not zero_bias) and bool(np.all(b != 0) and np.all(c != 0)) and (nh != nv or kind == "complex")
    ctx.count("shape:%dx%d" % (nv, nh)); ctx.count("state:" + kind)
    if not evaluate(ctx, s, kind, am, ph, space, case, nontriv, mode=mode):
        return
    if replay_params is not None:
        return
    # ---- a second parameter setting on the SAME state object and the SAME space tensor (a history, not a fresh state):
    #      parameters are rewritten the three ways user code and load() do it
    how = int(ctx.rng.integers(0, 3))
    am2 = gen.brbm_params(ctx, nv, nh)
    ph2 = gen.brbm_params(ctx, nv, nh) if ph is not None else None
    def write(rbm, W_, b_, c_):
        if how == 0:
            gen.set_brbm(rbm, W_, b_, c_)                                    # .data = new tensor
        elif how == 1:
            rbm.weights.data.copy_(torch.tensor(W_)); rbm.visible_bias.data.copy_(torch.tensor(b_)); rbm.hidden_bias.data.copy_(torch.tensor(c_))
        else:
            rbm.load_state_dict({"weights": torch.tensor(W_), "visible_bias": torch.tensor(b_), "hidden_bias": torch.tensor(c_)})
    write(s.rbm_am, *am2)
    if ph2 is not None:
        write(s.rbm_ph, *ph2)
    ctx.count("rewrite_how:%d" % how)
    case2 = {"state": kind, "nv": nv, "nh": nh, "am": gen.plist(*am2), "ph": gen.plist(*ph2) if ph2 else None,
             "history": "evaluate, rewrite parameters (how=%d), evaluate again on the same object and space" % how, "first_am": case["am"], "mode": mode}
    evaluate(ctx, s, kind, am2, ph2, space, case2, nontriv, tag=" (after rewriting the parameters of the same object)", mode=mode)


# ---------------------------------------------------------------------------------------------------------------------------
# CONSTRUCTION PATHS x WRITE MECHANISMS (black-box seed round 5).  The property speaks of "every parameter setting of a positive or
# complex wavefunction state" and says that the complex modulus depends ONLY on the amplitude network: a state is an object the user
# obtained through any documented construction path and whose networks he then set, each to its own values, through any of the ways
# torch / the library offer.  So: every path below, then the two networks written with DIFFERENT values through every mechanism
# (in place as well as rebinding), in both orders, then ONE network rewritten alone -- and after every step the same independent
# oracle on the values the user set.  (Two networks that share storage, a network that is the user's module twice, a shallow copy,
# a cached zero-bias buffer: all invisible to a harness that only ever builds Cls(nv, nh) and rebinds `.data`.)
PATHS = ("sizes", "default_nh", "module_fresh", "module_preset", "autoload", "load", "setter", "reinit")
PATH_DOC = {"sizes": "Cls(nv, nh)", "default_nh": "Cls(nv) (num_hidden defaults to num_visible)", "module_fresh": "Cls(nv, module=BinaryRBM(nv, nh))",
            "module_preset": "Cls(nv, module=rbm) with rbm's parameters set by the user beforehand", "autoload": "Cls.autoload(file saved by another state)",
            "load": "Cls(nv, nh).load(file saved by another state)", "setter": "Cls(nv, nh), then both networks replaced by fresh BinaryRBMs through the rbm_am / rbm_ph setters",
            "reinit": "Cls(nv, nh), parameters written, then reinitialize_parameters()"}
# ways of giving ONE network new values; all but data_assign / rebind write into the existing parameter tensors
WRITES = ("data_assign", "data_copy_", "copy_no_grad", "rebind", "load_state_dict", "index_assign", "inplace_arith", "sgd_step", "load_file", "gen_set_brbm")
INPLACE = ("data_copy_", "copy_no_grad", "load_state_dict", "index_assign", "inplace_arith", "sgd_step", "load_file")
NAMES = ("weights", "visible_bias", "hidden_bias")
_FILES = itertools.count()


def state_class(kind):
    from qucumber.nn_states import PositiveWaveFunction, ComplexWaveFunction
    return PositiveWaveFunction if kind == "positive" else ComplexWaveFunction


def write_net(rbm, params, how):
    """gives the BinaryRBM `rbm` the values params = (W, b, c) the way `how` says; returns the values the network holds right
    after THIS write (read back only for the optimiser step, which reaches its target up to rounding)"""
    import torch
    ts = [torch.tensor(np.asarray(x, dtype=float), dtype=torch.double) for x in params]
    if how == "gen_set_brbm":                       # the shared writer: uses the network first, then rotates over four mechanisms
        gen.set_brbm(rbm, *[np.asarray(x, dtype=float) for x in params])
    elif how == "load_state_dict":
        rbm.load_state_dict(dict(zip(NAMES, ts)))
    else:
        for name, t in zip(NAMES, ts):
            p = getattr(rbm, name)
            if how == "data_assign":
                p.data = t
            elif how == "data_copy_":
                p.data.copy_(t)
            elif how == "copy_no_grad":
                with torch.no_grad():
                    p.copy_(t)
            elif how == "rebind":
                setattr(rbm, name, torch.nn.Parameter(t, requires_grad=p.requires_grad))
            elif how == "index_assign":
                p.data[...] = t
            elif how == "inplace_arith":
                p.data.mul_(0).add_(t)
            elif how == "sgd_step":                 # what fit does: the library's gradient into .grad, then optimizer.step()
                p.grad = p.data - t
                torch.optim.SGD([p], lr=1.0).step()
                p.grad = None
            else:
                raise ValueError(how)
    if how == "sgd_step":
        return tuple(getattr(rbm, n).detach().numpy().astype(float).copy() for n in NAMES)
    return tuple(np.asarray(x, dtype=float) for x in params)


def saved_file(ctx, kind, nv, nh, am, ph):
    """a parameter file written by ANOTHER state of the same type (built through sizes) that holds (am, ph)"""
    import os
    donor = state_class(kind)(nv, nh, gpu=False)
    write_net(donor.rbm_am, am, "data_assign")
    if kind == "complex":
        write_net(donor.rbm_ph, ph, "data_assign")
    path = os.path.join(ctx.scratch, "c01_state_%d.pt" % next(_FILES))
    donor.save(path)
    return path


def build(ctx, kind, nv, nh, path, pre_am, pre_ph, how_pre):
    from qucumber.rbm import BinaryRBM
    Cls = state_class(kind)
    if path == "sizes":
        return Cls(nv, nh, gpu=False)
    if path == "default_nh":
        return Cls(nv, gpu=False)
    if path == "module_fresh":
        return Cls(nv, gpu=False, module=BinaryRBM(nv, nh, gpu=False))
    if path == "module_preset":
        rbm = BinaryRBM(nv, nh, gpu=False)
        write_net(rbm, pre_am, how_pre if how_pre != "load_file" else "load_state_dict")
        return Cls(nv, gpu=False, module=rbm)
    if path == "autoload":
        return Cls.autoload(saved_file(ctx, kind, nv, nh, pre_am, pre_ph), gpu=False)
    if path == "load":
        s = Cls(nv, nh, gpu=False)
        s.load(saved_file(ctx, kind, nv, nh, pre_am, pre_ph))
        return s
    if path == "setter":
        s = Cls(nv, nh, gpu=False)
        s.rbm_am = BinaryRBM(nv, nh, gpu=False)
        if kind == "complex":
            s.rbm_ph = BinaryRBM(nv, nh, gpu=False)
        return s
    if path == "reinit":
        s = Cls(nv, nh, gpu=False)
        write_net(s.rbm_am, pre_am, "data_copy_")
        if kind == "complex":
            write_net(s.rbm_ph, pre_ph, "data_copy_")
        s.reinitialize_parameters()
        return s
    raise ValueError(path)


def make_recipe(ctx, kind, nv, nh, path, how_am, how_ph, order, steps, how_am2=None, how_ph2=None, large=False):
    """everything a construction case needs, drawn up front (the recipe is the replayable identity of the case)"""
    def draw():
        W, b, c = gen.brbm_params(ctx, nv, nh)
        if large:
            b, c = big_bias(ctx, nv), big_bias(ctx, nh)
        return gen.plist(W, b, c)
    inpl = [h for h in INPLACE]
    return {"construction": path, "state": kind, "nv": nv, "nh": nh, "how_am": how_am, "how_ph": how_ph, "order": order, "steps": steps,
            "how_preset": how_am, "how_am2": how_am2 or inpl[int(ctx.rng.integers(len(inpl)))], "how_ph2": how_ph2 or inpl[int(ctx.rng.integers(len(inpl)))],
            "preset_am": draw(), "preset_ph": draw(), "set_am": draw(), "set_ph": draw(), "set_am2": draw(), "set_ph2": draw()}


def run_recipe(ctx, r):
    """build the state through r['construction'], set the networks as the recipe says, evaluate against the values SET"""
    import torch
    kind, nv, nh, path = r["state"], int(r["nv"]), int(r["nh"]), r["construction"]
    cplx = kind == "complex"
    arr = lambda k: tuple(np.array(x, dtype=float) for x in r[k])
    space = torch.tensor(np.array(list(itertools.product([0.0, 1.0], repeat=nv))), dtype=torch.double)
    nontriv = nh != nv or cplx
    ctx.count("construction:" + path); ctx.count("construction_state:" + kind); ctx.count("construction_shape:%dx%d" % (nv, nh))
    ok, s = ctx.call("building the state: " + PATH_DOC[path], r, lambda: build(ctx, kind, nv, nh, path, arr("preset_am"), arr("preset_ph"), r["how_preset"]))
    if not ok:
        return
    cur = {"am": None, "ph": None}                  # the values the USER set (None: whatever the library initialised)

    def ev(step):
        case = dict(r, am=gen.plist(*cur["am"]), ph=gen.plist(*cur["ph"]) if cplx else None, step=step, mode="ambient")
        tag = " [state built as %s; %s]" % (PATH_DOC[path], step)
        return evaluate(ctx, s, kind, cur["am"], cur["ph"] if cplx else None, space, case, nontriv, tag=tag)

    def put(net, params, how):
        """one network of s gets new values"""
        ctx.count("write:" + how)
        if how == "load_file":                      # a checkpoint that differs from the state in this network only / in both
            want = dict(cur); want[net] = params
            if want["am"] is None or (cplx and want["ph"] is None):
                how = "load_state_dict"
            else:
                s.load(saved_file(ctx, kind, nv, nh, want["am"], want["ph"]))
                cur[net] = params
                return
        cur[net] = write_net(s.rbm_am if net == "am" else s.rbm_ph, params, how)

    def guarded(what, fn):
        ok, _ = ctx.call(what, dict(r, step=what), fn)
        return ok

    if path in ("autoload", "load"):
        cur["am"], cur["ph"] = arr("preset_am"), arr("preset_ph")
        if not ev("as loaded from the file") or r["steps"] == "one":
            return
    if path == "module_preset":
        cur["am"] = arr("preset_am")                # the amplitude network IS the user's module: it has the values he gave it
        if cplx:
            if not guarded("writing the phase network (%s)" % r["how_ph"], lambda: put("ph", arr("set_ph"), r["how_ph"])):
                return
            step = "amplitude network as handed over in module=, phase network written (%s)" % r["how_ph"]
        else:
            step = "amplitude network as handed over in module="
    else:
        seq = [("am", "set_am", r["how_am"])] + ([("ph", "set_ph", r["how_ph"])] if cplx else [])
        if r["order"] == "ph->am":
            seq.reverse()
        if r["how_am"] == "load_file" and r["how_ph"] == "load_file" and cplx:      # one checkpoint holding both
            cur["am"], cur["ph"] = arr("set_am"), arr("set_ph")
            if not guarded("load(file)", lambda: s.load(saved_file(ctx, kind, nv, nh, cur["am"], cur["ph"]))):
                return
            ctx.count("write:load_file(both)")
        else:
            for net, key, how in seq:
                if not guarded("writing the %s network (%s)" % (net, how), lambda: put(net, arr(key), how)):
                    return
        step = "networks written %s (%s)" % (r["order"] if cplx else "", ", ".join("%s: %s" % (n, h) for n, _, h in seq))
    if not ev(step) or r["steps"] == "one":
        return
    # ---- ONE network rewritten alone, in place: the other network's observables do not move
    finite = lambda xs: all(bool(np.all(np.isfinite(x))) for x in xs)

    def observe():
        ok, o = ctx.call("amplitude / probability / normalization / phase", r, lambda: (
            s.amplitude(space), s.probability(space), s.normalization(space), s.phase(space)))
        return [np.asarray(t.detach().numpy(), dtype=float).copy() for t in o] if ok else None
    if cplx:
        before = observe()
        if before is None or not guarded("rewriting the phase network alone (%s)" % r["how_ph2"], lambda: put("ph", arr("set_ph2"), r["how_ph2"])):
            return
        after = observe()
        if after is None:
            return
        hcase = dict(r, am=gen.plist(*cur["am"]), ph=gen.plist(*cur["ph"]), step="only the phase network rewritten (%s)" % r["how_ph2"])
        if finite(before[:3] + after[:3]):
            ctx.require("the modulus depends only on the amplitude network: amplitude / probability / normalization unchanged when only the phase network is rewritten",
                        all(same(a, b) for a, b in zip(after[:3], before[:3])), hcase,
                        {"amplitude before": before[0].tolist(), "after": after[0].tolist()})
        else:
            ctx.count("skipped_overflow")
        if not ev("then only the phase network rewritten (%s)" % r["how_ph2"]):
            return
    before = observe()
    if before is None or not guarded("rewriting the amplitude network alone (%s)" % r["how_am2"], lambda: put("am", arr("set_am2"), r["how_am2"])):
        return
    after = observe()
    if after is None:
        return
    if cplx:
        hcase = dict(r, am=gen.plist(*cur["am"]), ph=gen.plist(*cur["ph"]), step="only the amplitude network rewritten (%s)" % r["how_am2"])
        if finite([before[3], after[3]]):
            ctx.require("the phase depends only on the phase network: phase unchanged when only the amplitude network is rewritten",
                        same(after[3], before[3]), hcase, {"phase before": before[3].tolist(), "after": after[3].tolist()})
        else:
            ctx.count("skipped_overflow")
    ev("then only the amplitude network rewritten (%s)" % r["how_am2"])


def applicable_paths(nv, nh):
    return [p for p in PATHS if p != "default_nh" or nh == nv]


def fixed_constructions(ctx):
    """always first.  (A) EVERY architecture nv 1..5 x nh 1..6, both state types: one state each, construction path / write mechanisms /
    order rotating (offsets from the seed), one evaluation.  (B) every construction path x every write mechanism (the same mechanism for
    both networks, so that nothing un-shares them before the second write lands), complex and positive, small architectures rotating,
    orders alternating; complex cases go on to rewrite each network alone."""
    off = [int(x) for x in ctx.rng.integers(0, 1000, size=4)]
    i = 0
    for nv in range(1, 6):
        for nh in range(1, 7):
            for kind in ("complex", "positive"):
                ctx.torch_seed()
                paths = applicable_paths(nv, nh)
                path = paths[(i + off[0]) % len(paths)]
                if nh == nv and (kind == "complex") == (nv % 2 == 1):
                    path = "default_nh"
                r = make_recipe(ctx, kind, nv, nh, path, WRITES[(i + off[1]) % len(WRITES)], WRITES[(i // 2 + off[2]) % len(WRITES)],
                                "am->ph" if (i + off[3]) % 2 == 0 else "ph->am", "one", large=(i % 5 == 4))
                run_recipe(ctx, r)
                i += 1
    small = [(2, 3), (3, 2), (1, 1), (2, 1), (1, 3), (3, 1), (2, 2)]
    j = 0
    for path in PATHS:
        for how in WRITES:
            for kind in ("complex", "positive"):
                if kind == "positive" and j % 3 != 0 and path not in ("module_fresh", "module_preset"):
                    j += 1
                    continue                        # one network only: every path x a third of the mechanisms (module=: all)
                nv, nh = small[j % len(small)] if path != "default_nh" else ((2, 2), (1, 1), (3, 3))[j % 3]
                ctx.torch_seed()
                inpl = INPLACE[j % len(INPLACE)], INPLACE[(j // 2 + 3) % len(INPLACE)]
                r = make_recipe(ctx, kind, nv, nh, path, how, how, "am->ph" if j % 2 == 0 else "ph->am", "all" if kind == "complex" or path.startswith("module") else "one",
                                how_am2=inpl[0], how_ph2=inpl[1])
                run_recipe(ctx, r)
                j += 1


def fixed_regimes(ctx):
    """always first: both state types under every regime of the calling program (no_grad / inference_mode / enable_grad /
    default dtype float32 / float64), incl. large biases; each case carries the shape, Z-encoding, layout and overwrite relations"""
    for i, mode in enumerate(MODES[1:]):
        for kind in ("complex", "positive"):
            ctx.torch_seed()
            one_case(ctx, kind, 3 if kind == "complex" else 2, 2 if kind == "complex" else 3, large=(i % 2 == 1), mode=mode)


def random_construction(ctx, kind, nv, nh, large=False):
    paths = applicable_paths(nv, nh)
    pick = lambda xs: xs[int(ctx.rng.integers(len(xs)))]
    run_recipe(ctx, make_recipe(ctx, kind, nv, nh, pick(paths), pick(WRITES), pick(WRITES), pick(("am->ph", "ph->am")), "all", large=large))


def run(ctx):
    fixed_constructions(ctx)
    fixed_regimes(ctx)
    draws = 10 if ctx.thorough else 3
    k = 0
    for (nv, nh) in shapes(ctx):
        for kind in ("positive", "complex"):
            for d in range(draws // 3):             # the stream of construction path x write mechanisms x order
                ctx.torch_seed()
                random_construction(ctx, kind, nv, nh, large=(d % 2 == 1))
            for d in range(draws):
                ctx.torch_seed()
                mode = "ambient"
                if d % 3 == 1:                      # every third draw: another regime of the calling program
                    mode = MODES[1 + k % (len(MODES) - 1)]
                    k += 1
                one_case(ctx, kind, nv, nh, large=(d % 3 == 2), mode=mode)
    # a few fresh-initialisation style cases (zero biases), the only regime the test-suite visits
    for kind in ("positive", "complex"):
        one_case(ctx, kind, 2, 2, zero_bias=True)


def search(ctx, broken, budget):
    """Wider oracle sweep when proof or correspondence broke: all small shapes, more draws."""
    import time
    t0 = time.time()
    n0 = len(ctx.failures)
    fixed_constructions(ctx)
    if len(ctx.failures) > n0:
        return ctx.failures[n0]
    fixed_regimes(ctx)
    if len(ctx.failures) > n0:
        return ctx.failures[n0]
    for (nv, nh) in [(nv, nh) for nv in range(1, 5) for nh in range(1, 5)]:
        for kind in ("positive", "complex"):
            for d in range(4):
                one_case(ctx, kind, nv, nh, mode=MODES[d % len(MODES)] if d else "ambient")
                if len(ctx.failures) > n0:
                    return ctx.failures[n0]
                if time.time() - t0 > budget:
                    return None
    return None


def replay(ctx, rec):
    """re-executes exactly the recorded failing case (parameters are stored in the replay file)"""
    case = rec.get("failing", {}).get("case", {})
    if case.get("construction"):
        run_recipe(ctx, case)
    elif case.get("am"):
        one_case(ctx, case.get("state", "positive"), int(case["nv"]), int(case["nh"]), replay_params=case, mode=case.get("mode") or "ambient")
    else:
        run(ctx)
