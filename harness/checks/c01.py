"""C01 — Born rule for wavefunction states.
Correspondence: psi / amplitude / phase / probability / normalization of real Positive/ComplexWaveFunction
objects vs the extracted Coq model (States.pos_psi, cplx_psi, ...), on all 2^n basis states, 2-D and 1-D forms.
Oracle (property relation on the implementation's own outputs): |psi|^2 = probability = brute-force hidden
marginal; normalization = sum of probabilities; complex modulus independent of the phase net; phase = -E_ph/2
(E_ph computed independently in numpy); positive state real and > 0.
Regimes of the CALLING PROGRAM (red-team round 2): every relation is also evaluated with the library calls made under
torch.no_grad(), torch.inference_mode(), torch.enable_grad() and torch.set_default_dtype(float32 / float64); the 1-D call
forms must return ONE entry of the batched result (same shape as indexing it); the normalisation constant is handed
to probability(v, Z) as Python float / numpy float / int / tensor; batches are also strided views; every returned
tensor is overwritten in place by the caller (it is his) and the same calls are repeated."""
import contextlib, itertools, math
import numpy as np
import gen

RULE = ("architectures nv 1..5 x nh 1..6 (quick: covering subset incl. nh != nv, size-1 dims; thorough: all 30), "
        "parameter draws from the mixture in harness/gen.py, all 2^n basis states, batched and 1-D call forms (values AND shapes; "
        "contiguous, strided and column-major batches; double / float32 / int64 0-1 data); fixed cases first: both state types x "
        "calling modes {no_grad, inference_mode, enable_grad, default dtype float32 / float64 (state built and used under it)}, then the stream "
        "in which every third draw rotates through these modes; Z of probability(v, Z) as tensor / Python float (log-uniform) / "
        "numpy float64 / int; every returned tensor overwritten in place by the caller, then the same calls again; "
        "a case is (state type, nv, nh, parameter draw, calling mode); non-trivial := all biases non-zero and (nh != nv or complex)")
ASSUMPTIONS = ["torch softplus/logsumexp/matmul implement the real functions up to rounding",
               "Z of probability(v, Z) is a Python / numpy real number, an int or a 0-dim double tensor (the documented type is float); "
               "single-precision tensors as Z are not generated"]

# the regimes of the calling program under which the library is called ("ambient" = whatever the driver set: grad enabled,
# or -- every third quick seed / second thorough pass -- the whole run under no_grad)
MODES = ["ambient", "no_grad", "inference_mode", "enable_grad", "default_float32", "default_float64"]


@contextlib.contextmanager
def calling_mode(mode):
    import torch
    if mode == "no_grad":
        with torch.no_grad():
            yield
    elif mode == "inference_mode":
        with torch.inference_mode():
            yield
    elif mode == "enable_grad":
        with torch.enable_grad():
            yield
    elif mode in ("default_float32", "default_float64"):
        old = torch.get_default_dtype()
        torch.set_default_dtype(torch.float32 if mode == "default_float32" else torch.float64)
        try:
            yield
        finally:
            torch.set_default_dtype(old)
    else:
        yield


def shapes(ctx):
    if ctx.thorough:
        return [(nv, nh) for nv in range(1, 6) for nh in range(1, 7)]
    return [(1, 1), (1, 3), (2, 1), (2, 3), (3, 2), (3, 5), (4, 4), (5, 6), (4, 2)]


def hidden_marginal(W, b, c, v):
    nh = len(c)
    tot = 0.0
    for h in itertools.product([0.0, 1.0], repeat=nh):
        h = np.array(h)
        tot += math.exp(float(v @ b + c @ h + h @ W @ v))
    return tot


def big_bias(ctx, n):
    """biases with a few entries of magnitude up to ~30 (the quantifier's range), the rest O(1)"""
    x = gen.nonzero_bias(ctx, n)
    k = max(1, n // 2)
    ii = ctx.rng.choice(n, size=k, replace=False)
    x[ii] = np.exp(ctx.rng.uniform(np.log(3.0), np.log(30.0), size=k)) * ctx.rng.choice([-1.0, 1.0], size=k)
    return x


def evaluate(ctx, s, kind, am, ph, space, case, nontriv, tag="", mode="ambient"):
    """correspondence + oracle for the state object s holding parameters am (and ph); space: full basis tensor;
    every library call is made under the calling program's regime `mode`"""
    with calling_mode(mode):
        return _evaluate(ctx, s, kind, am, ph, space, case, nontriv, tag, mode)


def same(a, b, bound=0.0):
    """same shape and |a - b| <= 1e-12 |b| + 1e-12 bound elementwise (bound: size of the summands behind b, so that a result that
    is small only through cancellation is not held to a relative tolerance)"""
    a, b = np.asarray(a, dtype=float), np.asarray(b, dtype=float)
    return a.shape == b.shape and bool(np.all(np.abs(a - b) <= 1e-12 * np.abs(b) + 1e-12 * np.asarray(bound)))


def entry_shape(t, i):
    """shape of ONE entry of a batched result (what the vector call form must return)"""
    return tuple(t[..., i].shape)


def overwrite(ts):
    """the caller scribbles over tensors the library returned to him"""
    import torch
    with torch.no_grad():
        for t in ts:
            t.mul_(0).add_(7)


def _evaluate(ctx, s, kind, am, ph, space, case, nontriv, tag, mode):
    import torch
    m = ctx.get_model()
    W, b, c = am
    sp = space.numpy().copy()
    N = len(sp)
    E = gen.np_eff_energy(W, b, c, sp)
    if np.max(-E) > 600 or np.min(-E) < -600 or (ph is not None and np.max(np.abs(gen.np_eff_energy(*ph, sp))) > 1e6):
        ctx.count("skipped_overflow")
        return False
    ctx.case({"state": kind, "nv": case["nv"], "nh": case["nh"], "W00": float(W[0, 0]), "b0": float(b[0]), "c0": float(c[0]), "step": tag,
              "mode": mode}, nontrivial=nontriv)
    ctx.count("mode:" + mode)
    # size of the summands of the phase (a rounding-level difference between two evaluation orders is relative to it)
    ph_scale = 0.0 if ph is None else 0.5 * float(sum(np.abs(x).sum() for x in ph))
    ok, out = ctx.call("state evaluation" + tag, case, lambda: (
        s.psi(space), s.amplitude(space), s.phase(space), s.probability(space), s.normalization(space)))
    if not ok:
        return False
    psi, amp, phase, prob, Z = out
    shp = [tuple(t.shape) for t in (psi, amp, phase, prob)]
    if not ctx.require("batched call form: psi has shape (2, N), amplitude / phase / probability shape (N,)" + tag,
                       shp == [(2, N), (N,), (N,), (N,)], case, shp):
        return False
    # ---- correspondence with the Coq model
    if kind == "positive":
        r = m.call("pos_state", W, b, c, sp)
    else:
        r = m.call("cplx_state", W, b, c, ph[0], ph[1], ph[2], sp)
    m_amp, m_phase, m_psi, m_prob, m_Z = r
    ctx.agree("amplitude" + tag, amp, m_amp, case)
    ctx.agree("phase" + tag, phase, m_phase, case)
    ctx.agree("psi.re" + tag, psi[0], [p[0] for p in m_psi], case, scale=max(m_amp))
    ctx.agree("psi.im" + tag, psi[1], [p[1] for p in m_psi], case, scale=max(m_amp))
    ctx.agree("probability" + tag, prob, m_prob, case)
    ctx.agree("normalization" + tag, Z, m_Z, case)
    # 1-D call forms: ONE entry of the batched form (value and shape); the vector is a fresh row, and a strided one
    # (a column of the transposed, column-major copy of the basis)
    spT = space.t().contiguous()
    ones = []
    names = ("psi", "amplitude", "phase", "probability")
    for j, i in enumerate((0, N - 1, N // 2)):
        v1 = space[i] if j != 1 else spT[:, i]
        ok, o1 = ctx.call("1-D call forms", case, lambda: (s.psi(v1), s.amplitude(v1), s.phase(v1), s.probability(v1)))
        if ok:
            ones.append((i, v1, o1))
            got = [tuple(t.shape) for t in o1]
            want = [entry_shape(t, i) for t in (psi, amp, phase, prob)]
            if not ctx.require("1-D call forms return one entry of the batched result: psi(v) of shape (2,), amplitude / phase / "
                               "probability 0-dim" + tag, got == want, case, {"shapes": got, "want": want, "row": i}):
                continue
            ctx.agree("psi 1-D" + tag, o1[0], [m_psi[i][0], m_psi[i][1]], case, scale=max(m_amp))
            ctx.agree("amplitude 1-D" + tag, o1[1], m_amp[i], case)
            ctx.agree("phase 1-D" + tag, o1[2], m_phase[i], case)
            ctx.agree("probability 1-D" + tag, o1[3], m_prob[i], case)
            good = all(same(o.numpy(), t[..., i].numpy(), bd) for o, t, bd in zip(o1, (psi, amp, phase, prob), (amp[i].item(), 0.0, ph_scale, 0.0)))
            ctx.require("1-D call forms give the value of the batched form at that basis state" + tag, good, case,
                        {"row": i, "1-D": [o.tolist() for o in o1]})
    # ---- property oracle on the implementation's own outputs (copies: the tensors are overwritten further down)
    psi_n = psi.numpy().copy(); prob_n = prob.numpy().copy(); amp_n = amp.numpy().copy(); phase_n = phase.numpy().copy()
    Zf = float(Z)
    mod2 = psi_n[0] ** 2 + psi_n[1] ** 2
    ctx.require("|psi|^2 == probability" + tag, np.allclose(mod2, prob_n, rtol=1e-9, atol=0), case, (mod2 - prob_n).tolist())
    marg = np.array([hidden_marginal(W, b, c, v) for v in sp])
    ctx.require("probability == hidden-unit marginal" + tag, np.allclose(prob_n, marg, rtol=1e-7, atol=0), case,
                {"prob": prob_n.tolist(), "marginal": marg.tolist()})
    ctx.require("normalization == sum of probabilities" + tag, math.isclose(Zf, float(prob_n.sum()), rel_tol=1e-9), case,
                {"Z": Zf, "sum": float(prob_n.sum())})
    ctx.require("normalization == sum of hidden-unit marginals over the whole basis" + tag, math.isclose(Zf, float(marg.sum()), rel_tol=1e-7), case,
                {"Z": Zf, "sum": float(marg.sum())})
    ctx.require("amplitude == sqrt(probability)" + tag, np.allclose(amp_n ** 2, marg, rtol=1e-7, atol=0), case)
    # probability(v, Z): the normalised probabilities sum to one, and scale as 1/Z -- Z handed over as the tensor the
    # library returned, as a Python float (the documented type; the state's own normalisation and a log-uniform one),
    # as a numpy float and as an int
    Zr = float(np.exp(ctx.rng.uniform(np.log(1e-3), np.log(1e3))))
    Zi = int(ctx.rng.integers(2, 10))
    zforms = (("tensor returned by normalization", Z, Zf), ("Python float of the normalisation", Zf, Zf), ("numpy float64 of the normalisation", np.float64(Zf), Zf),
              ("Python float", Zr, Zr), ("Python float 2.5", 2.5, 2.5), ("numpy float64", np.float64(Zr), Zr), ("int", Zi, float(Zi)))
    for zname, zarg, zval in zforms:
        ok, pz = ctx.call("probability(space, Z as %s)" % zname, case, lambda: (s.probability(space, zarg), s.probability(space[N - 1], zarg)))
        if not ok:
            continue
        pzn = np.asarray(pz[0].numpy(), dtype=float)
        zcase = dict(case, Z_form=zname, Z=zval)
        ctx.require("probability(v, Z) == probability(v) / Z" + tag, pzn.shape == prob_n.shape and np.allclose(pzn * zval, prob_n, rtol=1e-12, atol=0)
                    and tuple(pz[1].shape) == () and math.isclose(float(pz[1]) * zval, float(prob_n[N - 1]), rel_tol=1e-12), zcase,
                    {"max rel. error": float(np.max(np.abs(pzn * zval - prob_n) / prob_n)) if pzn.shape == prob_n.shape else "shape %r" % (pzn.shape,)})
        if zval == Zf:
            ctx.require("normalised probabilities sum to one" + tag, math.isclose(float(pzn.sum()), 1.0, rel_tol=1e-9), zcase, float(pzn.sum()))
    ctx.require("normalised state has unit norm" + tag, math.isclose(float(mod2.sum() / Zf), 1.0, rel_tol=1e-9), case)
    # ---- documented aliases, other sample dtypes and memory layouts, batches far larger than the basis (gathered rows)
    ok, al = ctx.call("normalisation aliases", case, lambda: (s.compute_normalization(space), s.rbm_am.partition(space)))
    if ok:
        ctx.require("compute_normalization(space) == normalization(space)" + tag, math.isclose(float(al[0]), Zf, rel_tol=1e-12), case, float(al[0]))
        ctx.require("rbm_am.partition(space) == normalization(space)" + tag, math.isclose(float(al[1]), Zf, rel_tol=1e-12), case, float(al[1]))
    convs = (("float32", lambda t: t.float()), ("int64", lambda t: t.long()),
             ("strided view (every second column of a wider table)", lambda t: torch.stack([t, 1 - t], 2).reshape(len(t), -1)[:, ::2]),
             ("column-major", lambda t: t.t().contiguous().t()))
    for dname, conv in convs:
        ok, od = ctx.call("evaluation on a %s batch" % dname, case, lambda: (s.psi(conv(space)), s.probability(conv(space)), s.amplitude(conv(space)),
                                                                            s.phase(conv(space)), s.normalization(conv(space))))
        if ok:
            good = all(same(a.detach().numpy(), b, bd) for a, b, bd in zip(od, (psi_n, prob_n, amp_n, phase_n, np.float64(Zf)), (amp_n, 0.0, 0.0, ph_scale, 0.0)))
            ctx.require("psi / probability / amplitude / phase / normalization do not depend on the dtype or memory layout of the 0/1 batch (%s)" % dname + tag, good, case)
    if tag == "":
        for B in (N + 1, 70001):
            idx = torch.tensor(ctx.rng.integers(0, N, size=B))
            ok, og = ctx.call("evaluation on a gathered batch of %d rows" % B, case, lambda: (s.psi(space[idx]), s.probability(space[idx])))
            if ok:
                ii = idx.numpy()
                good = tuple(og[0].shape) == (2, B) and tuple(og[1].shape) == (B,) and \
                    same(og[0].numpy(), psi_n[:, ii], amp_n[ii]) and same(og[1].numpy(), prob_n[ii])
                ctx.require("each row of a long batch gets the value of its basis state (B=%d)" % B, good, case)
    if kind == "positive":
        ctx.require("positive state is real and > 0" + tag, bool(np.all(psi_n[1] == 0) and np.all(psi_n[0] > 0)), case)
        ctx.require("positive phase is zero" + tag, bool(np.all(phase_n == 0)), case)
    else:
        Eph = gen.np_eff_energy(*ph, sp)
        ctx.require("phase == -E_ph/2" + tag, np.allclose(phase_n, -Eph / 2, rtol=1e-9, atol=1e-12), case)
        want = np.sqrt(marg) * np.exp(1j * (-Eph / 2))
        got = psi_n[0] + 1j * psi_n[1]
        ctx.require("psi == amplitude * exp(i phase)" + tag, np.allclose(got, want, rtol=1e-7, atol=1e-12 * np.abs(want).max()), case)
    # ---- the caller overwrites IN PLACE every tensor the library handed him (they are his), then makes the same calls:
    #      the values are those of the state, not of what the caller did to earlier results
    hcase = dict(case, history="every returned tensor overwritten in place by the caller (t.mul_(0).add_(7)), then the same calls again")
    try:
        overwrite([psi, amp, phase, prob, Z] + [t for (_, _, o1) in ones for t in o1])
        ctx.count("returned_tensors_overwritten_before_the_repeated_call")
    except Exception as e:                      # results that cannot be written to: nothing to examine
        ctx.count("returned_tensors_not_writable:" + type(e).__name__)
    ctx.require("the caller's batch tensor is unchanged by the calls" + tag, tuple(space.shape) == sp.shape and bool(np.array_equal(space.numpy(), sp)), hcase)
    # (comparisons: within rounding of the first results -- 1e-12 relative, plus 1e-12 of the size of the summands where a value
    #  is small through cancellation, since the vector and the batched form need not round alike)
    refs = (psi_n, amp_n, phase_n, prob_n, np.float64(Zf))
    bounds = (amp_n, 0.0, ph_scale, 0.0, 0.0)
    ok, out2 = ctx.call("state evaluation repeated after the caller overwrote the returned tensors" + tag, hcase, lambda: (
        s.psi(space), s.amplitude(space), s.phase(space), s.probability(space), s.normalization(space)))
    if ok:
        for nm, t2, ref, bd in zip(names + ("normalization",), out2, refs, bounds):
            t2n = np.asarray(t2.numpy(), dtype=float)
            ctx.require("%s: same value when called again after the caller overwrote the tensors returned earlier" % nm + tag,
                        same(t2n, ref, bd), hcase, {"again": t2n.tolist(), "first": np.asarray(ref).tolist()})
        try:
            overwrite(out2)
        except Exception:
            pass
    for (i, v1, o1) in ones[:2]:
        ok, o2 = ctx.call("1-D call forms repeated after the caller overwrote the returned tensors" + tag, hcase,
                          lambda: (s.psi(v1), s.amplitude(v1), s.phase(v1), s.probability(v1)))
        if ok:
            for nm, t2, ref, bd in zip(names, o2, (psi_n[:, i], amp_n[i], phase_n[i], prob_n[i]), (amp_n[i], 0.0, ph_scale, 0.0)):
                t2n = np.asarray(t2.numpy(), dtype=float)
                ctx.require("%s (1-D form): same value when called again after the caller overwrote the tensors returned earlier" % nm + tag,
                            same(t2n, ref, bd), hcase, {"row": i, "again": t2n.tolist(), "first": np.asarray(ref).tolist()})
    # each call repeated IMMEDIATELY after its own result was overwritten (a one-entry memo of the last result is stale exactly here)
    vrow = ones[0][1] if ones else space[0]
    irow = ones[0][0] if ones else 0
    for nm, ref, bd in zip(names + ("normalization",), refs, bounds):
        f = getattr(s, nm)
        forms = [("batched", space, ref, bd)] + ([("1-D", vrow, np.asarray(ref)[..., irow], np.asarray(bd)[..., irow] if np.ndim(bd) else bd)] if nm != "normalization" else [])
        for fname, arg, want, wb in forms:
            ok, t1 = ctx.call("%s (%s form)" % (nm, fname) + tag, hcase, lambda: f(arg))
            if not ok:
                continue
            try:
                overwrite([t1])
            except Exception:
                continue
            ok, t2 = ctx.call("%s (%s form) right after its own result was overwritten" % (nm, fname) + tag, hcase, lambda: f(arg))
            if ok:
                t2n = np.asarray(t2.numpy(), dtype=float)
                ctx.require("%s (%s form): same value when the call is repeated right after the caller overwrote its result" % (nm, fname) + tag,
                            same(t2n, want, wb), hcase, {"again": t2n.tolist(), "first": np.asarray(want).tolist()})
    ctx.traces += 1
    return True


def one_case(ctx, kind, nv, nh, zero_bias=False, large=False, replay_params=None, mode="ambient"):
    if mode in ("default_float32", "default_float64"):
        # a calling program sets the default dtype (single precision: torch's own default; double: common in numerical work)
        # once, at its start: the state is also BUILT under it
        with calling_mode(mode):
            return _one_case(ctx, kind, nv, nh, zero_bias, large, replay_params, mode)
    return _one_case(ctx, kind, nv, nh, zero_bias, large, replay_params, mode)


def _one_case(ctx, kind, nv, nh, zero_bias, large, replay_params, mode):
    import torch
    if kind == "positive":
        s, am = gen.make_positive(ctx, nv, nh, zero_bias)
        ph = None
    else:
        s, am, ph = gen.make_complex(ctx, nv, nh, zero_bias)
    if large and not zero_bias:
        am = (am[0], big_bias(ctx, nv), big_bias(ctx, nh))
        gen.set_brbm(s.rbm_am, *am)
        ctx.count("large_biases")
    if replay_params is not None:
        am = tuple(np.array(x, dtype=float) for x in replay_params["am"])
        gen.set_brbm(s.rbm_am, *am)
        if ph is not None and replay_params.get("ph"):
            ph = tuple(np.array(x, dtype=float) for x in replay_params["ph"])
            gen.set_brbm(s.rbm_ph, *ph)
    W, b, c = am
    case = {"state": kind, "nv": nv, "nh": nh, "am": gen.plist(*am), "ph": gen.plist(*ph) if ph else None, "mode": mode}
    # the full basis, enumerated independently of the library (itertools order = big-endian)
    space = torch.tensor(np.array(list(itertools.product([0.0, 1.0], repeat=nv))), dtype=torch.double)
    nontriv = (not zero_bias) and bool(np.all(b != 0) and np.all(c != 0)) and (nh != nv or kind == "complex")
    ctx.count("shape:%dx%d" % (nv, nh)); ctx.count("state:" + kind)
    if not evaluate(ctx, s, kind, am, ph, space, case, nontriv, mode=mode):
        return
    if replay_params is not None:
        return
    # ---- a second parameter setting on the SAME state object and the SAME space tensor (a history, not a fresh state):
    #      parameters are rewritten the three ways user code and load() do it
    how = int(ctx.rng.integers(0, 3))
    am2 = gen.brbm_params(ctx, nv, nh)
    ph2 = gen.brbm_params(ctx, nv, nh) if ph is not None else None
    def write(rbm, W_, b_, c_):
        if how == 0:
            gen.set_brbm(rbm, W_, b_, c_)                                    # .data = new tensor
        elif how == 1:
            rbm.weights.data.copy_(torch.tensor(W_)); rbm.visible_bias.data.copy_(torch.tensor(b_)); rbm.hidden_bias.data.copy_(torch.tensor(c_))
        else:
            rbm.load_state_dict({"weights": torch.tensor(W_), "visible_bias": torch.tensor(b_), "hidden_bias": torch.tensor(c_)})
    write(s.rbm_am, *am2)
    if ph2 is not None:
        write(s.rbm_ph, *ph2)
    ctx.count("rewrite_how:%d" % how)
    case2 = {"state": kind, "nv": nv, "nh": nh, "am": gen.plist(*am2), "ph": gen.plist(*ph2) if ph2 else None,
             "history": "evaluate, rewrite parameters (how=%d), evaluate again on the same object and space" % how, "first_am": case["am"], "mode": mode}
    evaluate(ctx, s, kind, am2, ph2, space, case2, nontriv, tag=" (after rewriting the parameters of the same object)", mode=mode)


def fixed_regimes(ctx):
    """always first: both state types under every regime of the calling program (no_grad / inference_mode / enable_grad /
    default dtype float32 / float64), incl. large biases; each case carries the shape, Z-encoding, layout and overwrite relations"""
    for i, mode in enumerate(MODES[1:]):
        for kind in ("complex", "positive"):
            ctx.torch_seed()
            one_case(ctx, kind, 3 if kind == "complex" else 2, 2 if kind == "complex" else 3, large=(i % 2 == 1), mode=mode)


def run(ctx):
    fixed_regimes(ctx)
    draws = 10 if ctx.thorough else 3
    k = 0
    for (nv, nh) in shapes(ctx):
        for kind in ("positive", "complex"):
            for d in range(draws):
                ctx.torch_seed()
                mode = "ambient"
                if d % 3 == 1:                      # every third draw: another regime of the calling program
                    mode = MODES[1 + k % (len(MODES) - 1)]
                    k += 1
                one_case(ctx, kind, nv, nh, large=(d % 3 == 2), mode=mode)
    # a few fresh-initialisation style cases (zero biases), the only regime the test-suite visits
    for kind in ("positive", "complex"):
        one_case(ctx, kind, 2, 2, zero_bias=True)


def search(ctx, broken, budget):
    """Wider oracle sweep when proof or correspondence broke: all small shapes, more draws."""
    import time
    t0 = time.time()
    n0 = len(ctx.failures)
    fixed_regimes(ctx)
    if len(ctx.failures) > n0:
        return ctx.failures[n0]
    for (nv, nh) in [(nv, nh) for nv in range(1, 5) for nh in range(1, 5)]:
        for kind in ("positive", "complex"):
            for d in range(4):
                one_case(ctx, kind, nv, nh, mode=MODES[d % len(MODES)] if d else "ambient")
                if len(ctx.failures) > n0:
                    return ctx.failures[n0]
                if time.time() - t0 > budget:
                    return None
    return None


def replay(ctx, rec):
    """re-executes exactly the recorded failing case (parameters are stored in the replay file)"""
    case = rec.get("failing", {}).get("case", {})
    if case.get("am"):
        one_case(ctx, case.get("state", "positive"), int(case["nv"]), int(case["nh"]), replay_params=case, mode=case.get("mode") or "ambient")
    else:
        run(ctx)
