"""C01 — Born rule for wavefunction states.
Correspondence: psi / amplitude / phase / probability / normalization of real Positive/ComplexWaveFunction
objects vs the extracted Coq model (States.pos_psi, cplx_psi, ...), on all 2^n basis states, 2-D and 1-D forms.
Oracle (property relation on the implementation's own outputs): |psi|^2 = probability = brute-force hidden
marginal; normalization = sum of probabilities; complex modulus independent of the phase net; phase = -E_ph/2
(E_ph computed independently in numpy); positive state real and > 0."""
import itertools, math
import numpy as np
import gen

RULE = ("architectures nv 1..5 x nh 1..6 (quick: covering subset incl. nh != nv, size-1 dims; thorough: all 30), "
        "parameter draws from the mixture in harness/gen.py, all 2^n basis states, batched and 1-D call forms; "
        "a case is (state type, nv, nh, parameter draw); non-trivial := all biases non-zero and (nh != nv or complex)")
ASSUMPTIONS = ["torch softplus/logsumexp/matmul implement the real functions up to rounding"]


def shapes(ctx):
    if ctx.thorough:
        return [(nv, nh) for nv in range(1, 6) for nh in range(1, 7)]
    return [(1, 1), (1, 3), (2, 1), (2, 3), (3, 2), (3, 5), (4, 4), (5, 6), (4, 2)]


def hidden_marginal(W, b, c, v):
    nh = len(c)
    tot = 0.0
    for h in itertools.product([0.0, 1.0], repeat=nh):
        h = np.array(h)
        tot += math.exp(float(v @ b + c @ h + h @ W @ v))
    return tot


def big_bias(ctx, n):
    """biases with a few entries of magnitude up to ~30 (the quantifier's range), the rest O(1)"""
    x = gen.nonzero_bias(ctx, n)
    k = max(1, n // 2)
    ii = ctx.rng.choice(n, size=k, replace=False)
    x[ii] = np.exp(ctx.rng.uniform(np.log(3.0), np.log(30.0), size=k)) * ctx.rng.choice([-1.0, 1.0], size=k)
    return x


def evaluate(ctx, s, kind, am, ph, space, case, nontriv, tag=""):
    """correspondence + oracle for the state object s holding parameters am (and ph); space: full basis tensor"""
    import torch
    m = ctx.get_model()
    W, b, c = am
    sp = space.numpy()
    E = gen.np_eff_energy(W, b, c, sp)
    if np.max(-E) > 600 or np.min(-E) < -600 or (ph is not None and np.max(np.abs(gen.np_eff_energy(*ph, sp))) > 1e6):
        ctx.count("skipped_overflow")
        return False
    ctx.case({"state": kind, "nv": case["nv"], "nh": case["nh"], "W00": float(W[0, 0]), "b0": float(b[0]), "c0": float(c[0]), "step": tag}, nontrivial=nontriv)
    ok, out = ctx.call("state evaluation" + tag, case, lambda: (
        s.psi(space), s.amplitude(space), s.phase(space), s.probability(space), s.normalization(space)))
    if not ok:
        return False
    psi, amp, phase, prob, Z = out
    # ---- correspondence with the Coq model
    if kind == "positive":
        r = m.call("pos_state", W, b, c, sp)
    else:
        r = m.call("cplx_state", W, b, c, ph[0], ph[1], ph[2], sp)
    m_amp, m_phase, m_psi, m_prob, m_Z = r
    ctx.agree("amplitude" + tag, amp, m_amp, case)
    ctx.agree("phase" + tag, phase, m_phase, case)
    ctx.agree("psi.re" + tag, psi[0], [p[0] for p in m_psi], case, scale=max(m_amp))
    ctx.agree("psi.im" + tag, psi[1], [p[1] for p in m_psi], case, scale=max(m_amp))
    ctx.agree("probability" + tag, prob, m_prob, case)
    ctx.agree("normalization" + tag, Z, m_Z, case)
    # 1-D call forms agree with the batched form
    for i in (0, len(sp) - 1, len(sp) // 2):
        v1 = space[i]
        ok, o1 = ctx.call("1-D call forms", case, lambda: (s.psi(v1), s.amplitude(v1), s.phase(v1), s.probability(v1)))
        if ok:
            ctx.agree("psi 1-D" + tag, o1[0], [m_psi[i][0], m_psi[i][1]], case, scale=max(m_amp))
            ctx.agree("amplitude 1-D" + tag, o1[1], m_amp[i], case)
            ctx.agree("phase 1-D" + tag, o1[2], m_phase[i], case)
            ctx.agree("probability 1-D" + tag, o1[3], m_prob[i], case)
    # ---- property oracle on the implementation's own outputs
    psi_n = psi.numpy(); prob_n = prob.numpy()
    mod2 = psi_n[0] ** 2 + psi_n[1] ** 2
    ctx.require("|psi|^2 == probability" + tag, np.allclose(mod2, prob_n, rtol=1e-9, atol=0), case, (mod2 - prob_n).tolist())
    marg = np.array([hidden_marginal(W, b, c, v) for v in sp])
    ctx.require("probability == hidden-unit marginal" + tag, np.allclose(prob_n, marg, rtol=1e-7, atol=0), case,
                {"prob": prob_n.tolist(), "marginal": marg.tolist()})
    ctx.require("normalization == sum of probabilities" + tag, math.isclose(float(Z), float(prob_n.sum()), rel_tol=1e-9), case,
                {"Z": float(Z), "sum": float(prob_n.sum())})
    ctx.require("normalization == sum of hidden-unit marginals over the whole basis" + tag, math.isclose(float(Z), float(marg.sum()), rel_tol=1e-7), case,
                {"Z": float(Z), "sum": float(marg.sum())})
    ctx.require("amplitude == sqrt(probability)" + tag, np.allclose(amp.numpy() ** 2, marg, rtol=1e-7, atol=0), case)
    # probability(v, Z): the normalised probabilities sum to one, and scale as 1/Z
    ok, pz = ctx.call("probability(space, Z)", case, lambda: (s.probability(space, Z), s.probability(space, 2.5)))
    if ok:
        ctx.require("normalised probabilities sum to one" + tag, math.isclose(float(pz[0].sum()), 1.0, rel_tol=1e-9), case, float(pz[0].sum()))
        ctx.require("probability(v, Z) == probability(v) / Z" + tag, np.allclose(pz[1].numpy() * 2.5, prob_n, rtol=1e-12, atol=0), case)
        ctx.require("normalised state has unit norm" + tag, math.isclose(float(mod2.sum() / float(Z)), 1.0, rel_tol=1e-9), case)
    # ---- documented aliases, other sample dtypes, batches far larger than the basis (gathered rows)
    ok, al = ctx.call("normalisation aliases", case, lambda: (s.compute_normalization(space), s.rbm_am.partition(space)))
    if ok:
        ctx.require("compute_normalization(space) == normalization(space)" + tag, math.isclose(float(al[0]), float(Z), rel_tol=1e-12), case, float(al[0]))
        ctx.require("rbm_am.partition(space) == normalization(space)" + tag, math.isclose(float(al[1]), float(Z), rel_tol=1e-12), case, float(al[1]))
    for dname, conv in (("float32", lambda t: t.float()), ("int64", lambda t: t.long())):
        ok, od = ctx.call("evaluation on a %s batch" % dname, case, lambda: (s.psi(conv(space)), s.probability(conv(space)), s.amplitude(conv(space))))
        if ok:
            good = all(np.allclose(np.asarray(a.detach().numpy(), dtype=float), np.asarray(b.detach().numpy(), dtype=float), rtol=1e-12, atol=0)
                       for a, b in zip(od, (psi, prob, amp)))
            ctx.require("psi / probability / amplitude do not depend on the dtype of the 0/1 batch (%s)" % dname + tag, good, case)
    if tag == "":
        for B in (len(sp) + 1, 70001):
            idx = torch.tensor(ctx.rng.integers(0, len(sp), size=B))
            ok, og = ctx.call("evaluation on a gathered batch of %d rows" % B, case, lambda: (s.psi(space[idx]), s.probability(space[idx])))
            if ok:
                good = tuple(og[0].shape) == (2, B) and tuple(og[1].shape) == (B,) and \
                    bool(torch.allclose(og[0], psi[:, idx], rtol=1e-12, atol=0)) and bool(torch.allclose(og[1], prob[idx], rtol=1e-12, atol=0))
                ctx.require("each row of a long batch gets the value of its basis state (B=%d)" % B, good, case)
    if kind == "positive":
        ctx.require("positive state is real and > 0" + tag, bool(np.all(psi_n[1] == 0) and np.all(psi_n[0] > 0)), case)
        ctx.require("positive phase is zero" + tag, bool(np.all(phase.numpy() == 0)), case)
    else:
        Eph = gen.np_eff_energy(*ph, sp)
        ctx.require("phase == -E_ph/2" + tag, np.allclose(phase.numpy(), -Eph / 2, rtol=1e-9, atol=1e-12), case)
        want = np.sqrt(marg) * np.exp(1j * (-Eph / 2))
        got = psi_n[0] + 1j * psi_n[1]
        ctx.require("psi == amplitude * exp(i phase)" + tag, np.allclose(got, want, rtol=1e-7, atol=1e-12 * np.abs(want).max()), case)
    ctx.traces += 1
    return True


def one_case(ctx, kind, nv, nh, zero_bias=False, large=False, replay_params=None):
    import torch
    if kind == "positive":
        s, am = gen.make_positive(ctx, nv, nh, zero_bias)
        ph = None
    else:
        s, am, ph = gen.make_complex(ctx, nv, nh, zero_bias)
    if large and not zero_bias:
        am = (am[0], big_bias(ctx, nv), big_bias(ctx, nh))
        gen.set_brbm(s.rbm_am, *am)
        ctx.count("large_biases")
    if replay_params is not None:
        am = tuple(np.array(x, dtype=float) for x in replay_params["am"])
        gen.set_brbm(s.rbm_am, *am)
        if ph is not None and replay_params.get("ph"):
            ph = tuple(np.array(x, dtype=float) for x in replay_params["ph"])
            gen.set_brbm(s.rbm_ph, *ph)
    W, b, c = am
    case = {"state": kind, "nv": nv, "nh": nh, "am": gen.plist(*am), "ph": gen.plist(*ph) if ph else None}
    # the full basis, enumerated independently of the library (itertools order = big-endian)
    space = torch.tensor(np.array(list(itertools.product([0.0, 1.0], repeat=nv))), dtype=torch.double)
    nontriv = (not zero_bias) and bool(np.all(b != 0) and np.all(c != 0)) and (nh != nv or kind == "complex")
    ctx.count("shape:%dx%d" % (nv, nh)); ctx.count("state:" + kind)
    if not evaluate(ctx, s, kind, am, ph, space, case, nontriv):
        return
    if replay_params is not None:
        return
    # ---- a second parameter setting on the SAME state object and the SAME space tensor (a history, not a fresh state):
    #      parameters are rewritten the three ways user code and load() do it
    how = int(ctx.rng.integers(0, 3))
    am2 = gen.brbm_params(ctx, nv, nh)
    ph2 = gen.brbm_params(ctx, nv, nh) if ph is not None else None
    def write(rbm, W_, b_, c_):
        if how == 0:
            gen.set_brbm(rbm, W_, b_, c_)                                    # .data = new tensor
        elif how == 1:
            rbm.weights.data.copy_(torch.tensor(W_)); rbm.visible_bias.data.copy_(torch.tensor(b_)); rbm.hidden_bias.data.copy_(torch.tensor(c_))
        else:
            rbm.load_state_dict({"weights": torch.tensor(W_), "visible_bias": torch.tensor(b_), "hidden_bias": torch.tensor(c_)})
    write(s.rbm_am, *am2)
    if ph2 is not None:
        write(s.rbm_ph, *ph2)
    ctx.count("rewrite_how:%d" % how)
    case2 = {"state": kind, "nv": nv, "nh": nh, "am": gen.plist(*am2), "ph": gen.plist(*ph2) if ph2 else None,
             "history": "evaluate, rewrite parameters (how=%d), evaluate again on the same object and space" % how, "first_am": case["am"]}
    evaluate(ctx, s, kind, am2, ph2, space, case2, nontriv, tag=" (after rewriting the parameters of the same object)")


def run(ctx):
    draws = 10 if ctx.thorough else 3
    for (nv, nh) in shapes(ctx):
        for kind in ("positive", "complex"):
            for d in range(draws):
                ctx.torch_seed()
                one_case(ctx, kind, nv, nh, large=(d % 3 == 2))
    # a few fresh-initialisation style cases (zero biases), the only regime the test-suite visits
    for kind in ("positive", "complex"):
        one_case(ctx, kind, 2, 2, zero_bias=True)


def search(ctx, broken, budget):
    """Wider oracle sweep when proof or correspondence broke: all small shapes, more draws."""
    import time
    t0 = time.time()
    n0 = len(ctx.failures)
    for (nv, nh) in [(nv, nh) for nv in range(1, 5) for nh in range(1, 5)]:
        for kind in ("positive", "complex"):
            for d in range(4):
                one_case(ctx, kind, nv, nh)
                if len(ctx.failures) > n0:
                    return ctx.failures[n0]
                if time.time() - t0 > budget:
                    return None
    return None


def replay(ctx, rec):
    """re-executes exactly the recorded failing case (parameters are stored in the replay file)"""
    case = rec.get("failing", {}).get("case", {})
    if case.get("am"):
        one_case(ctx, case.get("state", "positive"), int(case["nv"]), int(case["nh"]), replay_params=case)
    else:
        run(ctx)
