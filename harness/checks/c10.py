"""C10 — Fidelity, KL divergence and NLL report the quantities they are named for.

Implementation under test: qucumber.utils.training_statistics.{fidelity, KL, NLL} (and their use through
callbacks.MetricEvaluator) on real Positive/Complex wavefunctions and DensityMatrix states.

Correspondence: every call is repeated on the extracted Coq model (coq/model/Metrics.v: fidelity_pure,
fidelity_mixed[_matrix], nll_plain, nll_bases_auto, kl_none_*, kl_bases_*), which works on the state tables the
implementation itself produces (psi(space), rho(space, space), probability(space), normalization(space)) — the
tables themselves are the subject of C01/C02; rotations are those of Unitaries.v (C04).  The model also returns the
result kind of the code path (PlainNumber), compared with the Python type of the returned object.

Oracle (independent numpy, dense Kronecker products built here): fidelity = |<t|psi>|^2 / sum|psi|^2 resp. Uhlmann
fidelity (tr sqrt(sqrt(t) rho sqrt(t)))^2 through eigh-based square roots; KL = mean over the requested bases of
sum t ln(t/q) between the rotated Born distributions of target and state; NLL = -mean ln Born_b(s) with each
sample in its own basis; [0,1], self-fidelity 1, self-KL 0 in every basis, KL >= 0, global-phase invariance;
type(result) is float (or a numpy floating subclass of float) on every path.
The basis letters mean what the STATE's unitary dictionary says (states with X / Y overridden: oracle with the state's matrices);
histories: parameters changed on the same object (fit, `p.data = new`, in-place through `.data`), argument buffers (target tensor,
dict of rotated targets, samples, sample_bases) overwritten in place between calls; call forms: keyword and documented positional order.
Near-degenerate regimes (seed round 4): density-matrix targets eps away from a special case (nearly pure, nearly rank-deficient, nearly maximally
mixed, nearly equal eigenvalues, nearly commuting with the state, nearly the state itself; eps 3e-13 .. 1e-4 on both sides of the usual isclose /
clean-up thresholds), nearly pure MODEL states (weights_U scaled by 1e-5 .. 1e-1), vector targets nearly equal / nearly orthogonal to the state and
targets with tiny non-zero Born probabilities (KL).  For these the Uhlmann oracle is evaluated with mpmath (40 digits; numpy fallback) and the
tolerance is the first-order effect of an absolute perturbation 4e-14 of the spectrum of sqrt(t) rho sqrt(t) (measured: unchanged tree <= 0.25 of it).
"""
import itertools, math, time
import numpy as np
import gen

RULE = ("state type in {positive, complex, mixed} x nv 1..3 (thorough 1..4) x nh/na shapes incl. nh != nv, parameter draws "
        "from harness/gen.py (all biases non-zero); per state: fidelity with random normalised complex targets "
        "(vectors; density matrices of every rank 1..2^n, real and non-real), the state's own normalised state, "
        "a basis-state target, a global phase; KL with bases=None / lists over {X,Y,Z} (quick: sampled, thorough: "
        "all 3^n for n<=2 plus sampled) / dict of pre-rotated targets (with and without bases=) / one target to be rotated; "
        "NLL with sample multisets (repeats) without bases and with per-sample bases incl. all-Z rows, single-basis and "
        "mixed batches; all of it for all three state types (PositiveWaveFunction rotates with the default dictionary); targets "
        "also passed as target= / deprecated target_psi= / target_rho= keywords; bases as list / tuple / numpy array; basis-state "
        "and GHZ-like targets (exact zeros and ones); KL(bases=None) also with the other kind of target (matrix for a wavefunction "
        "state, vector for a mixed state); `space` as a row permutation of the basis with the target in that ordering (fidelity, "
        "KL(bases=None), NLL); bases lists with repeated entries; per state a same-object history (all metrics evaluated, then a tiny "
        "fit or an in-place parameter change, then the metrics and MetricEvaluator.on_epoch_end again); one peaked (|bias| 20..30) draw "
        "per shape in every tier; the history step is a tiny fit, new tensors assigned to the parameters (`p.data = new`) or an in-place edit of the "
        "existing parameter tensors THROUGH `.data` (copy_ / indexed assignment / zero_().add_(): neither storage pointer nor version counter of the "
        "nn.Parameter changes); every second KL(bases=) / NLL(sample_bases=) call passes the bases POSITIONALLY (documented order nn_state, target|samples, "
        "space, bases|sample_bases); per state two argument-buffer histories (ONE target tensor, one dict of pre-rotated tensors, one sample tensor and one "
        "sample_bases array whose content is replaced in place between two rounds of fidelity / KL / NLL calls); complex and mixed states that carry their OWN unitary dictionary (X and/or Y random "
        "unitaries, Z untouched; numpy oracle with the state's matrices; fixed ones first, then one full draw per type and size); states built through "
        "the constructors' module= form with an RBM of the library; NEAR-DEGENERATE inputs: density-matrix targets (1-eps)*special + eps*noise for the families "
        "pure+white / pure+random / basis+white / rank-k+random noise, I/d + eps*H, two eigenvalues equal up to 1+eps, f(rho)+eps*noise (nearly commuting), "
        "rho+eps*noise (nearly the own state), eps on a fixed grid 3e-13..1e-4 (both sides of 1e-12, 1e-10, 1e-8, isclose's 1e-5 purity threshold) and log-uniform in "
        "the random stream; nearly pure MODEL states (weights_U of both networks scaled by 1e-5..1e-1: 1 - purity 1e-11..1e-3); vector targets own + delta*perp, "
        "perp + delta*own, basis + sqrt(eps)*noise (fidelity and KL, tiny non-zero target probabilities); Uhlmann oracle in mpmath with a spectrum-adaptive tolerance; "
        "a fixed seed-independent block of all these regimes runs first; a case is (fn, state, shape, parameter draw, call form, target/bases/samples); non-trivial := "
        "non-real target or a basis containing Y or a mixed batch of bases")
ASSUMPTIONS = [
    "np.linalg.eigvals returns the spectrum of its argument (mixed-state fidelity: eigenvalue oracle of the model)",
    "probs_to_logits clamps to [eps, 1-eps]; the real-number theorems assume probabilities inside that range; "
    "oracle comparisons are skipped (correspondence kept) when a model probability is below 1e-14",
    "mixed-state fidelity = Uhlmann fidelity and in [0,1] is correspondence/oracle-tested only (no Coq theorem)",
    "the KL/NLL theorems cover probabilities in [2^-52, 1-2^-52] (plus exactly-zero target probabilities); basis-state / "
    "GHZ-like targets (probabilities exactly 0 or 1) are generated here and held to the numpy oracle (0 ln 0 = 0)",
    "states without a unitary dictionary (PositiveWaveFunction) rotate with create_dict() (/repo c22f10c); in the model X, Y, Z "
    "always denote the default matrices: for states that carry their own dictionary (X / Y overridden) the rotated-basis KL / NLL values are "
    "held to the numpy oracle only (dense Kronecker products of the STATE's matrices), the model is not asked",
    "OUT of scope (red team 2, C10_5): states whose parameters take part in autograd (requires_grad=True). Every documented way of building a state "
    "(constructors, module= with an RBM of the library, load / autoload) yields requires_grad=False parameters; requires_grad=True needs the user "
    "to replace the nn.Parameters of a live library module (setattr) or to subclass the RBM, which the property does not mention. States built "
    "through module= from the library's own RBM classes ARE exercised",
    "the Z entry of a state's own dictionary is never overridden here (open finding F-C04-z-override belongs to C04)",
    "torch's softplus(threshold=20) shortcut (DESIGN 4.2: absorbed by the tolerance): a DensityMatrix whose auxiliary pre-activation U v + d exceeds 20 on "
    "some basis state is normalised with probabilities that drop log1p(e^-x) <= 2.1e-9 per such unit while its rho table keeps it, so rho/Z has trace "
    "1 + O(2e-9) and every mixed-state metric moves by that relative amount; for exactly these states (detected from the parameters, counted in the "
    "histogram) the oracle tolerances are widened by twice the dropped term (first met at thorough seed 0: nv=1, weights_U=20.57, aux_bias=-0.23 -> 1.46e-9)",
    "near-degenerate density-matrix targets / nearly pure model states: fidelity is held to an mpmath Uhlmann oracle within the first-order effect of an "
    "absolute perturbation 4e-14 of the spectrum of sqrt(t) rho sqrt(t) (+1e-9): 2e-7 per eigenvalue below 4e-14 (sqrt of rounding noise), 4e-14/sqrt(lam) "
    "above — nothing tighter is demanded of a float64 eigenvalue computation",
]

LET = {"X": 0, "Y": 1, "Z": 2}
S2 = 1.0 / math.sqrt(2.0)
U1 = {"X": np.array([[1, 1], [1, -1]], dtype=complex) * S2,
      "Y": np.array([[1, -1j], [1, 1j]], dtype=complex) * S2,
      "Z": np.eye(2, dtype=complex)}
PMIN = 1e-14          # probs_to_logits clamps below 2.2e-16: the oracle is skipped below 1e-14 (counted)


# ------------------------------------------------------------------ numpy oracle
def dense_U(basis, u1=None):
    """dense Kronecker product of the per-site matrices; u1: the STATE's dictionary (letter -> 2x2), default matrices if None"""
    u1 = u1 or U1
    U = np.ones((1, 1), dtype=complex)
    for ch in basis:
        U = np.kron(U, u1[ch])
    return U


def born_pure(vec, basis, u1=None):
    v = dense_U(basis, u1) @ vec
    return np.abs(v) ** 2 / np.sum(np.abs(vec) ** 2)


def born_mixed(mat, basis, u1=None):
    U = dense_U(basis, u1)
    return np.real(np.diag(U @ mat @ U.conj().T)) / np.real(np.trace(mat))


def rand_unitary(rng):
    q, r = np.linalg.qr(rng.normal(size=(2, 2)) + 1j * rng.normal(size=(2, 2)))
    return q * (np.diag(r) / np.abs(np.diag(r)))


def u1_of(case):
    """letter -> 2x2 matrix of the state's dictionary: the defaults, X and/or Y replaced when the case carries `udict`"""
    ud = case.get("udict")
    if not ud:
        return None
    u1 = dict(U1)
    for k, v in ud.items():
        u1[k] = de_c(v)
    return u1


def kl_div(t, q):
    t = np.asarray(t, dtype=float); q = np.asarray(q, dtype=float)
    m = t > 0
    return float(np.sum(t[m] * (np.log(t[m]) - np.log(q[m]))))


def psd_sqrt(A):
    w, V = np.linalg.eigh((A + A.conj().T) / 2)
    w = np.clip(w, 0, None)
    return (V * np.sqrt(w)) @ V.conj().T


def uhlmann(t, r):
    st = psd_sqrt(t)
    w = np.linalg.eigvalsh(st @ r @ st)
    return float(np.sum(np.sqrt(np.clip(w, 0, None))) ** 2)


SPEC_DELTA = 4e-14    # absolute perturbation of the spectrum of sqrt(t) rho sqrt(t) the implementation is allowed (float64 eigenvalues of a
                      # non-symmetric product with entries <= 1: backward error ~1e-16 x non-normality).  Measured on the unchanged tree over the
                      # families below, eps 1e-16..1e-3, d = 2..16, ~9000 cases: error <= 0.25 x the tolerance derived from it (99% <= 0.05 x)


def uhlmann_hp(t, r):
    """Uhlmann fidelity of the trace-normalised Hermitian matrices t, r, accurate also when t or r is nearly singular:
    mpmath at 40 digits (Hermitian eigendecompositions only); returns (F, spectrum of sqrt(t) r sqrt(t), oracle kind).
    Fallback without mpmath: the float64 eigh oracle (its own error is of the size of the tolerance: the caller doubles it)."""
    try:
        import mpmath as mp
    except Exception:
        st = psd_sqrt(t / np.real(np.trace(t)))
        w = np.clip(np.linalg.eigvalsh(st @ (r / np.real(np.trace(r))) @ st), 0, None)
        return float(np.sum(np.sqrt(w)) ** 2), [float(x) for x in w], "numpy"
    with mp.workdps(40):
        d = t.shape[0]
        cv = lambda a: mp.matrix([[mp.mpc(float(np.real(a[i, j])), float(np.imag(a[i, j]))) for j in range(d)] for i in range(d)])
        T, R = cv(t), cv(r)
        T, R = (T + T.H) / 2, (R + R.H) / 2
        T = T / sum(T[i, i].real for i in range(d))
        R = R / sum(R[i, i].real for i in range(d))
        w, V = mp.eigh(T)
        S = V * mp.diag([mp.sqrt(x) if x > 0 else mp.mpf(0) for x in w]) * V.H
        M = S * R * S
        ev = mp.eigh((M + M.H) / 2, eigvals_only=True)
        ev = [x if x > 0 else mp.mpf(0) for x in ev]
        tr = sum(mp.sqrt(x) for x in ev)
        return float(tr * tr), [float(x) for x in ev], "mpmath"


def spectrum_tol(F, spec, kind):
    """|dF| for an absolute perturbation SPEC_DELTA of every eigenvalue: F = (sum sqrt lam)^2, |d sqrt lam| <= min(sqrt(delta), delta / sqrt(lam))"""
    sd = math.sqrt(SPEC_DELTA)
    e = sum(min(sd, SPEC_DELTA / math.sqrt(x)) if x > 0 else sd for x in spec)
    return (1e-9 + 2.0 * math.sqrt(max(F, 0.0)) * e) * (2.0 if kind == "numpy" else 1.0)


# ------------------------------------------------------------------ conversions
def t2c(x):
    """(2, ...) torch/numpy real pair tensor -> numpy complex"""
    x = np.asarray(x.detach().cpu().numpy() if hasattr(x, "detach") else x, dtype=float)
    return x[0] + 1j * x[1]


def c2t(a):
    import torch
    a = np.asarray(a, dtype=complex)
    return torch.tensor(np.stack([a.real, a.imag]), dtype=torch.double)


def wire_c(a):
    a = np.asarray(a, dtype=complex)
    if a.ndim == 1:
        return [[float(z.real), float(z.imag)] for z in a]
    return [wire_c(r) for r in a]


def wire_bases(bases):
    return [[LET[ch] for ch in b] for b in bases]


def ser_c(a):
    a = np.asarray(a, dtype=complex)
    return {"re": a.real.tolist(), "im": a.imag.tolist()}


def de_c(d):
    return np.array(d["re"], dtype=float) + 1j * np.array(d["im"], dtype=float)


def is_plain_number(r):
    import torch
    return isinstance(r, float) and not isinstance(r, torch.Tensor)


# ------------------------------------------------------------------ states
def new_state_case(ctx, kind, nv, nh, na, large_bias=False, udict=False, via_module=False, near_pure=None):
    extra = {}
    if near_pure and kind == "mixed":
        extra["near_pure"] = float(near_pure)
    if udict and kind != "positive":
        # the state's own dictionary: X and / or Y are random unitaries (Z untouched: it is the reference basis throughout)
        which = [["X", "Y"], ["X"], ["Y"]][int(ctx.rng.integers(3))]
        extra["udict"] = {k: ser_c(rand_unitary(ctx.rng)) for k in which}
    if via_module:
        extra["via_module"] = True
    if kind == "positive":
        s, am = gen.make_positive(ctx, nv, nh); ph = None
    elif kind == "complex":
        s, am, ph = gen.make_complex(ctx, nv, nh)
    else:
        s, am, ph = gen.make_dm(ctx, nv, nh, na)
    am = gen.plist(*am)
    if large_bias:
        # peaked state: one visible bias of magnitude 20..30 -> Born probabilities down to ~1e-13 (still far above the clamp)
        vb = am[2] if kind == "mixed" else am[1]
        vb[int(ctx.rng.integers(nv))] = float(ctx.rng.choice([-1.0, 1.0]) * ctx.rng.uniform(20.0, 30.0))
    ph = gen.plist(*ph) if ph is not None else None
    if near_pure and kind == "mixed":
        # nearly pure MODEL state: the visible-auxiliary couplings of both networks scaled by delta (delta = 0 is a pure state;
        #   1 - tr(rho^2) ~ delta^2: 1e-11 .. 1e-3 for delta = 1e-5 .. 1e-1)
        am[1] = (np.array(am[1], dtype=float) * float(near_pure)).tolist()
        ph[1] = (np.array(ph[1], dtype=float) * float(near_pure)).tolist()
    return dict({"state": kind, "nv": nv, "nh": nh, "na": na if kind == "mixed" else None, "large_bias": bool(large_bias),
                 "am": am, "ph": ph}, **extra)


def set_params(s, case):
    """write the parameters of [case] into the live object IN PLACE (same state object, same nn.Parameters)"""
    am = [np.array(x, dtype=float) for x in case["am"]]
    ph = [np.array(x, dtype=float) for x in case["ph"]] if case.get("ph") else None
    if case["state"] == "mixed":
        gen.set_prbm(s.rbm_am, *am); gen.set_prbm(s.rbm_ph, *ph)
    else:
        gen.set_brbm(s.rbm_am, *am)
        if ph is not None:
            gen.set_brbm(s.rbm_ph, *ph)


def set_params_inplace(s, case, rng=None):
    """the same, but THROUGH `.data` of the existing parameter tensors (p.data.copy_(new), p.data[...] = new, p.data.zero_().add_(new)):
    neither the storage pointer nor the version counter of the nn.Parameter changes"""
    import torch
    am = [np.array(x, dtype=float) for x in case["am"]]
    ph = [np.array(x, dtype=float) for x in case["ph"]] if case.get("ph") else None
    names = ["weights_W", "weights_U", "visible_bias", "hidden_bias", "aux_bias"] if case["state"] == "mixed" else ["weights", "visible_bias", "hidden_bias"]
    k = 0
    for rbm, vals in ((s.rbm_am, am),) + (((s.rbm_ph, ph),) if ph is not None else ()):
        for name, v in zip(names, vals):
            p = getattr(rbm, name)
            new = torch.tensor(v, dtype=torch.double)
            how = int(rng.integers(3)) if rng is not None else k % 3
            k += 1
            if how == 0:
                p.data.copy_(new)
            elif how == 1:
                p.data[...] = new
            else:
                p.data.zero_().add_(new)


def apply_params(s, case, rng=None):
    (set_params_inplace(s, case, rng) if case.get("history") == "inplace" else set_params(s, case))


def read_params(s, kind):
    g = lambda x: x.detach().cpu().numpy().astype(float).tolist()
    def one(r):
        if kind == "mixed":
            return [g(r.weights_W), g(r.weights_U), g(r.visible_bias), g(r.hidden_bias), g(r.aux_bias)]
        return [g(r.weights), g(r.visible_bias), g(r.hidden_bias)]
    return one(s.rbm_am), (one(s.rbm_ph) if kind != "positive" else None)


def warm_up(s, kind):
    """history: every metric is evaluated once on the object BEFORE its parameters change"""
    import torch
    from qucumber.utils import training_statistics as ts
    tab = Tab(s, kind)
    t = c2t(tab.own)
    nv = tab.sp.shape[1]
    b = ["X" * nv, "Z" * nv]
    smp = tab.space[[0, len(tab.sp) - 1]]
    try:
        ts.fidelity(s, t, tab.space); ts.fidelity(s, t)
        ts.KL(s, t, tab.space); ts.KL(s, t, tab.space, bases=b); ts.KL(s, t, bases=b)
        ts.NLL(s, smp, tab.space); ts.NLL(s, smp, tab.space, sample_bases=np.array([list(x) for x in b]))
    except Exception:
        pass


def make_tab(case):
    """tables for a case.  With case['prev'] the metric calls go to an OLD object (built with the previous parameters,
    every metric already evaluated on it, then re-parametrised in place); the tables for model and oracle always come
    from a FRESH object with the case's parameters."""
    fresh = build_state(case)
    if case.get("prev"):
        old = build_state(dict(case, am=case["prev"]["am"], ph=case["prev"]["ph"]))
        warm_up(old, case["state"])
        apply_params(old, case)
        return Tab(fresh, case["state"], s_call=old, u1=u1_of(case))
    return Tab(fresh, case["state"], u1=u1_of(case))


def build_state(case):
    from qucumber.nn_states import PositiveWaveFunction, ComplexWaveFunction, DensityMatrix
    kind, nv, nh = case["state"], case["nv"], case["nh"]
    am = [np.array(x, dtype=float) for x in case["am"]]
    ph = [np.array(x, dtype=float) for x in case["ph"]] if case.get("ph") else None
    kw = {}
    if case.get("udict") and kind != "positive":
        from qucumber.utils import unitaries
        kw["unitary_dict"] = unitaries.create_dict(**{k: c2t(de_c(v)) for k, v in case["udict"].items()})
    if case.get("via_module"):
        # the documented module= form of the constructors, with an RBM of the library (its parameters as the library creates them)
        from qucumber.rbm import BinaryRBM, PurificationRBM
        mod = PurificationRBM(nv, nh, case["na"], gpu=False) if kind == "mixed" else BinaryRBM(nv, nh, gpu=False)
        if kind == "positive":
            s = PositiveWaveFunction(nv, gpu=False, module=mod)
        elif kind == "complex":
            s = ComplexWaveFunction(nv, gpu=False, module=mod, **kw)
        else:
            s = DensityMatrix(nv, gpu=False, module=mod, **kw)
    elif kind == "positive":
        s = PositiveWaveFunction(nv, nh, gpu=False)
    elif kind == "complex":
        s = ComplexWaveFunction(nv, nh, gpu=False, **kw)
    else:
        s = DensityMatrix(nv, nh, case["na"], gpu=False, **kw)
    if kind == "positive":
        gen.set_brbm(s.rbm_am, *am)
    elif kind == "complex":
        gen.set_brbm(s.rbm_am, *am); gen.set_brbm(s.rbm_ph, *ph)
    else:
        gen.set_prbm(s.rbm_am, *am); gen.set_prbm(s.rbm_ph, *ph)
    return s


class Tab:
    """state tables produced by the implementation (inputs of the metric-layer model and of the oracle)"""

    def __init__(self, s, kind, s_call=None, u1=None):
        self.s, self.kind = (s_call if s_call is not None else s), kind        # self.s: the object the metrics are called on
        self.u1 = u1                                                            # the state's dictionary (None: the default matrices)
        self.mixed = (kind == "mixed")
        self.space = s.generate_hilbert_space()
        self.sp = self.space.numpy()
        self.Z = float(s.normalization(self.space))
        self.pr = s.probability(self.space).numpy().astype(float)
        self.slack = 0.0
        if self.mixed:
            self.rho = t2c(s.rho(self.space, self.space))
            self.own = self.rho / np.real(np.trace(self.rho))
            # torch's softplus returns x for x > 20 (drops log1p(e^-x) <= 2.1e-9, DESIGN 4.2): the normalisation of a mixed state sums
            #   probabilities whose auxiliary term is softplus(U v + d), its rho table uses the explicit 1 + e^z -> the library's
            #   Born probabilities rho/Z and the oracle's rho/tr(rho) differ by up to this relative amount when such a unit exists
            try:
                y = self.sp @ s.rbm_am.weights_U.detach().numpy().astype(float).T + s.rbm_am.aux_bias.detach().numpy().astype(float)
                self.slack = float(np.max(np.sum(np.where(y > 20.0, np.log1p(np.exp(-np.abs(y))), 0.0), axis=1)))
            except Exception:
                self.slack = 0.0
        else:
            self.psi = t2c(s.psi(self.space))
            self.own = self.psi / np.sqrt(np.sum(np.abs(self.psi) ** 2))

    def tab_wire(self):
        return wire_c(self.rho if self.mixed else self.psi)

    def born(self, basis):
        return born_mixed(self.rho, basis, self.u1) if self.mixed else born_pure(self.psi, basis, self.u1)

    def well_conditioned(self):
        p = self.pr / self.pr.sum()
        return bool(np.all(np.isfinite(p)) and self.Z > 0 and np.isfinite(self.Z))


def born_target(tmixed, target, basis, u1=None):
    return born_mixed(target, basis, u1) if tmixed else born_pure(target, basis, u1)


def permuted(a, perm):
    """target / table in the ordering of space[perm]"""
    a = np.asarray(a)
    return a[perm] if a.ndim == 1 else a[np.ix_(perm, perm)]


# ------------------------------------------------------------------ targets
def rand_target(ctx, tab, form, as_matrix=None):
    """numpy target: a vector, or a density matrix when as_matrix (default: the kind of the state)"""
    rng = ctx.rng
    d = len(tab.sp)
    if as_matrix is None:
        as_matrix = tab.mixed
    if form == "self":
        return tab.own.copy()
    if form == "ghz":
        v = np.zeros(d, dtype=complex); v[0] = 1.0; v[d - 1] += np.exp(1j * rng.uniform(0, 2 * np.pi))
        v = v / np.sqrt(np.sum(np.abs(v) ** 2))
        return np.outer(v, v.conj()) if as_matrix else v
    if not as_matrix:
        if form == "basis":
            t = np.zeros(d, dtype=complex); t[int(rng.integers(d))] = np.exp(1j * rng.uniform(0, 2 * np.pi))
            return t
        if form == "real":
            t = rng.normal(size=d).astype(complex)
        else:
            t = rng.normal(size=d) + 1j * rng.normal(size=d)
        return t / np.sqrt(np.sum(np.abs(t) ** 2))
    # density matrices: G G^dagger of a d x r Gaussian, trace one
    if form == "basis":
        t = np.zeros((d, d), dtype=complex); k = int(rng.integers(d)); t[k, k] = 1.0
        return t
    r = int(form.split("-")[1]) if (form.startswith("rank-") and form != "rank-full") else d
    r = max(1, min(d, r))
    if form == "real":
        G = rng.normal(size=(d, d)).astype(complex)
    else:
        G = rng.normal(size=(d, r)) + 1j * rng.normal(size=(d, r))
    A = G @ G.conj().T
    A = (A + A.conj().T) / 2
    return A / np.real(np.trace(A))


# ------------------------------------------------------------------ near-degenerate targets
NEAR_EPS = [3e-13, 1e-12, 1e-10, 3e-9, 1e-8, 1e-7, 1e-6, 2e-6, 4e-6, 6e-6, 1e-5, 1e-4]     # both sides of 1e-12 / 1e-10 / 1e-8 clean-up thresholds and of
                                                                                       # isclose(purity, 1) (1 - purity ~ 2 eps <= 1e-5)
NEAR_MIXED = ["pure+white", "pure+rand", "basis+white", "rank-k+rand", "maxmixed+epsH", "near-equal-eigs", "near-commuting", "near-self"]
NEAR_PURE = ["near-self", "near-orthogonal", "near-basis"]


def near_eps(rng):
    return float(10.0 ** rng.uniform(-12.5, -4.0))


def near_target(ctx, tab, family, eps, as_matrix=None):
    """a legal normalised target at distance ~eps from a special case of the fidelity / KL formulas"""
    rng = ctx.rng
    d = len(tab.sp)
    if as_matrix is None:
        as_matrix = tab.mixed
    cvec = lambda: (lambda v: v / np.linalg.norm(v))(rng.normal(size=d) + 1j * rng.normal(size=d))

    def crho(r=d):
        G = rng.normal(size=(d, r)) + 1j * rng.normal(size=(d, r))
        A = G @ G.conj().T
        return A / np.real(np.trace(A))
    if not as_matrix:
        own = tab.own if not tab.mixed else cvec()
        p = cvec()
        p = p - np.vdot(own, p) * own
        p = p / np.linalg.norm(p)
        ph = np.exp(1j * rng.uniform(0, 2 * np.pi))
        if family == "near-self":            # 1 - F ~ eps^2: eps here is the AMPLITUDE of the orthogonal admixture
            t = own + eps * p
        elif family == "near-orthogonal":    # F ~ eps^2
            t = p + eps * own
        else:                                # near-basis: Born probabilities ~ eps / d beside one of ~1
            t = np.zeros(d, dtype=complex); t[int(rng.integers(d))] = 1.0
            t = t + math.sqrt(eps) * cvec()
        return ph * t / np.linalg.norm(t)
    if family in ("pure+white", "pure+rand", "basis+white"):
        if family == "basis+white":
            v = np.zeros(d, dtype=complex); v[int(rng.integers(d))] = 1.0
        else:
            v = cvec()
        noise = crho() if family == "pure+rand" else np.eye(d) / d
        t = (1 - eps) * np.outer(v, v.conj()) + eps * noise
    elif family == "rank-k+rand":
        k = int(rng.integers(1, d)) if d > 1 else 1
        t = (1 - eps) * crho(k) + eps * crho()
    elif family == "maxmixed+epsH":
        H = rng.normal(size=(d, d)) + 1j * rng.normal(size=(d, d))
        H = (H + H.conj().T) / 2
        H = H - np.trace(H) / d * np.eye(d)
        t = np.eye(d) / d + eps * H / (d * np.linalg.norm(H, 2))
    elif family == "near-equal-eigs":
        q, _ = np.linalg.qr(rng.normal(size=(d, d)) + 1j * rng.normal(size=(d, d)))
        w = rng.uniform(0.2, 1.0, size=d)
        w[1] = w[0] * (1 + eps)
        t = (q * (w / w.sum())) @ q.conj().T
    elif family == "near-commuting":
        own = tab.own if tab.mixed else crho()
        _, vr = np.linalg.eigh(own)
        f = rng.uniform(0.1, 1.0, size=d)
        t = (1 - eps) * (vr * (f / f.sum())) @ vr.conj().T + eps * crho()
    else:                                    # near-self: 1 - F ~ eps^2
        own = tab.own if tab.mixed else crho()
        t = (1 - eps) * own + eps * crho()
    t = (t + t.conj().T) / 2
    return t / np.real(np.trace(t))


def target_of_case(case, tab):
    if case["target_form"] == "self":
        return tab.own.copy()
    return de_c(case["target"])


def nonreal(a):
    return bool(np.max(np.abs(np.imag(a))) > 1e-6)


# ------------------------------------------------------------------ fidelity
def run_fidelity(ctx, case, tab):
    from qucumber.utils import training_statistics as ts
    m = ctx.get_model()
    s = tab.s
    t = target_of_case(case, tab)
    perm = case.get("space_perm")
    tc = permuted(t, perm) if perm else t                     # target in the ordering of the space handed in
    tt = c2t(tc)
    space = tab.space if case.get("pass_space", True) else None
    if perm:
        space = tab.space[perm]
    kw = case.get("target_kw", "positional")
    if kw == "positional":
        ok, F = ctx.call("fidelity", case, lambda: ts.fidelity(s, tt, space))
    else:
        ok, F = ctx.call("fidelity", case, lambda: ts.fidelity(s, space=space, **{kw: tt}))
    if not ok:
        return
    ctx.require("fidelity returns a plain number", is_plain_number(F), case, type(F).__name__)
    F = float(F)
    if not tab.mixed:
        want = float(abs(np.vdot(t, tab.psi)) ** 2 / np.sum(np.abs(tab.psi) ** 2))
        tol = 1e-9
        r = m.call("c10_fidelity_pure", wire_c(tc), wire_c(permuted(tab.psi, perm) if perm else tab.psi), tab.Z)
        ctx.agree("fidelity (pure) vs model", F, r[0], case)
    else:
        if case.get("near") or case.get("near_pure"):
            # near-degenerate target or nearly pure model state: exact-arithmetic oracle, tolerance from the spectrum
            want, spec, okind = uhlmann_hp(t, tab.own)
            tol = spectrum_tol(want, spec, okind)
            ctx.count("mixed_fidelity_oracle:%s" % okind)
            ctx.count("mixed_fidelity_tol(adaptive):1e%d" % int(math.floor(math.log10(tol))))
        else:
            want = uhlmann(t, tab.own)
            # sqrt of numerically-zero eigenvalues of a rank-deficient product: noise ~ sqrt(1e-16) per zero eigenvalue
            #   -> 1e-9 only when both spectra are bounded away from zero
            lam_min = min(float(np.linalg.eigvalsh((t + t.conj().T) / 2).min()), float(np.linalg.eigvalsh(tab.own).min()))
            tol = 1e-9 if lam_min > 1e-6 else 1e-6
            ctx.count("mixed_fidelity_tol:%g" % tol)
        if tab.slack > 0:
            tol += 2 * tab.slack
            ctx.count("softplus_threshold_regime (aux unit above torch's threshold 20): tolerance + 2 x dropped term")
        rho_c = permuted(tab.rho, perm) if perm else tab.rho
        M = m.call("c10_fidelity_mixed_matrix", wire_c(tc), wire_c(rho_c), tab.Z)
        Mc = np.array([[complex(z[0], z[1]) for z in row] for row in M])
        ev = np.linalg.eigvals(Mc)
        r = m.call("c10_fidelity_mixed", wire_c(tc), wire_c(rho_c), tab.Z, wire_c(ev))
        ctx.agree("fidelity (mixed) vs model", F, r[0], case, rtol=1e-7, atol=max(tol, 1e-9) * 10)
        ctx.agree("matrix handed to eigvals == target @ rho/Z", ser_flat(Mc), ser_flat(tc @ (rho_c / tab.Z)), case)
    ctx.agree_exact("fidelity result kind", 0 if is_plain_number(F) else 1, int(r[1]), case)
    what = "fidelity == |<t|psi>|^2/Z" if not tab.mixed else "fidelity == Uhlmann fidelity"
    ctx.require(what, abs(F - want) <= tol + 1e-9 * abs(want), case, {"impl": F, "oracle": want, "tol": tol})
    if case.get("near") or case.get("near_pure"):
        ratio = abs(F - want) / (tol + 1e-9 * abs(want))
        ctx.count("near_degenerate |impl-oracle|/tol %s" % ("<=0.01" if ratio <= 0.01 else "<=0.1" if ratio <= 0.1 else "<=0.5" if ratio <= 0.5 else "<=1" if ratio <= 1 else ">1"))
        if ratio > 0.1:
            ctx.count("near_degenerate |impl-oracle|/tol > 0.1 at: %s nv=%d%s tol=1e%d" % (case["target_form"], case["nv"], " nearly pure model" if case.get("near_pure") else "",
                                                                                  int(math.floor(math.log10(tol)))))
    ctx.require("fidelity in [0,1]", -max(tol, 1e-9) <= F <= 1 + max(tol, 1e-9), case, F)
    if case["target_form"] == "self":
        ctx.require("self-fidelity == 1", abs(F - 1) <= max(tol, 1e-9), case, F)
    if not tab.mixed:
        th = case.get("theta", 0.7)
        ok, F2 = ctx.call("fidelity (phase-rotated target)", case, lambda: ts.fidelity(s, c2t(np.exp(1j * th) * tc), space if perm else tab.space))
        if ok:
            ctx.require("fidelity invariant under a global phase of the target", abs(float(F2) - F) <= 1e-9, case,
                        {"F": F, "F_phase": float(F2), "theta": th})


def ser_flat(a):
    a = np.asarray(a, dtype=complex).ravel()
    return np.concatenate([a.real, a.imag]).tolist()


# ------------------------------------------------------------------ KL
def run_kl(ctx, case, tab):
    import torch
    from qucumber.utils import training_statistics as ts
    m = ctx.get_model()
    s = tab.s
    t = target_of_case(case, tab)
    form = case["bases_form"]            # none | list | dict | dict+bases
    bases = case.get("bases")
    space = tab.space if case.get("pass_space", True) else None
    nv = case["nv"]
    tmixed = (np.asarray(t).ndim == 2)   # kind of the TARGET (bases=None accepts either kind for either state type)
    perm = case.get("space_perm") if form == "none" else None
    if perm:
        space = tab.space[perm]
    if form in ("dict", "dict+bases"):
        keys = case["dict_keys"]
        if tab.mixed:
            rot = {b: dense_U(b, tab.u1) @ t @ dense_U(b, tab.u1).conj().T for b in keys}
        else:
            rot = {b: dense_U(b, tab.u1) @ t for b in keys}
        target_arg = {b: c2t(rot[b]) for b in keys}
        call_bases = bases if form == "dict+bases" else None
        eff_bases = bases if form == "dict+bases" else keys
    else:
        target_arg = c2t(permuted(t, perm) if perm else t)
        call_bases = bases if form == "list" else None
        eff_bases = bases if form == "list" else None
    cont = case.get("bases_container", "list")
    if call_bases is not None and cont == "tuple":
        call_bases = tuple(call_bases)
    elif call_bases is not None and cont == "ndarray":
        call_bases = np.array(call_bases)
    kw = case.get("target_kw", "positional")
    if kw == "positional" and case.get("bases_pos"):
        # the documented positional order KL(nn_state, target, space, bases)
        ok, K = ctx.call("KL", case, lambda: ts.KL(s, target_arg, space, call_bases))
    elif kw == "positional":
        ok, K = ctx.call("KL", case, lambda: ts.KL(s, target_arg, space, bases=call_bases))
    else:
        ok, K = ctx.call("KL", case, lambda: ts.KL(s, space=space, bases=call_bases, **{kw: target_arg}))
    if not ok:
        return
    ctx.require("KL returns a plain number", is_plain_number(K), case, type(K).__name__)
    K = float(K)
    # ---- model
    sp = tab.sp
    r = None
    if eff_bases is None:
        spm = sp[perm] if perm else sp
        tm = permuted(t, perm) if perm else t
        r = m.call("c10_kl_none_mixed" if tmixed else "c10_kl_none_pure", wire_c(tm), tab.pr, tab.Z, spm)
    elif tab.u1 is not None:
        ctx.count("model_not_asked:state with its own dictionary (the model's X, Y are the default matrices)")
    else:
        wb = wire_bases(eff_bases)
        if form in ("dict", "dict+bases"):
            mode, tw, kw = 1, [wire_c(rot[b]) for b in keys], wire_bases(keys)
        else:
            mode, tw, kw = 0, wire_c(t), []
        if tab.mixed:
            r = m.call("c10_kl_bases_mixed", mode, tw, kw, tab.tab_wire(), tab.Z, sp, wb)
        else:
            r = m.call("c10_kl_bases_pure", mode, tw, kw, tab.tab_wire(), tab.Z, wb)
    if r is not None:
        ctx.agree("KL vs model", K, r[0], case, rtol=1e-7, atol=1e-9)
        ctx.agree_exact("KL result kind", 0 if is_plain_number(K) else 1, int(r[1]), case)
    # ---- oracle
    obases = eff_bases if eff_bases is not None else ["Z" * nv]
    qs = [tab.born(b) for b in obases]
    tsb = [born_target(tmixed, t, b, tab.u1) for b in obases]
    if min(float(q.min()) for q in qs) < PMIN:
        ctx.count("oracle_skipped_clamp:KL")
        return
    want = float(np.mean([kl_div(a, q) for a, q in zip(tsb, qs)]))
    scale = max(1.0, max(float(np.max(np.abs(np.log(q)))) for q in qs))
    what = "KL == mean basis KL (numpy oracle)"
    sl = 2 * tab.slack                                        # softplus-threshold regime (see Tab): 0 otherwise
    if sl > 0:
        ctx.count("softplus_threshold_regime (aux unit above torch's threshold 20): tolerance + 2 x dropped term")
    ctx.require(what, abs(K - want) <= 1e-9 * scale + 1e-9 * abs(want) + sl, case, {"impl": K, "oracle": want})
    ctx.require("KL >= 0", K >= -1e-9 * scale - sl, case, K)
    if case["target_form"] == "self":
        ctx.require("self-KL == 0 in every requested basis", abs(K) <= 1e-9 * scale + sl, case, K)


# ------------------------------------------------------------------ NLL
def run_nll(ctx, case, tab):
    import torch
    from qucumber.utils import training_statistics as ts
    m = ctx.get_model()
    s = tab.s
    samples_l = case["samples"]
    samples = torch.tensor(samples_l, dtype=torch.double)
    sb = case.get("sample_bases")
    space = tab.space if case.get("pass_space", True) else None
    if case.get("space_perm"):
        space = tab.space[case["space_perm"]]
    if sb is None:
        ok, L = ctx.call("NLL", case, lambda: ts.NLL(s, samples, space))
    else:
        sba = np.array([list(b) for b in sb])
        if case.get("sb_pos"):
            # the documented positional order NLL(nn_state, samples, space, sample_bases)
            ok, L = ctx.call("NLL", case, lambda: ts.NLL(s, samples, space, sba))
        else:
            ok, L = ctx.call("NLL", case, lambda: ts.NLL(s, samples, space, sample_bases=sba))
    if not ok:
        return
    ctx.require("NLL returns a plain number", is_plain_number(L), case, type(L).__name__)
    L = float(L)
    r = None
    if sb is None:
        r = m.call("c10_nll_plain", tab.pr, tab.Z, samples_l)
    elif tab.u1 is not None:
        ctx.count("model_not_asked:state with its own dictionary (the model's X, Y are the default matrices)")
    else:
        r = m.call("c10_nll_bases", 1 if tab.mixed else 0, tab.tab_wire(), tab.pr, tab.Z, wire_bases(sb), samples_l)
        # any grouping: the unique rows in numpy's sorted order and in reversed order give the same value
        ub = sorted(set(sb))
        r2 = m.call("c10_nll_bases_ub", 1 if tab.mixed else 0, tab.tab_wire(), tab.pr, tab.Z, wire_bases(ub[::-1]), wire_bases(sb), samples_l)
        ctx.agree("NLL vs model (other order of the unique bases)", L, r2[0], case, rtol=1e-7, atol=1e-9)
    if r is not None:
        ctx.agree("NLL vs model", L, r[0], case, rtol=1e-7, atol=1e-9)
        ctx.agree_exact("NLL result kind", 0 if is_plain_number(L) else 1, int(r[1]), case)
    # ---- oracle: every sample in its own basis
    nv = case["nv"]
    idx = [int("".join(str(int(x)) for x in row), 2) for row in samples_l]
    cache = {}
    ps = []
    for i, k in enumerate(idx):
        b = "Z" * nv if sb is None else sb[i]
        if b not in cache:
            cache[b] = tab.born(b)
        ps.append(float(cache[b][k]))
    if min(ps) < PMIN:
        ctx.count("oracle_skipped_clamp:NLL")
        return
    want = -float(np.mean(np.log(ps)))
    ctx.require("NLL == -mean log Born probability of each sample in its own basis",
                abs(L - want) <= 1e-9 * max(1.0, abs(want)) + 2 * tab.slack, case, {"impl": L, "oracle": want})


# ------------------------------------------------------------------ MetricEvaluator passes the values through
def run_evaluator(ctx, case, tab):
    import torch
    from qucumber.utils import training_statistics as ts
    from qucumber.callbacks import MetricEvaluator
    s = tab.s
    t = c2t(target_of_case(case, tab))
    samples = torch.tensor(case["samples"], dtype=torch.double)
    sba = np.array([list(b) for b in case["sample_bases"]])
    bases = case["bases"]

    def go():
        me = MetricEvaluator(1, {"F": ts.fidelity, "KL": ts.KL, "NLL": ts.NLL}, target=t, bases=bases, space=tab.space,
                             samples=samples, sample_bases=sba)
        me.on_epoch_end(s, 1)
        return dict(me.last), (ts.fidelity(s, t, tab.space), ts.KL(s, t, tab.space, bases=bases),
                               ts.NLL(s, samples, tab.space, sample_bases=sba))
    ok, out = ctx.call("MetricEvaluator", case, go)
    if not ok:
        return
    last, direct = out
    for name, d in zip(("F", "KL", "NLL"), direct):
        ctx.require("MetricEvaluator records the metric value as a plain number", is_plain_number(last[name]) and
                    float(last[name]) == float(d), case, {"metric": name, "recorded": repr(last[name]), "direct": repr(d)})


# ------------------------------------------------------------------ history on ONE evaluator and ONE state object
def oracle_values(tab, t, bases, samples_l, sb, nv):
    """numpy values of (fidelity, KL over bases, NLL with per-sample bases) and their tolerances; None = skipped (clamp)"""
    if tab.mixed:
        lam_min = min(float(np.linalg.eigvalsh((t + t.conj().T) / 2).min()), float(np.linalg.eigvalsh(tab.own).min()))
        F = (uhlmann(t, tab.own), (1e-9 if lam_min > 1e-6 else 1e-6) + 2 * tab.slack)
    else:
        F = (float(abs(np.vdot(t, tab.psi)) ** 2 / np.sum(np.abs(tab.psi) ** 2)), 1e-9)
    qs = [tab.born(b) for b in bases]
    K = None
    if min(float(q.min()) for q in qs) >= PMIN:
        scale = max(1.0, max(float(np.max(np.abs(np.log(q)))) for q in qs))
        K = (float(np.mean([kl_div(born_target(tab.mixed, t, b, tab.u1), q) for b, q in zip(bases, qs)])), 1e-9 * scale + 2 * tab.slack)
    idx = [int("".join(str(int(x)) for x in row), 2) for row in samples_l]
    ps = [float(tab.born(sb[i])[k]) for i, k in enumerate(idx)]
    L = None
    if ps and min(ps) >= PMIN:
        w = -float(np.mean(np.log(ps)))
        L = (w, 1e-9 * max(1.0, abs(w)) + 2 * tab.slack)
    return {"F": F, "KL": K, "NLL": L}


def run_evaluator_history(ctx, case, tab):
    """MetricEvaluator.on_epoch_end twice on the same evaluator and the same state object, the parameters changed in
    place in between: each record must hold the metric of the parameters the state had AT THAT epoch."""
    import torch
    from qucumber.utils import training_statistics as ts
    from qucumber.callbacks import MetricEvaluator
    kind, nv = case["state"], case["nv"]
    prev = dict(case, am=case["prev"]["am"], ph=case["prev"]["ph"])
    tabs = [Tab(build_state(prev), kind, u1=u1_of(case)), Tab(build_state(case), kind, u1=u1_of(case))]   # fresh objects: tables for the oracle
    t_np = de_c(case["target"])
    t = c2t(t_np)
    samples = torch.tensor(case["samples"], dtype=torch.double)
    sb = case["sample_bases"]
    sba = np.array([list(b) for b in sb])
    bases = case["bases"]
    s = build_state(prev)

    def go():
        me = MetricEvaluator(1, {"F": ts.fidelity, "KL": ts.KL, "NLL": ts.NLL}, target=t, bases=bases, space=tabs[0].space,
                             samples=samples, sample_bases=sba)
        me.on_epoch_end(s, 1)
        apply_params(s, case)
        me.on_epoch_end(s, 2)
        return [dict(v) for _, v in me.past_values]
    ok, recs = ctx.call("MetricEvaluator history", case, go)
    if not ok:
        return
    ctx.require("MetricEvaluator keeps one record per evaluated epoch", len(recs) == 2, case, len(recs))
    for ep, (rec, tb) in enumerate(zip(recs, tabs), start=1):
        want = oracle_values(tb, t_np, bases, case["samples"], sb, nv)
        for name in ("F", "KL", "NLL"):
            if want[name] is None:
                ctx.count("oracle_skipped_clamp:evaluator")
                continue
            w, tol = want[name]
            ctx.require("MetricEvaluator record == metric of the state's parameters at that epoch (same object, parameters changed in between)",
                        is_plain_number(rec[name]) and abs(float(rec[name]) - w) <= tol + 1e-9 * abs(w), case,
                        {"epoch": ep, "metric": name, "recorded": repr(rec[name]), "oracle": w})


# ------------------------------------------------------------------ history on ONE target tensor
def run_target_history(ctx, case, tab):
    """The target lives in ONE tensor (and one dict of pre-rotated tensors) whose content is replaced in place between two
    rounds of metric calls (a preallocated buffer; scanning reference states): every value must be the metric of the content
    the tensor holds AT THE TIME OF THE CALL."""
    import torch
    from qucumber.utils import training_statistics as ts
    s, nv, bases = tab.s, case["nv"], case["bases"]
    contents = [de_c(case["target"]), tab.own.copy() if case.get("target2_form", "self") == "self" else de_c(case["target2"])]
    if case.get("swap_order"):
        contents = contents[::-1]

    def rotated(t, b):
        U = dense_U(b, tab.u1)
        return U @ t @ U.conj().T if tab.mixed else U @ t
    buf = c2t(contents[0])
    bufd = {b: c2t(rotated(contents[0], b)) for b in bases}
    calls = [("fidelity(target buffer)", "F", lambda: ts.fidelity(s, buf, tab.space)),
             ("KL(target buffer)", "KLnone", lambda: ts.KL(s, buf, tab.space)),
             ("KL(target buffer, bases)", "KL", lambda: ts.KL(s, buf, tab.space, bases=bases)),
             ("KL(dict of pre-rotated target buffers, bases)", "KL", lambda: ts.KL(s, bufd, tab.space, bases=bases))]
    smp = case.get("samples_rounds")                             # the same for ONE sample tensor and ONE sample_bases array
    if smp:
        sbuf = torch.tensor(smp[0], dtype=torch.double)
        sbb = np.array([list(b) for b in case["sample_bases_rounds"][0]])
        calls.append(("NLL(sample buffer, sample_bases buffer)", "NLL", lambda: ts.NLL(s, sbuf, tab.space, sample_bases=sbb)))
    for rnd, t in enumerate(contents):
        if rnd > 0:
            buf.copy_(c2t(t))                                   # same tensor objects, new content
            for b in bases:
                bufd[b].copy_(c2t(rotated(t, b)))
            if smp:
                sbuf.copy_(torch.tensor(smp[rnd], dtype=torch.double))
                sbb[...] = np.array([list(b) for b in case["sample_bases_rounds"][rnd]])
        want = oracle_values(tab, t, bases, smp[rnd] if smp else [], case["sample_bases_rounds"][rnd] if smp else [], nv)
        q0 = tab.born("Z" * nv)
        want["KLnone"] = None
        if float(q0.min()) >= PMIN:
            want["KLnone"] = (kl_div(born_target(tab.mixed, t, "Z" * nv, tab.u1), q0), 1e-9 * max(1.0, float(np.max(np.abs(np.log(q0))))) + 2 * tab.slack)
        for name, key, fn in calls:
            ok, val = ctx.call(name, case, fn)
            if not ok:
                continue
            if want[key] is None:
                ctx.count("oracle_skipped_clamp:target_history")
                continue
            w, tol = want[key]
            ctx.require("metric of a target tensor == metric of the content it holds at the time of the call (content replaced in place between calls)",
                        is_plain_number(val) and abs(float(val) - w) <= tol + 1e-9 * abs(w), case,
                        {"call": name, "round": rnd + 1, "impl": repr(val), "oracle": w})


RUNNERS = {"fidelity": run_fidelity, "KL": run_kl, "NLL": run_nll, "evaluator": run_evaluator,
           "evaluator_history": run_evaluator_history, "target_history": run_target_history}


def run_case(ctx, case, tab=None):
    if tab is None:
        tab = make_tab(case)
    RUNNERS[case["fn"]](ctx, case, tab)
    ctx.traces += 1


# ------------------------------------------------------------------ generation
def rand_bases(ctx, nv, k, force_y=False):
    rng = ctx.rng
    allb = gen.all_bases(nv)
    k = min(k, len(allb))
    pick = [allb[i] for i in rng.choice(len(allb), size=k, replace=False)]
    if force_y and not any("Y" in b for b in pick):
        pick[0] = "".join(rng.choice(list("XYZ"), size=nv - 1).tolist() + ["Y"]) if nv > 1 else "Y"
        pick = list(dict.fromkeys(pick))
    return pick


def rand_samples(ctx, nv, N):
    sp = gen.all_states(nv)
    return sp[ctx.rng.integers(0, len(sp), size=N)].astype(int).tolist()


def target_forms(tab, thorough, rng):
    d = len(tab.sp)
    if tab.mixed:
        ranks = list(range(1, d + 1)) if (thorough or d <= 4) else sorted(set([1, d] + rng.integers(1, d + 1, size=2).tolist()))
        return ["self", "real", "basis", "ghz"] + ["rank-%d" % r if r < d else "rank-full" for r in ranks]
    return ["self", "real", "basis", "ghz", "complex", "complex"]


def rotate_call_forms(cases):
    """every second KL call with bases= and every second NLL call with sample_bases= passes them POSITIONALLY, in the documented
    order KL(nn_state, target, space, bases) / NLL(nn_state, samples, space, sample_bases)"""
    k = j = 0
    for c in cases:
        if c["fn"] == "KL" and c.get("bases") is not None and c.get("bases_form") in ("list", "dict+bases"):
            k += 1
            if k % 2:
                c["bases_pos"] = True
                c["target_kw"] = "positional"
        if c["fn"] == "NLL" and c.get("sample_bases"):
            j += 1
            if j % 2:
                c["sb_pos"] = True
        yield c


def cases_for_state(ctx, base, tab, lite=False, near=None, only_near=False):
    return rotate_call_forms(_cases_for_state(ctx, base, tab, lite, near, only_near))


NEAR_AMP = [1e-6, 1e-5, 1e-4, 1e-3, 3e-3, 1e-2]        # amplitude / weight of the admixture for the families whose metric moves with eps^2


def _cases_for_state(ctx, base, tab, lite=False, near=None, only_near=False):
    """yield the cases (dicts) exercised on one state (lite: only the fixed-first block; near: which near-degenerate cases —
    'grid' / 'some' (fixed eps grids), 'model' (nearly pure model state), 'random' (log-uniform eps; always in the full stream))"""
    rng = ctx.rng
    nv = base["nv"]
    thorough = ctx.thorough
    forms = target_forms(tab, thorough, rng)

    KWS = ["positional", "target", "target_psi", "target_rho"]     # the last two: deprecated aliases (deprecated_kwarg)
    kw_i = [int(rng.integers(len(KWS)))]

    def with_target(c, form):
        c = dict(base, **c)
        c["target_form"] = form
        if c["fn"] in ("fidelity", "KL"):
            c["target_kw"] = KWS[kw_i[0] % len(KWS)]                  # round robin: every form occurs on every state
            kw_i[0] += 1
            if c.get("bases") is not None:
                c["bases_container"] = ["list", "tuple", "ndarray"][int(rng.integers(3))]
        if form.startswith("near:"):
            c["near"] = form[5:]
            c["target"] = ser_c(near_target(ctx, tab, c["near"], c["eps"], as_matrix=c.pop("as_matrix", None)))
        elif form != "self":
            c["target"] = ser_c(rand_target(ctx, tab, form, as_matrix=c.pop("as_matrix", None)))
        return c

    d = len(tab.sp)

    # ---- near-degenerate inputs (seed round 4): targets eps away from a special case of the formulas
    def near_cases(mode):
        sq = ("near-self", "near-orthogonal")

        def fid(fam, eps, **kw):
            return with_target(dict({"fn": "fidelity", "eps": float(eps), "theta": float(rng.uniform(0.1, 6.2)),
                                     "pass_space": bool(rng.random() < 0.7)}, **kw), "near:" + fam)

        def kl(fam, eps, listed, **kw):
            c = {"fn": "KL", "eps": float(eps), "bases_form": "list" if listed else "none", "pass_space": bool(rng.random() < 0.7)}
            if listed:
                c["bases"] = rand_bases(ctx, nv, int(rng.integers(1, 4)), force_y=True)
            return with_target(dict(c, **kw), "near:" + fam)
        fams = NEAR_MIXED if tab.mixed else NEAR_PURE
        klf = ["pure+white", "basis+white", "pure+rand", "rank-k+rand"] if tab.mixed else ["near-basis", "near-self", "near-orthogonal"]
        if mode == "grid":
            for fam in fams:
                full = fam in ("pure+white", "pure+rand")
                grid = NEAR_AMP if fam in sq else (NEAR_EPS if full else [NEAR_EPS[i] for i in (1, 4, 6, 10)])
                for eps in grid:
                    yield fid(fam, eps)
            for k, fam in enumerate(klf):
                for eps in ([1e-12, 1e-9, 1e-6, 1e-4] if fam not in sq else [1e-6, 1e-3]):
                    yield kl(fam, eps, False)
                    yield kl(fam, eps, True)
            for eps in (1e-10, 1e-5):        # the other kind of target with tiny non-zero probabilities (bases=None accepts either)
                yield kl("basis+white" if not tab.mixed else "near-basis", eps, False, as_matrix=not tab.mixed, cross_kind=True)
        elif mode == "some":
            for k, fam in enumerate(fams):
                grid = NEAR_AMP if fam in sq else NEAR_EPS
                for j in range(3):
                    yield fid(fam, grid[(k + 4 * j + (j * j)) % len(grid)])
            for k, fam in enumerate(klf):
                yield kl(fam, [1e-11, 1e-8, 1e-5][k % 3] if fam not in sq else 1e-4, bool(k % 2))
        elif mode == "model":
            # nearly pure MODEL state: the ordinary targets and nearly pure targets against it
            for form in ("self", "rank-1", "rank-full", "real", "basis", "ghz"):
                yield with_target({"fn": "fidelity", "pass_space": bool(rng.random() < 0.7)}, form)
            for fam, eps in (("pure+white", 1e-7), ("pure+rand", 2e-6), ("near-self", 1e-3), ("near-commuting", 1e-6), ("maxmixed+epsH", 1e-5)):
                yield fid(fam, eps)
            for form in ("self", "rank-full"):
                yield with_target({"fn": "KL", "bases_form": "none"}, form)
                yield with_target({"fn": "KL", "bases_form": "list", "bases": rand_bases(ctx, nv, 2, force_y=True)}, form)
            yield dict(base, fn="NLL", samples=rand_samples(ctx, nv, 6), sample_bases=[str(b) for b in rng.choice(gen.all_bases(nv), size=6)])
        else:                                # random stream
            first = ["pure+white", "pure+rand", "basis+white", "rank-k+rand"] if tab.mixed else ["near-self", "near-orthogonal"]
            picks = [first[int(rng.integers(len(first)))], first[int(rng.integers(len(first)))]] + \
                    [fams[int(rng.integers(len(fams)))] for _ in range(2 if tab.mixed else 1)]
            if tab.mixed and d >= 16:
                picks = picks[1:3]               # the 40-digit oracle costs ~0.3 s at d = 16: one of each group
            for fam in picks:
                e = near_eps(rng)
                yield fid(fam, math.sqrt(e) if fam in sq else e)
            for listed in (False, True):
                fam = klf[int(rng.integers(len(klf)))]
                e = near_eps(rng)
                yield kl(fam, math.sqrt(e) if fam in sq else e, listed)

    if near:
        yield from near_cases(near)
    if only_near:
        return

    def rperm():
        q = rng.permutation(d).tolist()
        return q if q != list(range(d)) else q[::-1]

    def repeated(bs):
        """a bases list with repeated entries (the value is the plain mean over the list as given)"""
        bs = list(bs) + [bs[int(rng.integers(len(bs)))]]
        if rng.random() < 0.5:
            bs = bs + [bs[0]]
        return [bs[i] for i in rng.permutation(len(bs))]

    rnd_form = "complex" if not tab.mixed else "rank-full"
    # ---- regimes found unexercised by the red team; they run FIRST on every state
    # (1) KL(bases=None) with the other kind of target: density matrix for a wavefunction state, vector for a mixed state
    for form in (["rank-full", "ghz", "rank-1"] if not tab.mixed else ["complex", "ghz", "basis"]):
        yield with_target({"fn": "KL", "bases_form": "none", "as_matrix": not tab.mixed, "cross_kind": True,
                           "pass_space": bool(rng.random() < 0.7)}, form)
    # (2) `space` = a row permutation of the basis, target given in that ordering (fidelity, KL(bases=None), NLL)
    for form in ("self", rnd_form):
        yield with_target({"fn": "fidelity", "space_perm": rperm(), "theta": float(rng.uniform(0.1, 6.2))}, form)
        yield with_target({"fn": "KL", "bases_form": "none", "space_perm": rperm()}, form)
    yield with_target({"fn": "KL", "bases_form": "none", "space_perm": rperm(), "as_matrix": not tab.mixed, "cross_kind": True},
                      "rank-full" if not tab.mixed else "complex")
    yield dict(base, fn="NLL", samples=rand_samples(ctx, nv, 7), sample_bases=None, space_perm=rperm())
    yield dict(base, fn="NLL", samples=rand_samples(ctx, nv, 7), space_perm=rperm(),
               sample_bases=[str(b) for b in rng.choice(gen.all_bases(nv), size=7)])
    # (3) a bases list that names a basis more than once
    for form in ("self", rnd_form):
        yield with_target({"fn": "KL", "bases_form": "list", "repeated_bases": True,
                           "bases": repeated(rand_bases(ctx, nv, int(rng.integers(1, 4)), force_y=True))}, form)
    keys = rand_bases(ctx, nv, int(rng.integers(1, 4)), force_y=True)
    yield with_target({"fn": "KL", "bases_form": "dict+bases", "dict_keys": keys, "bases": repeated(keys), "repeated_bases": True}, rnd_form)
    # (4) ONE target tensor (and one dict of pre-rotated tensors) whose content is replaced in place between two rounds of calls
    def buffers(c):
        c["samples_rounds"] = [rand_samples(ctx, nv, 5), rand_samples(ctx, nv, 5)]
        c["sample_bases_rounds"] = [[str(b) for b in rng.choice(gen.all_bases(nv), size=5)] for _ in range(2)]
        return c
    yield buffers(with_target({"fn": "target_history", "bases": rand_bases(ctx, nv, 2, force_y=True), "target2_form": "self",
                               "swap_order": bool(rng.random() < 0.5)}, rnd_form))
    c = buffers(with_target({"fn": "target_history", "bases": rand_bases(ctx, nv, 2, force_y=True), "target2_form": "other"}, rnd_form))
    c["target2"] = ser_c(rand_target(ctx, tab, rnd_form))
    yield c
    if lite:
        return

    # fidelity
    for form in forms:
        yield with_target({"fn": "fidelity", "pass_space": bool(rng.random() < 0.7), "theta": float(rng.uniform(0.1, 6.2))}, form)
    yield from near_cases("random")
    # KL
    kl_forms = ["self", "complex" if not tab.mixed else "rank-full", "real", "basis", "ghz"]
    if tab.mixed:
        kl_forms += ["rank-1" if len(tab.sp) > 1 else "rank-full", "rank-%d" % max(1, len(tab.sp) // 2) if len(tab.sp) > 2 else "rank-full"]
    for form in kl_forms:
        yield with_target({"fn": "KL", "bases_form": "none", "pass_space": bool(rng.random() < 0.7)}, form)
        if thorough and nv <= 2:
            yield with_target({"fn": "KL", "bases_form": "list", "bases": gen.all_bases(nv)}, form)
        yield with_target({"fn": "KL", "bases_form": "list", "bases": rand_bases(ctx, nv, int(rng.integers(1, 5)), force_y=True)}, form)
        yield with_target({"fn": "KL", "bases_form": "list", "bases": [str(rng.choice(gen.all_bases(nv)))]}, form)
        keys = rand_bases(ctx, nv, int(rng.integers(1, 4)), force_y=bool(rng.random() < 0.7))
        yield with_target({"fn": "KL", "bases_form": "dict", "dict_keys": keys}, form)
        perm = [keys[i] for i in rng.permutation(len(keys))]
        yield with_target({"fn": "KL", "bases_form": "dict+bases", "dict_keys": keys, "bases": perm}, form)
    # NLL
    for N in ([1, 5, 12] if not thorough else [1, 3, 8, 20]):
        yield dict(base, fn="NLL", samples=rand_samples(ctx, nv, N), sample_bases=None, pass_space=bool(rng.random() < 0.7))
        pool = rand_bases(ctx, nv, int(rng.integers(1, 4)), force_y=True) + ["Z" * nv]
        sb = [pool[i] for i in rng.integers(0, len(pool), size=N)]
        yield dict(base, fn="NLL", samples=rand_samples(ctx, nv, N), sample_bases=sb, pass_space=bool(rng.random() < 0.7))
    yield dict(base, fn="NLL", samples=rand_samples(ctx, nv, 4), sample_bases=["Z" * nv] * 4)            # all-Z rows only
    b1 = rand_bases(ctx, nv, 1, force_y=True)[0]
    yield dict(base, fn="NLL", samples=rand_samples(ctx, nv, 6), sample_bases=[b1] * 6)                  # one rotated basis
    full = [str(b) for b in rng.choice(gen.all_bases(nv), size=10)]
    yield dict(base, fn="NLL", samples=rand_samples(ctx, nv, 10), sample_bases=full)                      # fully mixed batch
    # MetricEvaluator
    c = with_target({"fn": "evaluator", "bases": rand_bases(ctx, nv, 2, force_y=True), "samples": rand_samples(ctx, nv, 5)},
                    "complex" if not tab.mixed else "rank-full")
    c["sample_bases"] = [str(b) for b in rng.choice(gen.all_bases(nv), size=5)]
    yield c


def history_cases(ctx, base2, tab2):
    return rotate_call_forms(_history_cases(ctx, base2, tab2))


def _history_cases(ctx, base2, tab2):
    """cases run on an object whose parameters were changed after every metric had been evaluated on it"""
    rng = ctx.rng
    nv = base2["nv"]
    rnd_form = "complex" if not tab2.mixed else "rank-full"

    def with_target(c, form):
        c = dict(base2, **c)
        c["target_form"] = form
        if form != "self":
            c["target"] = ser_c(rand_target(ctx, tab2, form))
        return c
    for form in ("self", rnd_form):
        yield with_target({"fn": "fidelity", "theta": float(rng.uniform(0.1, 6.2)), "pass_space": bool(rng.random() < 0.5)}, form)
        yield with_target({"fn": "KL", "bases_form": "none", "pass_space": bool(rng.random() < 0.5)}, form)
        yield with_target({"fn": "KL", "bases_form": "list", "bases": rand_bases(ctx, nv, 2, force_y=True)}, form)
    keys = rand_bases(ctx, nv, 2, force_y=True)
    yield with_target({"fn": "KL", "bases_form": "dict", "dict_keys": keys}, rnd_form)
    yield dict(base2, fn="NLL", samples=rand_samples(ctx, nv, 6), sample_bases=None, pass_space=bool(rng.random() < 0.5))
    yield dict(base2, fn="NLL", samples=rand_samples(ctx, nv, 6), sample_bases=[str(b) for b in rng.choice(gen.all_bases(nv), size=6)])
    c = with_target({"fn": "evaluator_history", "bases": rand_bases(ctx, nv, 2, force_y=True), "samples": rand_samples(ctx, nv, 5)}, rnd_form)
    c["sample_bases"] = [str(b) for b in rng.choice(gen.all_bases(nv), size=5)]
    yield c


def change_parameters(ctx, base, s_old, mode=None):
    """history step on the SAME object: a tiny fit, new parameter tensors assigned (`p.data = new`), or the existing parameter
    tensors edited in place through `.data` (mode 'inplace'); returns the new case base"""
    rng = ctx.rng
    kind, nv = base["state"], base["nv"]
    if mode is None:
        u = rng.random()
        mode = "fit" if u < 0.3 else ("inplace" if u < 0.65 else "set")
    new = None
    if mode == "fit":
        try:
            ctx.torch_seed()
            data = gen.all_states(nv)[rng.integers(0, 2 ** nv, size=6)]
            kw = dict(epochs=2, pos_batch_size=3, neg_batch_size=3, k=1, lr=0.3)
            if kind != "positive":
                # fit needs reference-basis (all-Z) rows for its negative phase: two of the six rows are all-Z
                kw["input_bases"] = np.array([list("Z" * nv)] * 2 + [list(str(b)) for b in rng.choice(gen.all_bases(nv), size=4)])
            s_old.fit(data, **kw)
            am, ph = read_params(s_old, kind)
            new = dict(base, am=am, ph=ph)
            if not all(np.all(np.isfinite(np.array(x))) for x in am + (ph or [])):
                new = None
        except Exception:
            new = None
        if new is None:
            ctx.count("history_fit_unusable")
            mode = "set"
    if new is None:
        fresh = new_state_case(ctx, kind, nv, base["nh"], base["na"])
        new = dict(base, am=fresh["am"], ph=fresh["ph"])
        if mode == "inplace":
            set_params_inplace(s_old, new, rng)
        else:
            set_params(s_old, new)
    new["prev"] = {"am": base["am"], "ph": base["ph"]}
    new["history"] = mode
    new["large_bias"] = False if mode in ("set", "inplace") else base.get("large_bias", False)
    return new


def nontrivial(case):
    if case.get("prev") or case.get("space_perm") or case.get("cross_kind") or case.get("repeated_bases") or case.get("udict") \
            or case["fn"] == "target_history" or case.get("near") or case.get("near_pure"):
        return True
    if case["fn"] == "NLL":
        sb = case.get("sample_bases")
        return bool(sb) and (len(set(sb)) > 1 or any("Y" in b for b in sb))
    bs = (case.get("bases") or []) + (case.get("dict_keys") or [])
    if any("Y" in b for b in bs):
        return True
    t = case.get("target")
    return bool(t) and bool(np.max(np.abs(np.array(t["im"]))) > 1e-6)


def describe(case):
    d = {k: case.get(k) for k in ("fn", "state", "nv", "nh", "na", "target_form", "bases_form", "bases", "dict_keys", "sample_bases", "pass_space", "target_kw", "bases_container",
                                     "space_perm", "cross_kind", "repeated_bases", "history", "large_bias", "bases_pos", "sb_pos", "via_module",
                                     "target2_form", "swap_order", "near", "eps", "near_pure")}
    if case.get("udict"):
        d["udict"] = sorted(case["udict"])
        d["u00"] = [v["re"][0][0] for _, v in sorted(case["udict"].items())]
    d["am00"] = case["am"][0][0][0]
    if case.get("samples") is not None:
        d["n_samples"] = len(case["samples"])
    if case.get("target") is not None:
        d["t0"] = [np.ravel(case["target"]["re"])[0].item(), np.ravel(case["target"]["im"])[0].item()]
    return d


def shapes(ctx):
    if ctx.thorough:
        return {"positive": [(1, 1), (1, 2), (2, 1), (2, 3), (3, 2), (3, 4), (4, 3), (4, 5)],
                "complex": [(1, 2), (2, 2), (2, 3), (3, 1), (3, 4), (4, 2), (4, 4)],
                "mixed": [(1, 1, 1), (1, 2, 2), (2, 1, 2), (2, 3, 1), (3, 2, 2), (3, 3, 4), (4, 2, 3), (4, 3, 2)]}
    return {"positive": [(1, 2), (2, 3), (3, 2)],
            "complex": [(1, 1), (2, 3), (3, 2)],
            "mixed": [(1, 2, 1), (2, 1, 2), (2, 3, 2), (3, 2, 3)]}


def register(ctx, case, kind, nv):
    ctx.case(describe(case), nontrivial=nontrivial(case))
    ctx.count("fn:" + case["fn"]); ctx.count("state:" + kind); ctx.count("nv:%d" % nv)
    for key in ("bases_form", "target_form", "target_kw", "bases_container", "history"):
        if case.get(key):
            ctx.count(key + ":" + str(case[key]))
    for key in ("space_perm", "cross_kind", "repeated_bases", "large_bias", "bases_pos", "sb_pos", "via_module"):
        if case.get(key):
            ctx.count(key)
    if case.get("udict"):
        ctx.count("state dictionary overrides " + "+".join(sorted(case["udict"])))
    if case.get("near"):
        ctx.count("near_degenerate_target:%s:%s" % (case["fn"], case["near"]))
        ctx.count("near_degenerate_eps:1e%d" % int(math.floor(math.log10(case["eps"]) + 1e-9)))
    if case.get("near_pure"):
        ctx.count("nearly_pure_model_state:weights_U x 1e%d" % int(math.floor(math.log10(case["near_pure"]) + 1e-9)))
    allb = (case.get("bases") or []) + (case.get("dict_keys") or []) + (case.get("sample_bases") or [])
    if kind == "positive" and any(ch != "Z" for b in allb for ch in b):
        ctx.count("positive_state_rotated_basis")
    if any("Y" in b for b in allb):
        ctx.count("has_Y")


def one_state(ctx, kind, shape, large_bias=False, lite=False, udict=False, via_module=False, history_mode=None,
              near=None, only_near=False, near_pure=None):
    nv, nh = shape[0], shape[1]
    na = shape[2] if kind == "mixed" else None
    ctx.torch_seed()
    base = new_state_case(ctx, kind, nv, nh, na, large_bias=large_bias, udict=udict, via_module=via_module, near_pure=near_pure)
    ok, tab = ctx.call("state tables", base, lambda: Tab(build_state(base), kind, u1=u1_of(base)))
    if not ok:
        return
    if not tab.well_conditioned():
        ctx.count("skipped_overflow")
        return
    for case in cases_for_state(ctx, base, tab, lite=lite, near=near, only_near=only_near):
        register(ctx, case, kind, nv)
        run_case(ctx, case, tab)
    if only_near:
        return
    # ---- history on the SAME object: every metric has been evaluated on tab.s above; now its parameters change
    #      (tiny fit or in-place overwrite) and the metrics are asked again.  Tables for model/oracle: a fresh object.
    s_old = tab.s
    base2 = change_parameters(ctx, base, s_old, mode=history_mode)
    ok, tab2 = ctx.call("state tables", base2, lambda: Tab(build_state(base2), kind, s_call=s_old, u1=u1_of(base2)))
    if not ok:
        return
    if not tab2.well_conditioned():
        ctx.count("skipped_overflow")
        return
    for case in history_cases(ctx, base2, tab2):
        register(ctx, case, kind, nv)
        run_case(ctx, case, tab2)


FIXED_FIRST = [("positive", (2, 3)), ("complex", (2, 2)), ("mixed", (2, 2, 2)), ("complex", (3, 2)), ("mixed", (1, 2, 1))]


def fixed_first(ctx):
    """a fixed block (independent of VERIF_SEED) that always runs first: for every state type the regimes
    cross-kind KL(bases=None), permuted space, repeated bases, same-object history, peaked (large-bias) states"""
    saved = ctx.rng
    ctx.rng = np.random.Generator(np.random.PCG64(20261001))
    try:
        for k, (kind, shape) in enumerate(FIXED_FIRST):
            # history step: in-place edit through `.data` on the first draw, `p.data = new` / tiny fit on the peaked one
            one_state(ctx, kind, shape, large_bias=False, lite=True, history_mode="inplace")
            one_state(ctx, kind, shape, large_bias=True, lite=True, history_mode=("set" if k % 2 else "fit"))
        # states that carry their OWN unitary dictionary (X and / or Y random unitaries), and states built through module=
        for kind, shape in (("complex", (2, 2)), ("mixed", (2, 2, 2)), ("complex", (3, 2)), ("mixed", (1, 2, 1))):
            one_state(ctx, kind, shape, lite=True, udict=True, history_mode="inplace")
        for kind, shape in (("positive", (2, 2)), ("complex", (2, 3)), ("mixed", (2, 2, 1))):
            one_state(ctx, kind, shape, lite=True, via_module=True)
    finally:
        ctx.rng = saved


def near_block(ctx):
    """fixed (seed-independent) near-degenerate block, runs FIRST: targets eps away from pure / rank-deficient / maximally mixed / degenerate /
    commuting / own state on a fixed eps grid, nearly pure model states, nearly equal / orthogonal / basis vector targets"""
    saved = ctx.rng
    ctx.rng = np.random.Generator(np.random.PCG64(20261004))
    try:
        one_state(ctx, "mixed", (2, 2, 2), near="grid", only_near=True)
        one_state(ctx, "mixed", (1, 2, 1), near="some", only_near=True)
        one_state(ctx, "mixed", (3, 2, 3), near="some", only_near=True)
        for shape, dl in (((2, 2, 2), 1e-3), ((2, 1, 2), 1e-5), ((3, 2, 2), 1e-4), ((1, 2, 1), 1e-2)):
            one_state(ctx, "mixed", shape, near="model", only_near=True, near_pure=dl)
        one_state(ctx, "positive", (2, 3), near="grid", only_near=True)
        one_state(ctx, "complex", (2, 2), near="grid", only_near=True)
        one_state(ctx, "complex", (3, 2), near="some", only_near=True)
    finally:
        ctx.rng = saved


def run(ctx):
    near_block(ctx)
    fixed_first(ctx)
    draws = 11 if ctx.thorough else 1
    for kind, shs in shapes(ctx).items():
        for shape in shs:
            for _ in range(draws):
                one_state(ctx, kind, shape)
            one_state(ctx, kind, shape, large_bias=True)          # peaked regime: one draw per shape in EVERY tier
    # states with their own unitary dictionary: one full draw per non-positive type and size (thorough: every shape)
    for kind, shs in shapes(ctx).items():
        if kind == "positive":
            continue
        done = set()
        for shape in shs:
            if ctx.thorough or shape[0] not in done:
                done.add(shape[0])
                one_state(ctx, kind, shape, udict=True)
    # nearly pure model states: one draw per size (thorough: every shape, three scales)
    done = set()
    for shape in shapes(ctx)["mixed"]:
        if ctx.thorough or shape[0] not in done:
            done.add(shape[0])
            for _ in range((3 if shape[0] < 4 else 1) if ctx.thorough else 1):
                one_state(ctx, "mixed", shape, near="model", only_near=True, near_pure=float(10.0 ** ctx.rng.uniform(-5.0, -1.0)))


def search(ctx, broken, budget):
    """Wider oracle sweep when the proof or the correspondence broke."""
    t0 = time.time()
    n0 = len(ctx.failures)
    # first: the oracle on the disagreeing cases themselves
    for b in broken:
        if b.get("kind") == "correspondence":
            for d in b.get("first", []):
                c = d.get("case") or {}
                if c.get("fn") in RUNNERS:
                    try:
                        run_case(ctx, c)
                    except Exception:
                        pass
                    if len(ctx.failures) > n0:
                        return ctx.failures[n0]
    all_shapes = {"positive": [(nv, nh) for nv in (1, 2, 3) for nh in (1, 2, 3)],
                  "complex": [(nv, nh) for nv in (1, 2, 3) for nh in (1, 2, 3)],
                  "mixed": [(nv, nh, na) for nv in (1, 2, 3) for nh in (1, 2) for na in (1, 2)]}
    while time.time() - t0 < budget:
        for kind, shs in all_shapes.items():
            for shape in shs:
                one_state(ctx, kind, shape)
                if kind != "positive" and len(ctx.failures) == n0:
                    one_state(ctx, kind, shape, lite=True, udict=True)
                if kind == "mixed" and len(ctx.failures) == n0:
                    one_state(ctx, kind, shape, near="model", only_near=True, near_pure=float(10.0 ** ctx.rng.uniform(-5.0, -1.0)))
                if len(ctx.failures) > n0:
                    return ctx.failures[n0]
                if time.time() - t0 > budget:
                    return None
    return None


def replay(ctx, rec):
    case = rec.get("failing", {}).get("case", {})
    if case.get("fn") in RUNNERS:
        print("replay of", describe(case))
        ctx.case(describe(case), nontrivial=nontrivial(case))
        run_case(ctx, case)
    else:
        run(ctx)
