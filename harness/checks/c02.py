"""C02 — The reconstructed density matrix is always a physical state.

Correspondence: rho (full matrix / paired vector / single element / diagonal shortcut), pi, gamma(+/-),
probability, normalization, effective_energy(v) and (v, a) of real DensityMatrix / PurificationRBM objects
vs the extracted Coq model (States.dm_rho, dm_pi, dm_rho_matrix, dm_rho_diag, dm_probability,
dm_normalization; Rbm.p_gamma, p_eff_energy, p_eff_energy_va) on all pairs of basis states.

Oracle (property relation on the implementation's own outputs, numpy only): rho(space, space) is Hermitian,
its smallest eigenvalue is >= -1e-9 trace, its diagonal equals probability(space), its trace equals
normalization(space), it equals entry for entry the brute-force partial trace sum_a Psi(s,a) conj Psi(s',a)
of the purified two-network state computed from the raw parameters, the reported probability equals the
brute-force auxiliary marginal, and the call forms (matrix, paired vector, single element, diagonal
shortcut) agree with each other.  The oracle is overflow-safe (diagonal scale from logaddexp, Hermitian / PSD on an exactly
rescaled copy), so it also decides parameter settings whose results are as large as e^690 (near_range regime).

"For every parameter setting" includes every setting reached on a LIVE object: the same relations are demanded after each
step of same-object histories evaluate -> mutate the parameters -> evaluate, for every way the library offers or tolerates
to change parameters (see RULE); the oracle is always computed from the CURRENT parameters (the values written, or, for
mutations that go through library code, the values the networks' public attributes report afterwards).

"... the unnormalised probabilities the model reports and SAMPLES FROM": besides the reported probabilities, the Bernoulli
probabilities that DensityMatrix.sample / rbm_am.gibbs_steps hand to torch in every step of a k-step chain are observed (the draws
are scripted, one batch row per path of the chain), for k = 1, 2, 3 and several steps, on fresh and aged objects: every hidden /
auxiliary / visible conditional used must be the exact conditional of the purified joint distribution (brute-force marginals of the
numpy table exp(b.v + c.h + d.a + h.W.v + a.U.v)), and the k-step law of the returned sample built from the observed probabilities
must leave diag(rho) / trace(rho) of the numpy oracle invariant (see the section "SAMPLES FROM" below).

"Every architecture" is taken literally: a fixed first block evaluates each of the 64 shapes num_visible 1..4 x num_hidden 1..4 x
num_aux 1..4 once (a formula written for num_hidden = num_aux = num_visible can go wrong only in an asymmetric one, e.g. a
shortcut taken when num_hidden + num_aux < num_visible), on objects built through every construction path."""
import itertools, math
import numpy as np
import gen

RULE = ("SAMPLES FROM (runs first, both tiers): fixed cases nv=2 x nh 1..2 x na 1..2 with deterministic parameters (visible-auxiliary "
        "weights up to 2, every bias non-zero), then a random stream (quick: 10 shapes in 1..3 + one with a size-4 layer; thorough: + 30 of "
        "the 64 shapes; regimes default / large_bias; construction paths in rotation): ONE DensityMatrix per case, a first parameter "
        "setting written into the fresh object and a second one written in place into the aged one; per setting the sampler is called "
        "with k = 2, 3 FIRST (a fresh object's first call has k >= 2), then 1 and several (4..9), through DensityMatrix.sample(k, "
        "initial_state=, overwrite=) , sample(k, num_samples=) and rbm_am.gibbs_steps(k, v, overwrite=), overwrite both ways, (1, nv) "
        "one-row batches and many-row batches; torch's Bernoulli entry points are wrapped during the call: the probability tensor of "
        "every draw is recorded and the draw is replaced by a scripted one; every k whose chain has <= 20000 (quick random) / 140000 "
        "(fixed, thorough) paths v0,h1,a1,v1,...,vk is ENUMERATED with one batch row per path (shuffled), the others get 257 / 64 / 1 random "
        "paths; the k = 2 / 3 enumerations are repeated at the end on the aged object with the same batch shapes; demanded: (S1, S2) "
        "every hidden / auxiliary / visible probability used == the brute-force conditional of the joint table to 1e-9, (S3) "
        "diag(rho)/trace(rho) of the oracle times the k-step law of the RETURNED rows built from the observed probabilities == "
        "diag(rho)/trace(rho) to 1e-9 (measured on the unchanged tree: 2e-15); a sampler whose draws cannot be read this way is decided "
        "by 200000 chains started in diag(rho)/trace(rho) (must follow it after k steps) and 100000 chains from each basis state (must "
        "follow the exact k-step block-Gibbs law T^k), Hoeffding radius for 1e-9 per cell, for up to three k; "
        "ARCHITECTURE SWEEP (fixed block, both tiers): EVERY architecture of the quantifier, num_visible 1..4 x num_hidden 1..4 x "
        "num_aux 1..4 = 64 shapes, once each with the full evaluation below (all ten parameter tensors random, every bias non-zero, "
        "phase-net auxiliary bias 0), regimes default / large_bias / branch, the CONSTRUCTION PATH (positional sizes, keyword sizes, "
        "sizes left to their defaults, module=<PurificationRBM> whose copy becomes the phase net, DensityMatrix.autoload(file), a fresh "
        "object that load()s a file) and the way the parameters are written in rotation offset by the seed; module= objects are written "
        "in place and then ONE network alone is rewritten in place; the shapes with fewer latent than visible units (3,1,1) (4,1,1) "
        "(4,1,2) (4,2,1) and a third of those with a size-1 beside a size-4 layer go on with an in-place rewrite of the biases alone "
        "(input_distribution architecture_sweep:* / constructed_by:* count them); "
        "random stream: architectures nv,nh,na in 1..3 (quick: covering subset incl. nh != nv, na != nv, size-1 dims, nh + na < nv, plus "
        "one shape with a size-4 layer drawn per seed) / 1..4 all 64 shapes (thorough), construction paths in rotation; parameter draws from the mixture in harness/gen.py with every bias non-zero and the phase "
        "net's auxiliary bias 0, in three regimes: default (|bias| <~ 4), large_bias (bias magnitudes up to 30), branch "
        "(phase-net U of magnitude pi..9, so 1 + exp(z_k) visits the left half-plane); the basis is enumerated "
        "independently (itertools.product); all pairs (sigma, sigma') of basis states; call forms rho(space,space), "
        "rho(space) with default vp, rho(v,vp,expand=False), 1-D single element, rho(v) 1-D, rho(v,expand=False); "
        "matrix form with v != vp (two row orders, rectangular k x m, off-diagonal block); a single row as a 2-D (1, n) batch in the "
        "matrix / paired / default-vp / diagonal forms and probability, results overwritten in place and the calls repeated; probability(space), "
        "probability(space, Z); SAME-OBJECT HISTORIES: one DensityMatrix and one set of batch tensor objects, after every "
        "mutation everything is re-evaluated against the oracle on the CURRENT parameters; mutation operators: "
        "torch-level writes of all parameters, of one network, of the biases only or of ONE parameter alone (.data =, "
        ".data.copy_, copy_ under no_grad, load_state_dict, vector_to_parameters, copy_ into the state_dict() aliases, "
        "rebinding rbm.<name> = nn.Parameter(...)); library-level: the constructor's own draw, state.reinitialize_parameters(), "
        "rbm.initialize_parameters() on one / both networks (zero_weights too), replacing a network through the "
        "rbm_am / rbm_ph setters, state.load(file / buffer) of a donor's save, optimizer steps (SGD / Adam, p.grad set as fit "
        "does), a 2-epoch fit, module.float().double(), continuing on copy.deepcopy(state) / DensityMatrix.autoload(file) "
        "(the object left behind must keep its verified values); library-drawn parameters (zero biases) are followed by an "
        "in-place write of the biases alone; a batch tensor of the caller and the tensor returned by "
        "generate_hilbert_space() permuted in place (copy_ / .data.copy_) between two evaluations; every returned tensor "
        "overwritten in place by the caller and each call repeated right after its own result was overwritten; batches of "
        "65537..131075 rows gathered against the small verified results; fixed history cases (every operator, every "
        "parameter of every network changed alone; one on the 3-1-1 architecture built through module=) run first; "
        "NEAR_RANGE regime (six fixed cases run before everything else, 20 (quick) / 48 + every fifth draw of every shape "
        "(thorough) in the random stream, shapes up to 4x4x4, some continued on the same object by an in-place write of a second "
        "near-range setting): amplitude-net U and aux bias (aux), W and hidden bias (hidden) or all four (both, edge) positive "
        "in 12..30, visible bias in -30..-20, scaled by one common factor so that the log of the largest diagonal entry is "
        "<= 450..650 (edge: 640..690, results within e^20 of the largest double): every matrix element, probability and the "
        "trace is finite while the doubled sum over the auxiliary units, the hidden sums of both arguments, or hidden + "
        "auxiliary sums pass log(DBL_MAX) = 709.8 (input_distribution beyond_double_range:* counts them); the oracle forms "
        "sqrt(rho_ii rho_jj) in the log domain, demands finite outputs, and decides Hermitian / PSD on rho * 2^-e; the 1-D "
        "call forms always probe the largest diagonal entry; "
        "FLAG ENCODINGS: in every evaluation the expand flag is also handed over as np.True_ / 1 (matrix, default-vp, 1-D "
        "forms; the v != vp matrix forms rotate default / np.True_ / 1) and as np.False_ / 0 (paired, diagonal, 1-D forms), "
        "same values demanded as with True / False; GLOBAL AUTOGRAD MODES: rho (matrix, paired, diagonal, 1-D, default vp), "
        "probability and normalization are evaluated again under torch.no_grad(), torch.inference_mode(), "
        "torch.set_grad_enabled(False) and torch.enable_grad() and must reproduce the verified values (thorough: flag block on "
        "every second, mode block on every third evaluation, by the recorded aux_seed); TOLERANCES: relations between two "
        "evaluation paths (diagonal / trace / partial trace / marginal) use 1e-9 + 2.1e-9 (nh + na) <= 1.8e-8 (rigorous bound on "
        "what torch's thresholded softplus omits; below float32 rounding), sum-versus-sum relations 1e-10, and rho / probability "
        "/ normalization must be reported in double precision; "
        "a case is (regime, nv, nh, na, parameter draw, history step); "
        "non-trivial := all biases non-zero, amplitude aux bias != 0 and U_mu != 0")
ASSUMPTIONS = ["torch exp/log/sqrt/atan2/softplus/logsumexp/matmul implement the real functions up to rounding",
               "samples-from relation: torch.bernoulli(p) / Tensor.bernoulli_(p) return independent 0/1 draws with P(1) = p per entry "
               "(trusted), and the sampler draws through these Python entry points (otherwise the statistical invariance test decides); "
               "which k steps are run and what happens to the caller's start tensor is property C05's subject, here only the law of "
               "the returned sample matters",
               "parameter draws avoid the measure-zero singular points 1 + exp(z_k) = 0 of the code's log/atan2 "
               "(x_k = 0 and y_k = pi mod 2 pi), where the partial-trace theorem has its guard",
               "a parameter setting is evaluated when its results are representable: log(trace of rho) <= 700 (the largest "
               "double is e^709.8) and, for every auxiliary unit, 2 (U_k.sigma + d_k) <= 700, the argument of the code's own "
               "exp(2 x_k) (never exceeded with magnitudes <= 30 and num_visible <= 4: x_k <= 150); other settings are "
               "counted as skipped_overflow"]

TWO_PI = 2.0 * math.pi
# relative tolerance of the oracle relations that compare two different float evaluation paths: torch's softplus
# returns x for x > 20 (drops log1p(exp(-x)) <= 2.1e-9 per unit), so 1e-9 would alarm on correct code
RT = 1e-7          # (kept for reference: the former blanket tolerance; wider than float32 rounding, 6e-8, so no longer used)
SOFTPLUS_DROP = 2.1e-9   # > log1p(exp(-20)) = 2.06e-9, what torch's softplus omits per unit once its argument passes 20


def rt_of(nh, na):
    """Relative tolerance of the relations between two DIFFERENT evaluation paths (rho's analytic log-modulus / the numpy
    brute force versus torch's thresholded softplus): 1e-9 + the rigorous bound on the omitted terms, at most 1.8e-8 for
    4 + 4 units, i.e. below single-precision rounding."""
    return 1e-9 + SOFTPLUS_DROP * (nh + na)


SAME_PATH_RT = 1e-10   # two sums of the same few double-precision numbers (measured on the unchanged tree: <= 4e-14, exp(logsumexp) at log Z ~ 690)
DBL_LOG_MAX = math.log(np.finfo(float).max)       # 709.78: exp() of more than this is inf
# a case is evaluated when its RESULTS are representable: log(trace of rho) <= LOG_LIM, and the code's own exp(2 x_k) (one
# auxiliary unit, x_k <= 4 * 30 + 30 inside the quantifier) is finite.  Intermediates that a rewrite could introduce (products
# over units, separately exponentiated terms) may be far beyond the double range in such a case: the near_range regime
LOG_LIM = 700.0


def shapes(ctx):
    if ctx.thorough:
        return [(nv, nh, na) for nv in range(1, 5) for nh in range(1, 5) for na in range(1, 5)]
    with4 = [t for t in ALL_SHAPES if 4 in t and sum(t) <= 9]
    return [(1, 1, 1), (1, 2, 3), (2, 1, 1), (2, 3, 1), (2, 2, 3), (3, 1, 2), (3, 2, 1), (3, 3, 3), (2, 1, 2), (1, 3, 2), (3, 1, 1),
            with4[int(ctx.rng.integers(0, len(with4)))]]


# ------------------------------------------------------------------ independent numpy reference
def purified_state(am, ph, sp):
    """Psi[s, a] = sqrt(p_lambda(s,a)) exp(i phi_mu(s,a)); hidden units traced analytically (softplus).
    Returns (logp, phi): log p_lambda and phi_mu as (N, 2^na) arrays."""
    W, U, b, c, d = am
    Wp, Up, bp, cp, dp = ph
    na = len(d)
    A = np.array(list(itertools.product([0.0, 1.0], repeat=na)))          # (2^na, na)
    vis_am = sp @ b + gen.softplus(sp @ W.T + c).sum(-1)                      # (N,)
    vis_ph = sp @ bp + gen.softplus(sp @ Wp.T + cp).sum(-1)
    logp = vis_am[:, None] + (A @ d)[None, :] + (sp @ U.T) @ A.T             # -E_lambda(s, a)
    phi = 0.5 * (vis_ph[:, None] + (A @ dp)[None, :] + (sp @ Up.T) @ A.T)    # -E_mu(s, a) / 2
    return logp, phi, A


def wrap_2pi(d):
    d = np.asarray(d, dtype=float)
    return d - TWO_PI * np.round(d / TWO_PI)


def cnp(t):
    """(2, ...) real-pair tensor -> complex numpy array"""
    a = t.detach().numpy()
    return a[0] + 1j * a[1]


# ------------------------------------------------------------------ one case
def make_tensors(nv, na):
    """The batch tensors of one case.  They are created ONCE per object history and re-used (same tensor objects) for
    every re-evaluation after the parameters were rewritten, so that a result cached per batch object shows up."""
    import torch
    sp = gen.all_states(nv)                             # independent enumeration (itertools.product), row i = binary of i
    space = torch.tensor(sp, dtype=torch.double)
    N = len(sp)
    ii, jj = np.divmod(np.arange(N * N), N)
    A = np.array(list(itertools.product([0.0, 1.0], repeat=na)))
    VVn, AAn = np.repeat(sp, len(A), axis=0), np.tile(A, (N, 1))
    return {"sp": sp, "space": space, "ii": ii, "jj": jj, "V": space[ii], "VP": space[jj], "VVn": VVn, "AAn": AAn,
            "VV": torch.tensor(VVn, dtype=torch.double), "AA": torch.tensor(AAn, dtype=torch.double),
            "row1": [space[i] for i in range(N)], "mutable": space.clone()}


def evaluate(ctx, s, am, ph, case, nontriv, desc, T=None, big=False):
    """Full evaluation of one parameter setting of the object s.  All auxiliary discrete choices (probe pairs, random Z,
    permutations, large-batch indices) come from a generator seeded with case['aux_seed'], so a replay repeats them."""
    import torch
    m = ctx.get_model()
    nv, na = len(am[2]), len(am[4])
    if T is None:
        T = make_tensors(nv, na)
    arng = np.random.default_rng(int(case.setdefault("aux_seed", int(ctx.rng.integers(0, 2 ** 31 - 1)))))
    sp, space = T["sp"], T["space"]
    N = len(sp)
    logp, phi, A = purified_state(am, ph, sp)
    Uam = am[1]
    xmax = float(np.max(np.abs(sp @ Uam.T + am[4]))) if na else 0.0
    lmarg = -gen.np_eff_energy_p(*am, sp)               # log rho(s, s) of the oracle, overflow-safe (logaddexp)
    if np.max(lmarg) + math.log(N) > LOG_LIM or 2 * xmax > LOG_LIM:
        ctx.count("skipped_overflow")                    # the trace itself / the code's exp(2 x_k) is not representable
        return
    ctx.case(desc, nontrivial=nontriv)
    # intermediates beyond the double range although every result is finite (what a product-then-log rewrite would form)
    Hs = gen.softplus(sp @ am[0].T + am[3]).sum(-1)
    As = gen.softplus(sp @ Uam.T + am[4]).sum(-1) if na else np.zeros(N)
    beyond = False
    for nm, val in (("aux_squared_moduli_product", 2 * np.max(As)), ("hidden_product_of_both_arguments", 2 * np.max(Hs)),
                    ("hidden_times_aux_product", np.max(Hs + As)), ("trace_above_e600", np.max(lmarg) + 109.78)):
        if val > DBL_LOG_MAX:
            ctx.count("beyond_double_range:" + nm)
            beyond = True
    if beyond:
        ctx.count("finite_results_with_an_intermediate_beyond_double_range")
    xk = 0.5 * ((sp @ Uam.T + am[4])[:, None, :] + (sp @ Uam.T + am[4])[None, :, :])
    yk = 0.5 * ((sp @ ph[1].T)[:, None, :] - (sp @ ph[1].T)[None, :, :])
    if np.any(1 + np.exp(xk) * np.cos(yk) < 0):
        ctx.count("pi_arg_in_left_half_plane")           # atan2 leaves the range of atan here
    if np.any(np.abs(yk) > math.pi / 2):
        ctx.count("phase_arg_beyond_pi_over_2")
    if max(np.max(np.abs(x)) for x in (am[2], am[3], am[4], ph[2], ph[3])) > 10:
        ctx.count("bias_magnitude_above_10")
    ctx.count("shape:%dx%dx%d" % (nv, len(am[3]), na))

    ii, jj = T["ii"], T["jj"]
    V, VP = T["V"], T["VP"]                            # all pairs, row-major like the matrix
    rb_am, rb_ph = s.rbm_am, s.rbm_ph
    ok, out = ctx.call("density-matrix evaluation", case, lambda: (
        s.rho(space, space), s.rho(V, VP, expand=False), s.rho(space, expand=False),
        s.pi(space, space), s.pi(V, VP, expand=False),
        rb_am.gamma(space, space, eta=+1), rb_ph.gamma(space, space, eta=-1),
        rb_am.gamma(V, VP, eta=+1, expand=False), rb_ph.gamma(V, VP, eta=-1, expand=False),
        s.probability(space), s.normalization(space), s.rho(space)))
    if not ok:
        return
    R, Rv, Rd, P, Pv, Gp, Gm, Gpv, Gmv, prob, Z, Rdef = out
    shapes_ok = (list(R.shape) == [2, N, N] and list(Rv.shape) == [2, N * N] and list(Rd.shape) == [2, N]
                 and list(P.shape) == [2, N, N] and list(Pv.shape) == [2, N * N]
                 and list(Gp.shape) == [N, N] and list(Gm.shape) == [N, N] and list(prob.shape) == [N]
                 and list(Rdef.shape) == [2, N, N])
    ctx.require("result shapes of rho / pi / gamma / probability", shapes_ok, case,
                [list(x.shape) for x in (R, Rv, Rd, P, Pv, Gp, Gm, prob, Rdef)])
    if not shapes_ok:
        return

    # ---------------- correspondence with the Coq model
    amph = list(am) + list(ph)
    m_R, m_P, m_Gp, m_Gm, m_prob, m_Z, m_diag = m.call("dm_full", *amph, sp)
    m_Rv, m_Pv, m_Gpv, m_Gmv = m.call("dm_pairs", *amph, sp[ii], sp[jj])
    mR = np.array(m_R)                                  # (N, N, 2)
    mRc = mR[..., 0] + 1j * mR[..., 1]
    amp = np.abs(mRc)
    if not np.all(np.isfinite(amp)) or np.any(amp == 0):
        ctx.count("skipped_overflow")
        return
    Rc, Rvc, Rdc = cnp(R), cnp(Rv), cnp(Rd)
    un = lambda z: [np.real(z).tolist(), np.imag(z).tolist()]
    ctx.agree("rho(space,space) / |rho_model|", un(Rc / amp), un(mRc / amp), case, rtol=0, atol=1e-7, scale=1.0)
    Rdefc = cnp(Rdef)
    ctx.agree("rho(space) [default vp] / |rho_model|", un(Rdefc / amp), un(mRc / amp), case, rtol=0, atol=1e-7, scale=1.0)
    mRvc = np.array(m_Rv)[:, 0] + 1j * np.array(m_Rv)[:, 1]
    ctx.agree("rho(v,vp,expand=False) / |rho_model|", un(Rvc / amp.ravel()), un(mRvc / amp.ravel()), case, rtol=0, atol=1e-7, scale=1.0)
    mP = np.array(m_P)
    ctx.agree("pi(space,space).real", P[0], mP[..., 0], case)
    ctx.agree("pi(space,space).imag mod 2pi", wrap_2pi(P[1].numpy() - mP[..., 1]), np.zeros((N, N)), case, rtol=0, atol=1e-8, scale=1.0)
    mPv = np.array(m_Pv)
    ctx.agree("pi(v,vp,expand=False).real", Pv[0], mPv[:, 0], case)
    ctx.agree("pi(v,vp,expand=False).imag mod 2pi", wrap_2pi(Pv[1].numpy() - mPv[:, 1]), np.zeros(N * N), case, rtol=0, atol=1e-8, scale=1.0)
    ctx.agree("rbm_am.gamma(eta=+1)", Gp, m_Gp, case)
    ctx.agree("rbm_ph.gamma(eta=-1)", Gm, m_Gm, case)
    ctx.agree("rbm_am.gamma(eta=+1, expand=False)", Gpv, m_Gpv, case)
    ctx.agree("rbm_ph.gamma(eta=-1, expand=False)", Gmv, m_Gmv, case)
    ctx.agree("probability(space)", prob, m_prob, case, atol=0)
    ctx.agree("normalization(space)", Z, m_Z, case, atol=0)
    ctx.agree("rho(v, expand=False) diagonal shortcut", Rd.numpy().T, m_diag, case, atol=0)
    Zf = float(Z)
    Zr = float(np.exp(arng.uniform(np.log(0.05), np.log(50.0))))
    pzs = None
    okz, pzs = ctx.call("probability(space, Z)", case, lambda: (
        s.probability(space, Zf), s.probability(space, Z=Zr), s.probability(space[N - 1], Zr)))
    if okz:
        pz, pr, pr1 = pzs
        ctx.agree("probability(space, Z=normalization)", pz, m.call("dm_probability", *am, sp, Zf), case, atol=0)
        ctx.agree("probability(space, Z=random)", pr, m.call("dm_probability", *am, sp, Zr), case, atol=0)
    # effective energies of both networks, auxiliary units traced / given (all (sigma, a) combinations)
    VVn, AAn, VV, AA = T["VVn"], T["AAn"], T["VV"], T["AA"]
    E_joint, E_small = {}, {}
    returned = list(out)                                # every tensor the library handed back (scribbled over further down)
    for name, rb, pr in (("rbm_am", rb_am, am), ("rbm_ph", rb_ph, ph)):
        ok, ee = ctx.call(name + ".effective_energy", case, lambda: (rb.effective_energy(space), rb.effective_energy(VV, AA)))
        if ok:
            mE, mEa = m.call("p_energies", *pr, sp, VVn, AAn)
            ctx.agree(name + ".effective_energy(v)", ee[0], mE, case)
            ctx.agree(name + ".effective_energy(v, a)", ee[1], mEa, case)
            if list(ee[1].shape) == [N * len(A)]:
                E_joint[name] = ee[1].numpy().reshape(N, len(A)).copy()
            if list(ee[0].shape) == [N]:
                E_small[name] = ee[0].numpy().copy()
            returned.extend(ee)

    # 1-D single-element call forms
    if N <= 4:
        pairs = [(i, j) for i in range(N) for j in range(N)]
    else:
        imax = int(np.argmax(lmarg))                     # the largest entries: where an intermediate leaves the range first
        pairs = [(0, N - 1), (N - 1, 0), (1, 1), (N // 2, 1), (N - 1, N - 1), (imax, imax), (imax, N - 1)] + [tuple(int(t) for t in arng.integers(0, N, size=2)) for _ in range(8)]
    singles = {}
    for (i, j) in pairs:
        v1, vp1 = T["row1"][i], T["row1"][j]
        ok, o1 = ctx.call("1-D call forms", case, lambda: (
            s.rho(v1, vp1), s.rho(v1, vp1, expand=False), s.pi(v1, vp1),
            rb_am.gamma(v1, vp1, eta=+1), rb_ph.gamma(v1, vp1, eta=-1)))
        if not ok:
            continue
        r1, r1f, p1, g1p, g1m = o1
        sh_ok = list(r1.shape) == [2] and list(r1f.shape) == [2] and list(p1.shape) == [2]
        ctx.require("1-D call forms return a single complex element", sh_ok, case, [list(r1.shape), list(r1f.shape), list(p1.shape)])
        if not sh_ok:
            continue
        singles[(i, j)] = (complex(r1[0], r1[1]), complex(r1f[0], r1f[1]))
        a_ = amp[i, j]
        ctx.agree("rho 1-D element / |rho_model|", [float(r1[0]) / a_, float(r1[1]) / a_], [mR[i, j, 0] / a_, mR[i, j, 1] / a_], case, rtol=0, atol=1e-7, scale=1.0)
        ctx.agree("rho 1-D element (expand=False) / |rho_model|", [float(r1f[0]) / a_, float(r1f[1]) / a_], [mR[i, j, 0] / a_, mR[i, j, 1] / a_], case, rtol=0, atol=1e-7, scale=1.0)
        ctx.agree("pi 1-D .real", p1[0], mP[i, j, 0], case)
        ctx.agree("pi 1-D .imag mod 2pi", float(wrap_2pi(float(p1[1]) - mP[i, j, 1])), 0.0, case, rtol=0, atol=1e-8, scale=1.0)
        ctx.agree("gamma+ 1-D", g1p, m_Gp[i][j], case)
        ctx.agree("gamma- 1-D", g1m, m_Gm[i][j], case)
    ok, d1 = ctx.call("rho(v, expand=False) 1-D", case, lambda: s.rho(space[N - 1], expand=False))
    if ok:
        ctx.agree("rho(v, expand=False) 1-D diagonal shortcut", d1.numpy().ravel(), m_diag[N - 1], case, atol=0)
    i0 = int(arng.integers(0, N))
    ok, d1def = ctx.call("rho(v) 1-D, default vp", case, lambda: s.rho(T["row1"][i0]))
    d1def_ok = ok and list(d1def.shape) == [2]
    if ok:
        ctx.require("rho(v) 1-D with default vp returns a single complex element", d1def_ok, case, list(d1def.shape))
    if d1def_ok:
        ctx.agree("rho(v) 1-D, default vp / |rho_model|", [float(d1def[0]) / amp[i0, i0], float(d1def[1]) / amp[i0, i0]],
                  [mR[i0, i0, 0] / amp[i0, i0], mR[i0, i0, 1] / amp[i0, i0]], case, rtol=0, atol=1e-7, scale=1.0)

    # ---------------- property oracle on the implementation's own outputs
    prob_n = prob.numpy().copy()
    tr = float(np.real(np.trace(Rc)))
    rt = rt_of(len(am[3]), na)
    _measure("rt", 0.0)
    # the reported normalisation is a double-precision number (a float32 scalar cannot equal the trace to double rounding)
    z_double = (torch.is_tensor(Z) and Z.dtype == torch.float64) or (isinstance(Z, (float, np.floating)) and not isinstance(Z, np.float32))
    ctx.require("normalization(space) is reported in double precision", bool(z_double), case,
                {"type": type(Z).__name__, "dtype": str(getattr(Z, "dtype", None))})
    p_double = torch.is_tensor(prob) and prob.dtype == torch.float64 and R.dtype == torch.float64 and Rv.dtype == torch.float64
    ctx.require("rho / probability(space) are reported in double precision", bool(p_double), case,
                {"dtypes": [str(getattr(x, "dtype", None)) for x in (R, Rv, prob)]})
    # every entry of the partial trace is finite here (log trace <= LOG_LIM), so every reported number must be
    nonfin = {nm: int((~np.isfinite(np.asarray(x))).sum()) for nm, x in (
        ("rho(space,space)", Rc), ("rho(v,vp,expand=False)", Rvc), ("rho(v,expand=False)", Rdc), ("rho(space)", Rdefc),
        ("probability(space)", prob_n), ("normalization(space)", float(Z)))}
    finite = not any(nonfin.values())
    ctx.require("rho / probability / normalization are finite where every entry of the partial trace is representable", finite, case,
                {"non-finite entries": nonfin, "log of the largest diagonal entry of the partial trace": float(np.max(lmarg)),
                 "largest entry of the partial trace at": int(np.argmax(lmarg))})
    # Hermitian / PSD are scale-free: decided on rho * 2^-e (exact scaling), so that norms and LAPACK stay inside the range
    e2 = int(round(float(np.max(lmarg)) / math.log(2.0)))
    Rs = np.ldexp(Rc.real, -e2) + 1j * np.ldexp(Rc.imag, -e2)
    tr_s = float(np.real(np.trace(Rs)))
    nrm = float(np.linalg.norm(Rs))
    herm = float(np.linalg.norm(Rs - Rs.conj().T))
    ctx.require("rho is Hermitian", herm <= 1e-9 * nrm, case, {"||rho - rho^dagger|| * 2^-e": herm, "||rho|| * 2^-e": nrm, "e": e2})
    try:
        emin = float(np.linalg.eigvalsh((Rs + Rs.conj().T) / 2).min())
    except Exception as e:       # numpy failure is not a verdict; non-finite entries are reported above
        emin = float("nan")
    ctx.require("rho is positive semidefinite", emin >= -1e-9 * abs(tr_s), case, {"min eigenvalue * 2^-e": emin, "trace * 2^-e": tr_s, "e": e2})
    dg = np.diagonal(Rc)
    ctx.require("diagonal of rho == probability(space)",
                bool(np.allclose(dg.real, prob_n, rtol=rt, atol=0) and np.all(np.abs(dg.imag) <= rt * np.abs(prob_n))), case,
                {"diag": [str(z) for z in dg], "probability": prob_n.tolist()})
    _measure("diag_vs_prob", np.max(np.abs(dg.real - prob_n) / np.abs(prob_n)) / rt)
    _measure("trace_vs_Z", abs(tr - float(Z)) / abs(float(Z)) / rt)
    _measure("Z_vs_sum", abs(float(Z) - float(prob_n.sum())) / abs(float(Z)) / SAME_PATH_RT)
    ctx.require("trace of rho == normalization(space)", math.isclose(tr, float(Z), rel_tol=rt), case,
                {"trace": tr, "Z": float(Z), "relative difference": abs(tr - float(Z)) / abs(float(Z)), "tolerance": rt})
    # same evaluation path (exp of the same effective energies, summed): equal to double rounding
    ctx.require("normalization(space) == sum of probability(space)", math.isclose(float(Z), float(prob_n.sum()), rel_tol=SAME_PATH_RT), case,
                {"Z": float(Z), "sum": float(prob_n.sum()), "relative difference": abs(float(Z) - float(prob_n.sum())) / abs(float(Z))})
    # probability(v, Z) divides the unnormalised probability by Z; with Z = normalization(space) it sums to one
    if okz and pzs is not None:
        pz_n, pr_n = pzs[0].numpy(), pzs[1].numpy()
        ctx.require("probability(space, Z) == probability(space) / Z",
                    bool(np.allclose(pz_n, prob_n / Zf, rtol=1e-9, atol=0) and np.allclose(pr_n, prob_n / Zr, rtol=1e-9, atol=0)
                         and math.isclose(float(pzs[2]), prob_n[N - 1] / Zr, rel_tol=1e-9)), case,
                    {"Z": Zf, "Z_random": Zr, "p(space,Z)": pz_n.tolist(), "p(space,Zr)": pr_n.tolist(), "p(space)": prob_n.tolist()})
        _measure("sums_to_one", abs(float(pz_n.sum()) - 1.0) / SAME_PATH_RT)
        ctx.require("probability(space, normalization(space)) sums to one", math.isclose(float(pz_n.sum()), 1.0, rel_tol=SAME_PATH_RT), case,
                    {"sum": float(pz_n.sum()), "sum - 1": float(pz_n.sum()) - 1.0})
    # brute-force partial trace over the auxiliary units of the purified state
    Psi = np.exp(0.5 * logp + 1j * phi)                                  # (N, 2^na)
    bf = Psi @ Psi.conj().T
    sc = np.exp(0.5 * (lmarg[:, None] + lmarg[None, :]))                 # sqrt(rho_ii rho_jj) of the oracle, formed in the log domain
    err = np.abs(Rc - bf)
    _measure("rho_vs_partial_trace", np.max(err / sc) / rt)
    _measure("prob_vs_marginal", np.max(np.abs(prob_n - np.exp(logp).sum(-1)) / np.exp(logp).sum(-1)) / rt)
    ctx.require("rho == partial trace over auxiliary units of the purified state", bool(np.all(err <= rt * sc)), case,
                {"worst |diff| / sqrt(rho_ii rho_jj)": float(np.max(err / sc)), "at": [int(t) for t in np.unravel_index(np.argmax(err / sc), err.shape)]})
    ctx.require("probability(space) == auxiliary-unit marginal of p_lambda(sigma, a)",
                bool(np.allclose(prob_n, np.exp(logp).sum(-1), rtol=rt, atol=0)), case,
                {"probability": prob_n.tolist(), "marginal": np.exp(logp).sum(-1).tolist()})
    # the same partial trace, with the purified state taken from the implementation's own joint energies E(sigma, a)
    if len(E_joint) == 2:
        Psi_i = np.exp(-0.5 * E_joint["rbm_am"] - 0.5j * E_joint["rbm_ph"])
        bf_i = Psi_i @ Psi_i.conj().T
        err_i = np.abs(Rc - bf_i)
        ctx.require("rho == partial trace of the state defined by effective_energy(v, a) of the two networks",
                    bool(np.all(err_i <= rt * sc)), case, {"worst |diff| / sqrt(rho_ii rho_jj)": float(np.max(err_i / sc))})
    # call forms agree with each other
    tolm = 1e-9 * sc
    ctx.require("rho(v,vp,expand=False) == entries of rho(space,space)", bool(np.all(np.abs(Rvc.reshape(N, N) - Rc) <= tolm)), case,
                {"worst": float(np.max(np.abs(Rvc.reshape(N, N) - Rc) / sc))})
    ctx.require("rho(v, expand=False) == diagonal of rho(space,space)", bool(np.all(np.abs(Rdc - dg) <= rt * np.abs(dg))), case,
                {"shortcut": [str(z) for z in Rdc], "diag": [str(z) for z in dg]})
    ctx.require("rho(space) with default vp == rho(space, space)", bool(np.all(np.abs(Rdefc - Rc) <= tolm)), case,
                {"worst": float(np.max(np.abs(Rdefc - Rc) / sc))})
    if d1def_ok:
        ctx.require("rho(v) 1-D with default vp == diagonal entry of rho(space,space)",
                    abs(complex(d1def[0], d1def[1]) - Rc[i0, i0]) <= tolm[i0, i0], case,
                    {"i": i0, "rho(v)": str(complex(d1def[0], d1def[1])), "matrix": str(Rc[i0, i0])})
    for (i, j), (z1, z1f) in singles.items():
        ctx.require("single element rho(v,vp) == entry [i][j] of rho(space,space)",
                    abs(z1 - Rc[i, j]) <= tolm[i, j] and abs(z1f - Rc[i, j]) <= tolm[i, j], case,
                    {"i": i, "j": j, "single": str(z1), "single expand=False": str(z1f), "matrix": str(Rc[i, j])})
    res = {"s": s, "T": T, "N": N, "Rc": Rc, "mRc": mRc, "amp": amp, "sc": sc, "tolm": tolm, "prob": prob_n, "Z": Zf,
           "E_small": E_small, "E_joint": E_joint, "A": A, "rt": rt, "Rdc": Rdc}
    # quick tier: both blocks in every evaluation.  Thorough tier (thousands of evaluations, and common.run_property adds a
    # second pass wholly under no_grad): on a deterministic half / third of the evaluations, chosen by the recorded aux_seed
    if not ctx.thorough or int(case["aux_seed"]) % 2 == 0:
        flag_encodings(ctx, res, case)
    if not ctx.thorough or int(case["aux_seed"]) % 3 == 0:
        grad_modes(ctx, res, case)
    matrix_forms(ctx, res, case, arng)
    single_row_batches(ctx, res, case, arng)
    batch_mutated_in_place(ctx, res, case, arng)
    if big:
        large_batches(ctx, res, case, arng)
    # the caller overwrites IN PLACE every tensor the library returned so far (they are the caller's): a result the library
    # kept by reference and hands out again would now be garbage
    with torch.no_grad():
        for t in returned:
            try:
                t.mul_(0.0).add_(7.0)
            except Exception:
                ctx.count("returned_tensor_not_writable")
    ctx.count("returned_tensors_overwritten_before_the_repeated_call")
    # last touch: the shared tensor objects are evaluated once more, (i) a repeated call must reproduce the verified values
    # and (ii) whatever a single-entry cache holds when the parameters are rewritten next is keyed on these objects
    def twice(fn):
        """call, overwrite the returned tensor in place (it is the caller's), call again with the same arguments"""
        first = fn()
        with torch.no_grad():
            try:
                first.mul_(0.0).add_(7.0)
            except Exception:
                ctx.count("returned_tensor_not_writable")
        return fn()
    ok, again = ctx.call("repeated evaluation", case, lambda: tuple(twice(f) for f in (
        lambda: s.rho(space, space), lambda: s.rho(V, VP, expand=False), lambda: s.rho(space, expand=False), lambda: s.rho(space),
        lambda: s.probability(space), lambda: s.normalization(space), lambda: s.pi(space, space),
        lambda: rb_am.gamma(space, space, eta=+1), lambda: rb_ph.gamma(space, space, eta=-1),
        lambda: rb_am.effective_energy(space), lambda: rb_ph.effective_energy(space),
        lambda: rb_am.effective_energy(VV, AA), lambda: rb_ph.effective_energy(VV, AA))))
    if ok:
        same = (list(again[0].shape) == [2, N, N] and bool(np.all(np.abs(cnp(again[0]) - Rc) <= tolm))
                and list(again[1].shape) == [2, N * N] and bool(np.all(np.abs(cnp(again[1]).reshape(N, N) - Rc) <= tolm))
                and list(again[2].shape) == [2, N] and bool(np.all(np.abs(cnp(again[2]) - Rdc) <= 1e-9 * np.abs(Rdc)))
                and list(again[3].shape) == [2, N, N] and bool(np.all(np.abs(cnp(again[3]) - Rc) <= tolm))
                and list(again[4].shape) == [N] and bool(np.allclose(again[4].numpy(), prob_n, rtol=1e-9, atol=0))
                and math.isclose(float(again[5]), Zf, rel_tol=1e-9))
        ctx.require("a repeated call with the same arguments returns the same rho / probability / normalization", same, case,
                    {"between the two calls": "the caller overwrote the first result in place", "normalization": [float(again[5]), Zf],
                     "probability": [again[4].numpy().tolist(), prob_n.tolist()]})
    ctx.traces += 1
    return res


# ------------------------------------------------------------------ measurement of margins (development aid, off by default)
_MEASURED = {}


def _measure(key, ratio):
    import os
    if os.environ.get("C02_MEASURE"):
        if not _MEASURED:
            import atexit, sys
            atexit.register(lambda: sys.stderr.write("C02_MEASURE worst observed / tolerance: %r\n" % _MEASURED))
        _MEASURED[key] = max(_MEASURED.get(key, 0.0), float(ratio))


# ------------------------------------------------------------------ flag encodings, global autograd modes
TRUE_ENC = [("np.True_", np.True_), ("1", 1)]
FALSE_ENC = [("np.False_", np.False_), ("0", 0)]


def flag_encodings(ctx, res, case):
    """The `expand` flag handed over as a numpy bool (what `(a > 0).any()` returns) or as the int 1 / 0 instead of the Python
    constants, in every call form: the same values as with True / False (verified above) are demanded."""
    s, T, N, Rc, tolm, rt = res["s"], res["T"], res["N"], res["Rc"], res["tolm"], res["rt"]
    space, V, VP, r1 = T["space"], T["V"], T["VP"], T["row1"]
    dg = np.diagonal(Rc)
    i, j = N - 1, 0
    for nm, e in TRUE_ENC:
        ok, out = ctx.call("rho with expand=" + nm, case, lambda: (s.rho(space, space, expand=e), s.rho(space, expand=e), s.rho(r1[i], r1[j], expand=e)))
        if not ok:
            continue
        shp = [list(x.shape) for x in out]
        good = (shp == [[2, N, N], [2, N, N], [2]] and bool(np.all(np.abs(cnp(out[0]) - Rc) <= tolm)) and bool(np.all(np.abs(cnp(out[1]) - Rc) <= tolm))
                and abs(complex(out[2][0], out[2][1]) - Rc[i, j]) <= tolm[i, j])
        ctx.require("rho(v, vp, expand=<truthy flag: numpy bool / int 1>) == rho(v, vp, expand=True) in the matrix, default-vp and 1-D call forms",
                    good, case, {"expand": nm, "shapes": shp, "expected shapes": [[2, N, N], [2, N, N], [2]]})
    for nm, e in FALSE_ENC:
        ok, out = ctx.call("rho with expand=" + nm, case, lambda: (s.rho(V, VP, expand=e), s.rho(space, expand=e), s.rho(r1[i], r1[j], expand=e)))
        if not ok:
            continue
        shp = [list(x.shape) for x in out]
        good = (shp == [[2, N * N], [2, N], [2]] and bool(np.all(np.abs(cnp(out[0]).reshape(N, N) - Rc) <= tolm))
                and bool(np.all(np.abs(cnp(out[1]) - dg) <= rt * np.abs(dg))) and abs(complex(out[2][0], out[2][1]) - Rc[i, j]) <= tolm[i, j])
        ctx.require("rho(v, vp, expand=<falsy flag: numpy bool / int 0>) == rho(v, vp, expand=False) in the paired, diagonal and 1-D call forms",
                    good, case, {"expand": nm, "shapes": shp, "expected shapes": [[2, N * N], [2, N], [2]]})
    ctx.count("flag_encodings_np_bool_and_int")


def grad_modes(ctx, res, case):
    """The same calls under the global autograd modes a caller may be in (torch.no_grad(), torch.inference_mode(),
    torch.set_grad_enabled(False), torch.enable_grad() - the last matters when the whole run is under no_grad): the values
    verified against the oracle above are demanded again (the matrix of a parameter setting does not depend on the mode)."""
    import torch
    s, T, N, Rc, tolm, prob, Zf, Rdc = res["s"], res["T"], res["N"], res["Rc"], res["tolm"], res["prob"], res["Z"], res["Rdc"]
    space, V, VP, r1 = T["space"], T["V"], T["VP"], T["row1"]
    i, j = N - 1, N // 2
    for nm, cm in (("torch.no_grad()", torch.no_grad), ("torch.inference_mode()", torch.inference_mode),
                   ("torch.set_grad_enabled(False)", lambda: torch.set_grad_enabled(False)), ("torch.enable_grad()", torch.enable_grad)):
        def calls():
            with cm():
                return (s.rho(space, space), s.rho(V, VP, expand=False), s.rho(space, expand=False), s.rho(r1[i], r1[j]),
                        s.probability(space), s.normalization(space), s.rho(space))
        ok, out = ctx.call("evaluation under " + nm, case, calls)
        if not ok:
            continue
        shp = [list(x.shape) for x in out[:5]] + [list(out[6].shape)]
        good = shp == [[2, N, N], [2, N * N], [2, N], [2], [N], [2, N, N]]
        if good:
            good = (bool(np.all(np.abs(cnp(out[0]) - Rc) <= tolm)) and bool(np.all(np.abs(cnp(out[1]).reshape(N, N) - Rc) <= tolm))
                    and bool(np.all(np.abs(cnp(out[2]) - Rdc) <= 1e-9 * np.abs(Rdc))) and abs(complex(out[3][0], out[3][1]) - Rc[i, j]) <= tolm[i, j]
                    and bool(np.allclose(out[4].numpy(), prob, rtol=1e-9, atol=0)) and math.isclose(float(out[5]), Zf, rel_tol=1e-9)
                    and bool(np.all(np.abs(cnp(out[6]) - Rc) <= tolm)))
        worst = float(np.max(np.abs(cnp(out[0]) - Rc) / res["sc"])) if shp[0] == [2, N, N] else None
        ctx.require("rho / probability / normalization evaluated under a global autograd mode == the values of the ordinary call", good, case,
                    {"mode": nm, "shapes": shp, "worst |rho(space,space) - ordinary| / sqrt(rho_ii rho_jj)": worst,
                     "normalization": [float(out[5]), Zf]})
    ctx.count("autograd_modes_no_grad_inference_enable")


# ------------------------------------------------------------------ further call forms / histories on verified values
def matrix_forms(ctx, res, case, arng):
    """Matrix form rho(v, vp) with v different from vp: two different row orders, a rectangular k x m selection
    (k != m) and the off-diagonal block, against the verified entries of rho(space, space)."""
    s, space, N, Rc, mRc, amp, tolm = res["s"], res["T"]["space"], res["N"], res["Rc"], res["mRc"], res["amp"], res["tolm"]
    p1, p2 = arng.permutation(N), arng.permutation(N)
    if np.array_equal(p1, p2):
        p2 = np.roll(p1, 1)
    k = int(arng.integers(1, N + 1))
    mm = int(arng.integers(1, N + 1))
    if mm == k:
        mm = k - 1 if k > 1 else k + 1
    h = N // 2
    forms = [("rho(space[p1], space[p2])", p1, p2), ("rho(space[p1][:k], space[p2][:m]), k != m", p1[:k], p2[:mm]),
             ("rho(space[:N/2], space[N/2:])", np.arange(h), np.arange(h, N))]
    for k_form, (name, a, b) in enumerate(forms):
        va, vb = space[a], space[b]
        kw = [{}, {"expand": np.True_}, {"expand": 1}][k_form]     # default flag, numpy bool, int
        ok, val = ctx.call("matrix form " + name + (" with expand=%r" % (kw["expand"],) if kw else ""), case, lambda: s.rho(va, vb, **kw))
        if not ok:
            continue
        good = list(val.shape) == [2, len(a), len(b)]
        ctx.require("matrix form rho(v, vp) with v != vp has shape (2, len(v), len(vp))", good, case,
                    {"form": name, "rows": a.tolist(), "cols": b.tolist(), "shape": list(val.shape)})
        if not good:
            continue
        z, sel = cnp(val), np.ix_(a, b)
        ctx.agree("matrix form " + name + " / |rho_model|", [np.real(z / amp[sel]).tolist(), np.imag(z / amp[sel]).tolist()],
                  [np.real(mRc[sel] / amp[sel]).tolist(), np.imag(mRc[sel] / amp[sel]).tolist()], case, rtol=0, atol=1e-7, scale=1.0)
        ctx.require("matrix form rho(v, vp) with v != vp == the corresponding entries of rho(space, space)",
                    bool(np.all(np.abs(z - Rc[sel]) <= tolm[sel])), case,
                    {"form": name, "rows": a.tolist(), "cols": b.tolist(), "worst": float(np.max(np.abs(z - Rc[sel]) / res["sc"][sel]))})
        ctx.count("matrix_form_v_ne_vp")


def single_row_batches(ctx, res, case, arng):
    """The degenerate batch: ONE row handed over as a 2-D (1, n) tensor, in the matrix, paired, default-vp and diagonal forms
    and to probability; the results are overwritten in place by the caller, the same calls are repeated with the same tensor
    objects, (the second round is compared with the entry of the rows the caller put in)."""
    import torch
    s, space, N, Rc, tolm, prob, rt = res["s"], res["T"]["space"], res["N"], res["Rc"], res["tolm"], res["prob"], res["rt"]
    i, j = int(arng.integers(0, N)), int(arng.integers(0, N))
    va, vb = space[i:i + 1].clone(), space[j:j + 1].clone()
    va0, vb0 = va.clone(), vb.clone()

    def calls():
        return (s.rho(va, vb), s.rho(va, vb, expand=False), s.rho(va), s.rho(va, expand=False), s.probability(va))
    for rnd in ("first call", "repeated after the caller overwrote the first results in place"):
        ok, out = ctx.call("single-row (1, n) batches", case, calls)
        if not ok:
            return
        shp = [list(x.shape) for x in out]
        det = {"i": i, "j": j, "round": rnd, "shapes": shp, "expected shapes": [[2, 1, 1], [2, 1], [2, 1, 1], [2, 1], [1]]}
        good = shp == det["expected shapes"]
        if good:
            z = [cnp(x).ravel()[0] for x in out[:4]]
            det["got"] = [str(t) for t in z] + [float(out[4][0])]
            det["want"] = [str(Rc[i, j]), str(Rc[i, j]), str(Rc[i, i]), str(Rc[i, i]), float(prob[i])]
            good = (abs(z[0] - Rc[i, j]) <= tolm[i, j] and abs(z[1] - Rc[i, j]) <= tolm[i, j] and abs(z[2] - Rc[i, i]) <= tolm[i, i]
                    and abs(z[3] - Rc[i, i]) <= rt * abs(Rc[i, i]) and math.isclose(float(out[4][0]), float(prob[i]), rel_tol=1e-9))
        ctx.require("rho / probability of a single-row (1, n) batch == the corresponding entry of rho(space, space) / probability(space)",
                    good, case, det)
        with torch.no_grad():
            for t in out:
                try:
                    t.mul_(0.0).add_(7.0)
                except Exception:
                    ctx.count("returned_tensor_not_writable")
    if not bool((va == va0).all() and (vb == vb0).all()):
        ctx.count("single_row_batch_tensor_changed_by_the_call")   # not demanded here: the repeated call above (same objects, entry of the ORIGINAL rows) decides
    ctx.count("single_row_batches")


def batch_mutated_in_place(ctx, res, case, arng):
    """The same batch tensor object is evaluated, permuted IN PLACE (once through copy_, once through .data.copy_, which
    does not advance the tensor's version counter) and evaluated again: the results must follow the new rows."""
    s, T, N, Rc, prob, Zf, tolm = res["s"], res["T"], res["N"], res["Rc"], res["prob"], res["Z"], res["tolm"]
    T["mutable"].copy_(T["space"])
    bufs = [("caller's tensor", T["mutable"])]
    # the same with a tensor the library RETURNED (the space from generate_hilbert_space): it is the caller's to edit
    ok, lib = ctx.call("generate_hilbert_space()", case, lambda: s.generate_hilbert_space())
    if ok and list(lib.shape) == list(T["space"].shape) and bool((lib == T["space"]).all()):
        bufs.append(("tensor returned by generate_hilbert_space()", lib))
    elif ok:
        ctx.count("library_space_differs_from_the_enumeration")   # not this property's subject
    for which, b in bufs:
        batch_permuted(ctx, res, case, arng, which, b)
    ctx.count("batch_permuted_in_place")


def batch_permuted(ctx, res, case, arng, which, b):
    s, T, N, Rc, prob, Zf, tolm = res["s"], res["T"], res["N"], res["Rc"], res["prob"], res["Z"], res["tolm"]
    cur = np.arange(N)

    def calls():
        return (s.probability(b), s.rho(b, expand=False), s.rho(b, b), s.rho(b), s.normalization(b), s.rbm_am.effective_energy(b))
    ok, _ = ctx.call("evaluation on a batch tensor", case, calls)
    if not ok:
        return
    for how in ("copy_", "data.copy_"):
        perm = arng.permutation(N)
        if np.array_equal(perm, np.arange(N)):
            perm = np.roll(perm, 1)
        new_rows = T["space"][cur[perm]].clone()
        if how == "copy_":
            b.copy_(new_rows)
        else:
            b.data.copy_(new_rows)
        cur = cur[perm]
        ok, out = ctx.call("evaluation after permuting the batch tensor in place", case, calls)
        if not ok:
            return
        p, rd, rm, rdef, z, e = out
        det = {"batch": which, "in_place_write": how, "rows_now": cur.tolist()}
        if list(p.shape) == [N]:
            ctx.require("probability(batch) after the batch tensor was permuted in place == probability of its current rows",
                        bool(np.allclose(p.numpy(), prob[cur], rtol=1e-9, atol=0)), case, dict(det, got=p.numpy().tolist(), want=prob[cur].tolist()))
        if list(rd.shape) == [2, N]:
            ctx.require("rho(batch, expand=False) after the batch tensor was permuted in place == diagonal entries of its current rows",
                        bool(np.all(np.abs(cnp(rd) - np.diagonal(Rc)[cur]) <= res["rt"] * np.abs(np.diagonal(Rc)[cur]))), case, det)
        sel = np.ix_(cur, cur)
        for nm, val in (("rho(batch, batch)", rm), ("rho(batch)", rdef)):
            if list(val.shape) == [2, N, N]:
                ctx.require(nm + " after the batch tensor was permuted in place == entries of its current rows",
                            bool(np.all(np.abs(cnp(val) - Rc[sel]) <= tolm[sel])), case, det)
        ctx.require("normalization(batch) is unchanged by permuting the rows of the batch in place", math.isclose(float(z), Zf, rel_tol=1e-9), case,
                    dict(det, got=float(z), want=Zf))
        if "rbm_am" in res["E_small"] and list(e.shape) == [N]:
            ctx.require("effective_energy(batch) after the batch tensor was permuted in place == energies of its current rows",
                        bool(np.allclose(e.numpy(), res["E_small"]["rbm_am"][cur], rtol=1e-9, atol=1e-12)), case, det)


BIG_SIZES = [65537, 70001, (1 << 17) + 3]


def large_batches(ctx, res, case, arng):
    """Batches far larger than 2^n (> 65536 rows): paired-vector rho, probability, the diagonal shortcut and the effective
    energies on random index (pairs), gathered against the verified small results."""
    import torch
    s, T, N, Rc, prob, sc = res["s"], res["T"], res["N"], res["Rc"], res["prob"], res["sc"]
    n = int(BIG_SIZES[int(arng.integers(0, len(BIG_SIZES)))])
    i, j = arng.integers(0, N, size=n), arng.integers(0, N, size=n)
    na_cfg = len(res["A"])
    kk = arng.integers(0, na_cfg, size=n)
    vi, vj = T["space"][i], T["space"][j]
    ai = torch.tensor(res["A"][kk], dtype=torch.double)
    ok, out = ctx.call("evaluation on a batch of %d rows" % n, case, lambda: (
        s.rho(vi, vj, expand=False), s.probability(vi), s.rho(vi, expand=False), s.rho(vi, vi, expand=False),
        s.rbm_am.effective_energy(vi), s.rbm_am.effective_energy(vi, ai), s.rbm_ph.effective_energy(vi, ai)))
    if not ok:
        return
    rp, p, rd, rdd, e, ea, eap = out
    det = {"rows": n}

    def bad_rows(mask):
        w = np.flatnonzero(~mask)
        return dict(det, wrong_rows=int(len(w)), first_wrong_row=int(w[0]) if len(w) else None)
    shp = (list(rp.shape) == [2, n] and list(p.shape) == [n] and list(rd.shape) == [2, n] and list(rdd.shape) == [2, n]
           and list(e.shape) == [n] and list(ea.shape) == [n] and list(eap.shape) == [n])
    ctx.require("large batch: result shapes", shp, case, dict(det, shapes=[list(x.shape) for x in out]))
    if not shp:
        return
    okm = np.abs(cnp(rp) - Rc[i, j]) <= 1e-9 * sc[i, j]
    ctx.require("large batch: rho(v, vp, expand=False) == entries of rho(space, space) row by row", bool(np.all(okm)), case, bad_rows(okm))
    okm = np.isclose(p.numpy(), prob[i], rtol=1e-9, atol=0)
    ctx.require("large batch: probability(v) == probability(space) row by row", bool(np.all(okm)), case, bad_rows(okm))
    dg = np.diagonal(Rc)[i]
    okm = np.abs(cnp(rd) - dg) <= res["rt"] * np.abs(dg)
    ctx.require("large batch: rho(v, expand=False) == diagonal of rho(space, space) row by row", bool(np.all(okm)), case, bad_rows(okm))
    okm = np.abs(cnp(rdd) - dg) <= 1e-9 * np.abs(dg)
    ctx.require("large batch: rho(v, v, expand=False) == diagonal of rho(space, space) row by row", bool(np.all(okm)), case, bad_rows(okm))
    if "rbm_am" in res["E_small"]:
        okm = np.isclose(e.numpy(), res["E_small"]["rbm_am"][i], rtol=1e-9, atol=1e-12)
        ctx.require("large batch: effective_energy(v) == effective_energy(space) row by row", bool(np.all(okm)), case, bad_rows(okm))
    for nm, val in (("rbm_am", ea), ("rbm_ph", eap)):
        if nm in res["E_joint"]:
            okm = np.isclose(val.numpy(), res["E_joint"][nm][i, kk], rtol=1e-9, atol=1e-12)
            ctx.require("large batch: effective_energy(v, a) == the small-batch values row by row", bool(np.all(okm)), case, bad_rows(okm))
    ctx.count("large_batch_rows:%d" % n)


def build(nv, nh, na, am, ph):
    from qucumber.nn_states import DensityMatrix
    s = DensityMatrix(nv, nh, na, gpu=False)
    gen.set_prbm(s.rbm_am, *am)
    gen.set_prbm(s.rbm_ph, *ph)
    return s


def log_uniform_signed(ctx, n, lo, hi):
    return np.exp(ctx.rng.uniform(np.log(lo), np.log(hi), size=n)) * ctx.rng.choice([-1.0, 1.0], size=n)


def draw_params(ctx, nv, nh, na, regime):
    """default: gen.prbm_params (biases |.| <~ 4).  large_bias: a random non-empty subset of every bias vector is
    replaced by magnitudes log-uniform in [3, 30] (the quantifier's 0..~30).  branch: phase-net U weights of
    magnitude [pi, 9] and a positive amplitude aux bias, so that |U_ph.(s-s')/2| > pi/2 and 1 + e^x cos y < 0 occur
    (atan2 outside the range of atan).  The phase net's auxiliary bias stays 0 (documented value)."""
    am = list(gen.prbm_params(ctx, nv, nh, na))
    ph = list(gen.prbm_params(ctx, nv, nh, na, phase=True))
    if regime == "large_bias":
        for vec in (am[2], am[3], am[4], ph[2], ph[3]):
            k = int(ctx.rng.integers(1, len(vec) + 1))
            idx = ctx.rng.choice(len(vec), size=k, replace=False)
            vec[idx] = log_uniform_signed(ctx, k, 3.0, 30.0)
    elif regime == "branch":
        ph[1] = ctx.rng.uniform(math.pi, 9.0, size=(na, nv)) * ctx.rng.choice([-1.0, 1.0], size=(na, nv))
        am[4] = ctx.rng.uniform(0.5, 3.0, size=na)
        am[1] = np.abs(am[1]) + 0.1
    elif str(regime).startswith("near_range"):
        return near_range_params(ctx, nv, nh, na, am, ph, str(regime).partition(":")[2] or None)
    return tuple(am), tuple(ph)


NEAR_VARIANTS = ["aux", "hidden", "both", "edge"]


def fit_into_range(am, nv, target):
    """One common factor f <= 1 (bisection) on W, U, c, d of the amplitude net so that max_s log rho(s, s) <= target; the
    (negative) visible bias is kept.  All magnitudes stay <= 30 and every bias stays non-zero."""
    sp = gen.all_states(nv)
    W, U, b, c, d = am

    def top(f):
        return float(np.max(-gen.np_eff_energy_p(f * W, f * U, b, f * c, f * d, sp)))
    if top(1.0) <= target:
        return tuple(am)
    lo, hi = 0.0, 1.0
    for _ in range(40):
        mid = 0.5 * (lo + hi)
        if top(mid) <= target:
            lo = mid
        else:
            hi = mid
    return (lo * W, lo * U, b, lo * c, lo * d)


def near_range_params(ctx, nv, nh, na, am, ph, variant=None):
    """Strongly mixing / strongly coupled amplitude networks INSIDE the quantifier's magnitudes (<= 30): large positive
    visible-auxiliary weights and auxiliary biases (aux), visible-hidden weights and hidden biases (hidden) or all of them
    (both, edge), compensated by large negative visible biases, so that every matrix element, probability and the trace are
    finite (log trace <= 650; edge: 640..690, i.e. results close to the largest double) while sums of pre-activations over
    several units pass log(DBL_MAX) = 709.8 once doubled / added up: a product over units formed before the log, or factors
    exponentiated separately, overflow there although the sum-of-logs the code uses is far inside the range."""
    rng = ctx.rng
    am, ph = list(am), list(ph)
    variant = variant or str(rng.choice(NEAR_VARIANTS))
    lo = float(rng.choice([12.0, 20.0, 27.0]))
    if variant == "edge":                                # always above the target before the common factor is applied
        lo = 26.0
    if variant in ("aux", "both", "edge"):
        am[1], am[4] = rng.uniform(lo, 30.0, size=(na, nv)), rng.uniform(lo, 30.0, size=na)
    if variant in ("hidden", "both", "edge"):
        am[0], am[3] = rng.uniform(lo, 30.0, size=(nh, nv)), rng.uniform(lo, 30.0, size=nh)
    am[2] = -rng.uniform(20.0, 30.0, size=nv)
    if rng.random() < 0.3:                               # one visible unit couples with ordinary strength / either sign
        j = int(rng.integers(0, nv))
        am[1][:, j], am[0][:, j] = rng.normal(size=na), rng.normal(size=nh)
    if rng.random() < 0.5:                               # large phase-net biases too
        for vec in (ph[2], ph[3]):
            k = int(rng.integers(1, len(vec) + 1))
            vec[rng.choice(len(vec), size=k, replace=False)] = log_uniform_signed(ctx, k, 3.0, 30.0)
    target = float(rng.uniform(640.0, 690.0)) if variant == "edge" else float(rng.uniform(450.0, 650.0))
    ctx.count("near_range:" + variant)
    return fit_into_range(am, nv, target), tuple(ph)


def _det(shape, lo, hi, k):
    """deterministic, irregular values in [lo, hi] (no generator involved): the fixed near-range cases"""
    n = int(np.prod(shape))
    t = np.mod((np.arange(n) + 1.0) * 0.6180339887498949 + 0.37 * k, 1.0)
    return (lo + (hi - lo) * t).reshape(shape)


def fixed_near_range(ctx):
    """Fixed cases that run first: finite results, intermediates of a product-then-log / separate-exponentials rewrite beyond
    the double range.  (label, nv, nh, na, amplitude-net ranges for W, U, c, d, value of b, cap on the log of the largest
    diagonal entry)"""
    small = (-1.5, 1.5)
    table = [
        ("aux 4-2-4: U 20..25, d 25..30, b -30..-28", 4, 2, 4, small, (20.0, 25.0), small, (25.0, 30.0), (-30.0, -28.0), 650.0),
        ("aux 3-2-4 at the boundary magnitude 30", 3, 2, 4, small, (30.0, 30.0), small, (30.0, 30.0), (-30.0, -30.0), 650.0),
        ("aux 4-1-3: U, d 27..30", 4, 1, 3, small, (27.0, 30.0), small, (27.0, 30.0), (-30.0, -29.0), 650.0),
        ("hidden 4-4-2: W 20..25, c 25..30", 4, 4, 2, (20.0, 25.0), small, (25.0, 30.0), small, (-30.0, -28.0), 650.0),
        ("edge 4-4-4: W, U, c, d 20..28 scaled down to log(max diagonal) = 688", 4, 4, 4, (20.0, 28.0), (20.0, 28.0), (20.0, 28.0), (20.0, 28.0),
         (-30.0, -27.0), 688.0),
        ("both 3-4-4: W, U, c, d 22..30", 3, 4, 4, (22.0, 30.0), (22.0, 30.0), (22.0, 30.0), (22.0, 30.0), (-30.0, -25.0), 600.0),
    ]
    for k, (label, nv, nh, na, rW, rU, rc, rd, rb, cap) in enumerate(table):
        nz = lambda x: np.where(np.abs(x) < 0.05, 0.37, x)      # noqa: E731  (every bias non-zero)
        am = (_det((nh, nv), rW[0], rW[1], 5 * k), _det((na, nv), rU[0], rU[1], 5 * k + 1), _det((nv,), rb[0], rb[1], 5 * k + 2),
              nz(_det((nh,), rc[0], rc[1], 5 * k + 3)), nz(_det((na,), rd[0], rd[1], 5 * k + 4)))
        am = fit_into_range(am, nv, cap)
        ph = (_det((nh, nv), -2.0, 2.0, 7 * k), _det((na, nv), -2.5, 2.5, 7 * k + 1), nz(_det((nv,), -3.0, 3.0, 7 * k + 2)),
              nz(_det((nh,), -3.0, 3.0, 7 * k + 3)), np.zeros(na))
        ctx.count("near_range:fixed")
        run_history(ctx, nv, nh, na, [{"way": "init", "regime": "near_range_fixed: " + label, "am": am, "ph": ph, "aux_seed": 1000 + k}],
                    ctor_seed=77 + k)


NEAR_SHAPES = [(4, 2, 4), (4, 4, 4), (3, 3, 4), (4, 4, 1), (4, 1, 3), (3, 4, 4), (4, 3, 2), (4, 1, 4), (3, 1, 4), (4, 4, 3)]
EDGE_SHAPES = [(4, 4, 4), (4, 3, 4), (4, 4, 3), (4, 2, 4), (4, 4, 2), (4, 3, 3)]


def random_near_range(ctx, n):
    """The near_range regime in the random stream: shapes with enough units to pass the range, variants in rotation; every
    third case goes on, on the SAME object, to a second near-range setting written in place."""
    for i in range(n):
        nv, nh, na = NEAR_SHAPES[i % len(NEAR_SHAPES)]
        v = NEAR_VARIANTS[i % len(NEAR_VARIANTS)]
        if v == "edge":
            nv, nh, na = EDGE_SHAPES[(i // len(NEAR_VARIANTS)) % len(EDGE_SHAPES)]
        elif (v == "hidden" and nh < 3) or (v == "aux" and na < 3):
            v = "hidden" if nh >= 3 else "aux"
        am, ph = draw_params(ctx, nv, nh, na, "near_range:" + v)
        steps = [{"way": "init", "regime": "near_range:" + v, "am": am, "ph": ph}]
        if i % 3 == 2:
            steps.append(full_step(ctx, nv, nh, na, ["data_copy_", "rebind_parameter", "load_state_dict"][(i // 3) % 3], "near_range"))
        run_history(ctx, nv, nh, na, steps)


REGIMES_QUICK = ["default", "large_bias", "branch", "default", "large_bias", "branch"]
REGIMES_THOROUGH = ["default", "large_bias", "branch", "default", "near_range"]


WAYS = ["data_assign", "data_copy_", "load_state_dict", "vector_to_parameters"]
PNAMES = ["weights_W", "weights_U", "visible_bias", "hidden_bias", "aux_bias"]
NETS = ["rbm_am", "rbm_ph"]
# torch-level writes of (a subset of) the parameters of a live network: the values the harness wrote ARE the current values
TORCH_WAYS = ["init", "data_assign", "data_copy_", "load_state_dict", "vector_to_parameters", "no_grad_copy_", "rebind_parameter",
              "state_dict_alias_copy_"]
# mutations the library offers or tolerates that go through library code / other objects; the current parameters are read
# back from the public attributes of the object afterwards
LIB_WAYS = ["constructed", "replace_network", "state_load_file", "state_load_buffer", "optimizer_step", "deepcopy_continue",
            "autoload_continue", "reinitialize_parameters", "initialize_parameters", "fit", "dtype_roundtrip"]
# (net, parameter) pairs a partial step may touch on its own; the phase net's auxiliary bias keeps its documented value 0
SINGLES = [(n, k) for n in NETS for k in PNAMES if not (n == "rbm_ph" and k == "aux_bias")]
BIASES = [(n, k) for (n, k) in SINGLES if k.endswith("bias")]


def tt(x):
    import torch
    return torch.tensor(np.asarray(x, dtype=float), dtype=torch.double)


def read_params(rbm):
    """The CURRENT parameters of a network as its public attributes report them."""
    return tuple(getattr(rbm, k).detach().cpu().numpy().astype(float).copy() for k in PNAMES)


def write_some(rbm, named, way):
    """(Re)write the parameters in named = {pname: array} (all five or a subset) of one live PurificationRBM in one of the
    ways a user can; the other parameters keep their objects and values."""
    import torch
    from torch import nn
    named = {k: tt(x) for k, x in named.items()}
    if not named:
        return
    if way in ("init", "data_assign"):
        for k, t in named.items():
            getattr(rbm, k).data = t
    elif way == "data_copy_":
        for k, t in named.items():
            getattr(rbm, k).data.copy_(t)
    elif way == "no_grad_copy_":
        with torch.no_grad():
            for k, t in named.items():
                getattr(rbm, k).copy_(t)
    elif way == "state_dict_alias_copy_":                 # the tensors in state_dict() share storage with the parameters
        sd = rbm.state_dict()
        for k, t in named.items():
            sd[k].copy_(t)
    elif way == "rebind_parameter":                       # rbm.weights_U = nn.Parameter(...): a NEW Parameter object
        for k, t in named.items():
            setattr(rbm, k, nn.Parameter(t, requires_grad=False))
    elif way == "load_state_dict":
        sd = rbm.state_dict()
        for k in sd:
            if k in named:
                sd[k] = named[k]
        rbm.load_state_dict(sd)
    elif way == "vector_to_parameters":
        vec = torch.cat([(named[k] if k in named else p.detach().clone()).reshape(-1) for k, p in rbm.named_parameters()])
        torch.nn.utils.vector_to_parameters(vec, rbm.parameters())
    else:
        raise ValueError(way)


def write_params(rbm, pr, way):
    write_some(rbm, dict(zip(PNAMES, pr)), way)


def step_writes(st):
    """{net: {pname: array}} — the parameter values a step writes (full lists under 'am'/'ph', subsets under 'write')."""
    w = {}
    for net, key in zip(NETS, ("am", "ph")):
        d = {}
        if st.get(key) is not None:
            d.update({k: np.asarray(x, dtype=float) for k, x in zip(PNAMES, st[key])})
        for k, x in ((st.get("write") or {}).get(net) or {}).items():
            d[k] = np.asarray(x, dtype=float)
        w[net] = d
    return w


def fit_data(nv, seed):
    """A tiny tomography data set: 0/1 samples with measurement bases, half of the rows in the reference basis."""
    import torch
    r = np.random.default_rng(int(seed))
    n = 8
    data = r.integers(0, 2, size=(n, nv)).astype(float)
    bases = r.choice(["X", "Y", "Z"], size=(n, nv))
    bases[: n // 2] = "Z"
    return torch.tensor(data, dtype=torch.double), bases


def apply_step(ctx, s, st, nv, nh, na):
    """Applies the mutation of one history step to the live object.  Returns (object to continue with, the object left
    behind by deepcopy_continue or None, False if the mutation could not be applied)."""
    import torch, copy, io, os
    from qucumber.nn_states import DensityMatrix
    from qucumber.rbm import PurificationRBM
    way, opts, W = st["way"], st.get("opts") or {}, step_writes(st)
    if st.get("torch_seed") is not None:
        torch.manual_seed(int(st["torch_seed"]))
    left = None
    if way == "constructed":                              # the parameters the constructor drew, no write at all
        pass
    elif way in TORCH_WAYS:
        for net in NETS:
            write_some(getattr(s, net), W[net], way)
    elif way == "replace_network":                        # state.rbm_am = <another PurificationRBM> through the property setter
        for net in NETS:
            if W[net] or net in (opts.get("nets") or []):
                cur, new = getattr(s, net), PurificationRBM(nv, nh, na, gpu=False)
                for k in PNAMES:
                    getattr(new, k).data = tt(W[net][k]) if k in W[net] else getattr(cur, k).detach().clone()
                setattr(s, net, new)
    elif way in ("state_load_file", "state_load_buffer"):  # donor.save(location); state.load(location)
        donor = DensityMatrix(nv, nh, na, gpu=False)
        for net in NETS:
            cur, dn = getattr(s, net), getattr(donor, net)
            for k in PNAMES:
                getattr(dn, k).data = tt(W[net][k]) if k in W[net] else getattr(cur, k).detach().clone()
        if way == "state_load_file":
            path = os.path.join(ctx.scratch, "c02_donor_%d.pt" % ctx.evaluations)
            donor.save(path)
            s.load(path)
            os.remove(path)
        else:
            buf = io.BytesIO()
            donor.save(buf)
            buf.seek(0)
            s.load(buf)
    elif way == "optimizer_step":                         # what fit does per batch: p.grad = ..., optimizer.step()
        lr = float(opts.get("lr", 0.5))
        params = [p for net in NETS for p in getattr(s, net).parameters()]
        opt = (torch.optim.Adam if opts.get("optimizer") == "Adam" else torch.optim.SGD)(params, lr=lr)
        opt.zero_grad()
        for net in NETS:
            for k, x in W[net].items():
                p = getattr(getattr(s, net), k)
                p.grad = ((p.detach() - tt(x)) / lr).clone()
        opt.step()
        for p in params:
            p.grad = None
    elif way == "deepcopy_continue":                      # the history goes on with copy.deepcopy(state); the original stays
        left, s = s, copy.deepcopy(s)
        for net in NETS:
            write_some(getattr(s, net), W[net], "data_copy_")
    elif way == "autoload_continue":                      # the history goes on with DensityMatrix.autoload(file of a donor)
        donor = copy.deepcopy(s)
        for net in NETS:
            write_some(getattr(donor, net), W[net], "data_assign")
        path = os.path.join(ctx.scratch, "c02_auto_%d.pt" % ctx.evaluations)
        donor.save(path)
        left, s = s, DensityMatrix.autoload(path, gpu=False)
        os.remove(path)
    elif way == "dtype_roundtrip":                        # module.float().double(): every parameter rounded to single precision
        for net in (opts.get("nets") or NETS):
            getattr(s, net).float().double()
    elif way == "reinitialize_parameters":
        s.reinitialize_parameters()
    elif way == "initialize_parameters":                  # the networks' own public method, on one network or on both
        for net in (opts.get("nets") or NETS):
            getattr(s, net).initialize_parameters(zero_weights=bool(opts.get("zero_weights", False)))
    elif way == "fit":
        data, bases = fit_data(nv, opts.get("data_seed", 0))
        try:
            s.fit(data, epochs=int(opts.get("epochs", 2)), pos_batch_size=4, neg_batch_size=4, k=1, lr=float(opts.get("lr", 0.05)),
                  input_bases=bases, progbar=False)
        except Exception:                                 # training itself is not this property's subject
            ctx.count("mutation_unavailable:fit")
            return s, None, False
    else:
        raise ValueError(way)
    return s, left, True


# the ways a mixed-state model of a given architecture comes into being
CONSTRUCT = ["sizes", "module", "keywords", "autoload", "defaults", "load"]


def construct_state(ctx, nv, nh, na, how, seed):
    """A DensityMatrix of architecture (nv, nh, na) built through one of the construction paths: positional sizes, keyword
    sizes, sizes left to their defaults where they equal num_visible, module=<a PurificationRBM> (the phase network is then
    the library's copy of it), DensityMatrix.autoload(file of a donor), a fresh object that load()s a donor's file.
    Construction itself is not this property's subject: a path that raises or yields another architecture is counted and
    replaced by the positional one (no demand)."""
    import torch, os
    from qucumber.nn_states import DensityMatrix
    from qucumber.rbm import PurificationRBM
    torch.manual_seed(int(seed))
    s = None
    try:
        if how == "keywords":
            s = DensityMatrix(num_visible=nv, num_hidden=nh, num_aux=na, gpu=False)
        elif how == "defaults":
            kw = {}
            if nh != nv:
                kw["num_hidden"] = nh
            if na != nv:
                kw["num_aux"] = na
            s = DensityMatrix(nv, gpu=False, **kw)
        elif how == "module":
            s = DensityMatrix(nv, module=PurificationRBM(nv, nh, na, gpu=False), gpu=False)
        elif how in ("autoload", "load"):
            donor = DensityMatrix(nv, nh, na, gpu=False)
            path = os.path.join(ctx.scratch, "c02_ctor_%d_%d.pt" % (ctx.evaluations, int(seed) % 100003))
            donor.save(path)
            if how == "autoload":
                s = DensityMatrix.autoload(path, gpu=False)
            else:
                s = DensityMatrix(nv, nh, na, gpu=False)
                s.load(path)
            os.remove(path)
        if s is not None:
            for net in NETS:
                r = getattr(s, net)
                if (list(r.weights_W.shape) != [nh, nv] or list(r.weights_U.shape) != [na, nv] or list(r.visible_bias.shape) != [nv]
                        or list(r.hidden_bias.shape) != [nh] or list(r.aux_bias.shape) != [na]):
                    ctx.count("construction_path_gave_another_architecture:" + how)
                    s = None
                    break
    except Exception:
        ctx.count("construction_path_unavailable:" + how)
        s = None
    if s is None:
        torch.manual_seed(int(seed))
        s = DensityMatrix(nv, nh, na, gpu=False)
        how = "sizes"
    ctx.count("constructed_by:" + how)
    return s, how


def run_history(ctx, nv, nh, na, steps, big_steps=(), zero_bias=False, ctor_seed=None, construct="sizes"):
    """steps: list of dicts {way, regime[, am, ph | write][, opts, torch_seed, aux_seed]}.  ONE DensityMatrix object (unless a
    step replaces it by its deep copy) and ONE set of batch tensors; after every mutation everything is evaluated again
    against the oracle computed from the CURRENT parameters: the values the harness wrote for torch-level writes, the
    values read back from the networks' public attributes for mutations that go through library code.  construct: the
    construction path of the object (see construct_state)."""
    ctor_seed = int(ctx.rng.integers(0, 2 ** 31 - 1)) if ctor_seed is None else int(ctor_seed)
    s, construct = construct_state(ctx, nv, nh, na, construct or "sizes", ctor_seed)
    T = make_tensors(nv, na)
    hist = []
    cur = None
    last = None
    for k, st in enumerate(steps):
        st = dict(st)
        way = st["way"]
        if way not in TORCH_WAYS and st.get("torch_seed") is None:
            st["torch_seed"] = int(ctx.rng.integers(0, 2 ** 31 - 1))
        rec = {key: (gen.plist(*st[key]) if key in ("am", "ph") else st[key]) for key in ("way", "regime", "am", "ph", "opts", "torch_seed")
               if st.get(key) is not None}
        if st.get("write"):
            rec["write"] = {net: {kk: np.asarray(x).tolist() for kk, x in d.items()} for net, d in st["write"].items()}
        ok, out = ctx.call("parameter mutation '%s' on a live DensityMatrix" % way,
                           {"nv": nv, "nh": nh, "na": na, "step": k, "rewritten_by": way, "ctor_seed": ctor_seed, "construct": construct,
                            "history": [dict(h) for h in hist] + [rec]},
                           apply_step, ctx, s, st, nv, nh, na)
        if not ok:
            return
        s, left, applied = out
        if not applied:
            continue
        W = step_writes(st)
        if way in TORCH_WAYS and (cur is not None or all(len(W[n]) == len(PNAMES) for n in NETS)):
            cur = {n: dict((cur or {}).get(n, {}), **W[n]) for n in NETS}          # the values the harness wrote
        else:
            cur = {n: dict(zip(PNAMES, read_params(getattr(s, n)))) for n in NETS}  # read back from the public attributes
        am = tuple(np.asarray(cur["rbm_am"][p], dtype=float) for p in PNAMES)
        ph = tuple(np.asarray(cur["rbm_ph"][p], dtype=float) for p in PNAMES)
        if not all(bool(np.all(np.isfinite(x))) for x in am + ph):
            ctx.count("skipped_nonfinite_parameters")
            return
        rec["am_now"], rec["ph_now"] = gen.plist(*am), gen.plist(*ph)
        hist.append(rec)
        case = {"regime": st.get("regime"), "nv": nv, "nh": nh, "na": na, "am": gen.plist(*am), "ph": gen.plist(*ph),
                "step": k, "rewritten_by": way, "ctor_seed": ctor_seed, "construct": construct, "history": [dict(h) for h in hist],
                "big": k in big_steps}
        if st.get("targets"):
            case["targets"] = rec["targets"] = [list(t) for t in st["targets"]]
        if "aux_seed" in st:
            case["aux_seed"] = st["aux_seed"]
        all_bias = all(bool(np.all(x != 0)) for x in (am[2], am[3], am[4], ph[2], ph[3]))
        nontriv = (not zero_bias) and all_bias and bool(np.any(ph[1] != 0))
        desc = {"nv": nv, "nh": nh, "na": na, "step": k, "way": way, "U_am00": float(am[1][0, 0]), "d_am0": float(am[4][0]),
                "U_ph00": float(ph[1][0, 0]), "b_ph0": float(ph[2][0])}
        if nontriv:
            ctx.count("all_biases_nonzero")
        ctx.count("regime:" + ("zero_bias" if (zero_bias or not all_bias) else str(st.get("regime"))))
        if k > 0:
            ctx.count("rewrite:" + way + (":subset" if st.get("targets") else ""))
        res = evaluate(ctx, s, am, ph, case, nontriv, desc, T=T, big=(k in big_steps))
        hist[-1]["aux_seed"] = case.get("aux_seed")
        if left is not None and last is not None:
            original_unaffected(ctx, left, last, case)
        last = res


def original_unaffected(ctx, left, last, case):
    """After the history moved on to a deep copy whose parameters were rewritten: the object left behind still has its own
    parameters, so its rho / probability / normalization are the values verified for it before."""
    space, N = last["T"]["space"], last["N"]
    ok, out = ctx.call("evaluation of the original after its deep copy was rewritten", case, lambda: (
        left.rho(space, space), left.probability(space), left.normalization(space)))
    if not ok:
        return
    good = (list(out[0].shape) == [2, N, N] and bool(np.all(np.abs(cnp(out[0]) - last["Rc"]) <= last["tolm"]))
            and list(out[1].shape) == [N] and bool(np.allclose(out[1].numpy(), last["prob"], rtol=1e-9, atol=0))
            and math.isclose(float(out[2]), last["Z"], rel_tol=1e-9))
    ctx.require("rho / probability / normalization of a state are unchanged by rewriting the parameters of its deep copy", good, case,
                {"normalization": [float(out[2]), last["Z"]]})


def draw_subset(ctx, nv, nh, na, targets, regime="default"):
    """New values for the (net, parameter) pairs in targets, taken from a full draw of the given regime."""
    am, ph = draw_params(ctx, nv, nh, na, regime)
    full = {"rbm_am": dict(zip(PNAMES, am)), "rbm_ph": dict(zip(PNAMES, ph))}
    w = {}
    for net, k in targets:
        w.setdefault(net, {})[k] = full[net][k]
    return w


def partial_step(ctx, nv, nh, na, targets, how, regime="default"):
    return {"way": how, "regime": regime, "write": draw_subset(ctx, nv, nh, na, targets, regime), "targets": [list(t) for t in targets]}


def full_step(ctx, nv, nh, na, way, regime=None, opts=None):
    regime = regime or REGIMES_QUICK[int(ctx.rng.integers(0, len(REGIMES_QUICK)))]
    am, ph = draw_params(ctx, nv, nh, na, regime)
    st = {"way": way, "regime": regime, "am": am, "ph": ph}
    if opts:
        st["opts"] = opts
    return st


def lib_step(way, **opts):
    st = {"way": way, "regime": "library_drawn"}
    if opts:
        st["opts"] = opts
    return st


# every mutation operator as a (name, builder of the steps it contributes) pair; operators that let the library draw the
# parameters (all biases 0 afterwards) are followed by an in-place write of the biases alone, so that the non-zero-bias regime
# of the quantifier is reached with the library-drawn weights still in place
def op_steps(ctx, nv, nh, na, op):
    hows = ["data_copy_", "no_grad_copy_", "data_assign", "rebind_parameter", "load_state_dict", "vector_to_parameters"]
    how = hows[int(ctx.rng.integers(0, len(hows)))]
    if op in WAYS or op in ("no_grad_copy_", "rebind_parameter", "replace_network", "state_load_file", "state_load_buffer",
                            "deepcopy_continue", "autoload_continue", "state_dict_alias_copy_"):
        return [full_step(ctx, nv, nh, na, op)]
    if op == "optimizer_step":
        return [full_step(ctx, nv, nh, na, op, regime="default", opts={"lr": float(ctx.rng.choice([0.1, 0.5, 1.0])),
                                                                       "optimizer": str(ctx.rng.choice(["SGD", "SGD", "Adam"]))})]
    if op == "reinitialize_parameters":
        return [lib_step(op), partial_step(ctx, nv, nh, na, BIASES, how)]
    if op in ("initialize_am", "initialize_ph", "initialize_both"):
        nets = {"initialize_am": ["rbm_am"], "initialize_ph": ["rbm_ph"], "initialize_both": list(NETS)}[op]
        return [lib_step("initialize_parameters", nets=nets, zero_weights=bool(op == "initialize_both" and ctx.rng.random() < 0.3)),
                partial_step(ctx, nv, nh, na, [t for t in BIASES if t[0] in nets], how)]
    if op == "dtype_roundtrip":
        return [lib_step(op, nets=[NETS[int(ctx.rng.integers(0, 2))]] if ctx.rng.random() < 0.5 else list(NETS))]
    if op == "fit":
        return [full_step(ctx, nv, nh, na, "data_copy_", regime="default"),
                lib_step("fit", data_seed=int(ctx.rng.integers(0, 2 ** 31 - 1)), epochs=2, lr=0.05)]
    if op == "single_parameter":                          # one parameter of one network changes, everything else stays
        t = SINGLES[int(ctx.rng.integers(0, len(SINGLES)))]
        return [partial_step(ctx, nv, nh, na, [t], how)]
    if op == "one_network":                               # all parameters of one network change, the other network stays
        net = NETS[int(ctx.rng.integers(0, 2))]
        hw = ["replace_network", "rebind_parameter", "data_copy_", "state_load_buffer"][int(ctx.rng.integers(0, 4))]
        return [partial_step(ctx, nv, nh, na, [t for t in SINGLES if t[0] == net], hw)]
    raise ValueError(op)


NEW_OPS = ["reinitialize_parameters", "rebind_parameter", "replace_network", "initialize_am", "single_parameter", "state_load_file",
           "initialize_ph", "optimizer_step", "one_network", "no_grad_copy_", "deepcopy_continue", "initialize_both",
           "state_load_buffer", "single_parameter", "fit", "autoload_continue", "state_dict_alias_copy_", "dtype_roundtrip"]
ALL_OPS = WAYS + NEW_OPS


def fixed_histories(ctx):
    """Same-object histories that always run first: every mutation operator at least once, each parameter of each network
    changed on its own at least once (by rotating ways of writing), library-drawn parameters followed by in-place writes."""
    # A: the library draws the parameters (constructor, reinitialize_parameters, initialize_parameters of one network),
    #    parameters are rebound to new nn.Parameter objects, whole networks are replaced through the setters
    nv, nh, na = 2, 2, 2
    run_history(ctx, nv, nh, na, [
        lib_step("constructed"),
        full_step(ctx, nv, nh, na, "data_copy_", "default"),
        lib_step("reinitialize_parameters"),
        partial_step(ctx, nv, nh, na, BIASES, "data_copy_"),
        full_step(ctx, nv, nh, na, "rebind_parameter", "default"),
        partial_step(ctx, nv, nh, na, [("rbm_am", "aux_bias")], "rebind_parameter"),
        partial_step(ctx, nv, nh, na, [("rbm_ph", "weights_U")], "rebind_parameter"),
        partial_step(ctx, nv, nh, na, [("rbm_am", "weights_U")], "rebind_parameter", "branch"),
        full_step(ctx, nv, nh, na, "replace_network", "large_bias"),
        partial_step(ctx, nv, nh, na, [t for t in SINGLES if t[0] == "rbm_ph"], "replace_network"),
        partial_step(ctx, nv, nh, na, [t for t in SINGLES if t[0] == "rbm_am"], "replace_network"),
        lib_step("initialize_parameters", nets=["rbm_am"]),
        partial_step(ctx, nv, nh, na, [t for t in BIASES if t[0] == "rbm_am"], "no_grad_copy_"),
        lib_step("initialize_parameters", nets=["rbm_ph"]),
        partial_step(ctx, nv, nh, na, [t for t in BIASES if t[0] == "rbm_ph"], "data_assign"),
    ])
    # B: load from a file / a buffer, optimizer steps, a short fit, copy_ under no_grad, continuing on a deep copy
    nv, nh, na = 3, 2, 2
    run_history(ctx, nv, nh, na, [
        full_step(ctx, nv, nh, na, "init", "default"),
        full_step(ctx, nv, nh, na, "state_load_file", "large_bias"),
        full_step(ctx, nv, nh, na, "optimizer_step", "default", opts={"lr": 0.5}),
        partial_step(ctx, nv, nh, na, [("rbm_am", "aux_bias"), ("rbm_ph", "weights_U")], "optimizer_step"),
        full_step(ctx, nv, nh, na, "no_grad_copy_", "branch"),
        full_step(ctx, nv, nh, na, "deepcopy_continue", "default"),
        lib_step("fit", data_seed=int(ctx.rng.integers(0, 2 ** 31 - 1)), epochs=2, lr=0.05),
        full_step(ctx, nv, nh, na, "state_load_buffer", "default"),
        full_step(ctx, nv, nh, na, "autoload_continue", "default"),
        lib_step("dtype_roundtrip", nets=["rbm_am"]),
        full_step(ctx, nv, nh, na, "state_dict_alias_copy_", "large_bias"),
        lib_step("initialize_parameters", nets=list(NETS), zero_weights=True),
        partial_step(ctx, nv, nh, na, SINGLES, "load_state_dict"),
        lib_step("reinitialize_parameters"),
        partial_step(ctx, nv, nh, na, SINGLES, "vector_to_parameters", "large_bias"),
    ])
    # C: each parameter of each network changed ALONE between two evaluations, by rotating ways of writing it
    nv, nh, na = 2, 1, 2
    hows = ["data_copy_", "rebind_parameter", "data_assign", "no_grad_copy_", "load_state_dict", "vector_to_parameters",
            "optimizer_step", "state_load_buffer", "replace_network", "state_dict_alias_copy_"]
    r0 = int(ctx.rng.integers(0, len(hows)))
    run_history(ctx, nv, nh, na, [full_step(ctx, nv, nh, na, "init", "default")] +
                [partial_step(ctx, nv, nh, na, [t], hows[(r0 + i) % len(hows)]) for i, t in enumerate(SINGLES)])
    # D: an architecture with FEWER LATENT THAN VISIBLE units, built through module=, taken through the library-level operators
    nv, nh, na = 3, 1, 1
    run_history(ctx, nv, nh, na, [
        full_step(ctx, nv, nh, na, "data_copy_", "default"),
        partial_step(ctx, nv, nh, na, [("rbm_am", "visible_bias")], "no_grad_copy_", "large_bias"),
        lib_step("reinitialize_parameters"),
        partial_step(ctx, nv, nh, na, BIASES, "data_copy_"),
        full_step(ctx, nv, nh, na, "replace_network", "default"),
        full_step(ctx, nv, nh, na, "state_load_buffer", "large_bias"),
        full_step(ctx, nv, nh, na, "deepcopy_continue", "default"),
        full_step(ctx, nv, nh, na, "autoload_continue", "branch"),
    ], construct="module")


ALL_SHAPES = [(nv, nh, na) for nv in range(1, 5) for nh in range(1, 5) for na in range(1, 5)]      # the quantifier's 64 architectures
SWEEP_REGIMES = ["default", "large_bias", "branch"]
SWEEP_WRITES = ["data_copy_", "init", "no_grad_copy_", "load_state_dict", "rebind_parameter", "vector_to_parameters", "state_dict_alias_copy_"]


def representable(am, nv):
    """the condition under which evaluate() decides a parameter setting (results inside the double range)"""
    sp = gen.all_states(nv)
    top = float(np.max(-gen.np_eff_energy_p(*am, sp))) + math.log(len(sp))
    return top <= LOG_LIM and 2 * float(np.max(np.abs(sp @ am[1].T + am[4]))) <= LOG_LIM


def arch_class(nv, nh, na):
    """histogram labels: the asymmetries of an architecture in which a formula written for nh = na = nv can go wrong"""
    out = []
    if nh + na < nv:
        out.append("fewer_latent_than_visible")
    if nh == na == nv:
        out.append("symmetric")
    out.append("aux_%s_hidden" % ("gt" if na > nh else "lt" if na < nh else "eq"))
    out.append("aux_%s_visible" % ("gt" if na > nv else "lt" if na < nv else "eq"))
    out.append("hidden_%s_visible" % ("gt" if nh > nv else "lt" if nh < nv else "eq"))
    return out


def all_architectures(ctx):
    """EVERY architecture of the quantifier (num_visible 1..4 x num_hidden 1..4 x num_aux 1..4, 64 shapes), once each, in a
    block that runs before any budget can matter: all ten parameter tensors drawn at random with every bias non-zero (the
    phase net's auxiliary bias at its documented 0), regimes / construction paths / ways of writing the parameters in
    rotation (offset by the seed), then the full evaluation against the oracle.  The architectures with fewer latent than
    visible units ((3,1,1), (4,1,1), (4,1,2), (4,2,1)) and those with a size-1 layer beside a size-4 one go on, on the same
    object, with an in-place rewrite of the biases alone."""
    r = int(ctx.rng.integers(0, 1 << 20))
    for i, (nv, nh, na) in enumerate(ALL_SHAPES):
        regime = SWEEP_REGIMES[(i + i // 4 + i // 16 + r) % len(SWEEP_REGIMES)]
        how = CONSTRUCT[(i + i // 4 + r // 3) % len(CONSTRUCT)]
        way = SWEEP_WRITES[(i + r // 18) % len(SWEEP_WRITES)]
        for attempt in range(6):
            am, ph = draw_params(ctx, nv, nh, na, regime if attempt < 3 else "default")
            if representable(am, nv):
                break
        if how == "module":                               # the phase net is the library's copy of the caller's module: written in place
            way = ["data_copy_", "no_grad_copy_", "state_dict_alias_copy_"][(i + r) % 3]
        steps = [{"way": way, "regime": "all_architectures:" + regime, "am": am, "ph": ph}]
        if how == "module":                               # ... and then ONE of the two networks alone, again in place
            net = NETS[(i // 6 + r) % 2]
            steps.append(partial_step(ctx, nv, nh, na, [t for t in SINGLES if t[0] == net], ["no_grad_copy_", "data_copy_"][(i + r) % 2]))
        if nh + na < nv or (4 in (nv, nh, na) and 1 in (nv, nh, na) and (i + r) % 3 == 0):
            steps.append(partial_step(ctx, nv, nh, na, BIASES, ["data_copy_", "no_grad_copy_", "rebind_parameter"][(i + r) % 3]))
        for lab in arch_class(nv, nh, na):
            ctx.count("architecture_sweep:" + lab)
        run_history(ctx, nv, nh, na, steps, construct=how)


def one_case(ctx, nv, nh, na, zero_bias=False, regime="default", ways=(), big=False, construct="sizes"):
    """A fresh object, parameters written once (step 0), then the steps of one mutation operator + full re-evaluation per
    entry of ways."""
    if zero_bias:                                       # fresh-initialisation regime of the test-suite
        am = (gen.rand_values(ctx, (nh, nv)), gen.rand_values(ctx, (na, nv)), np.zeros(nv), np.zeros(nh), np.zeros(na))
        ph = (gen.rand_values(ctx, (nh, nv)), gen.rand_values(ctx, (na, nv)), np.zeros(nv), np.zeros(nh), np.zeros(na))
    else:
        am, ph = draw_params(ctx, nv, nh, na, regime)
    steps = [{"way": "init", "regime": regime, "am": am, "ph": ph}]
    for w in ways:
        steps.extend(op_steps(ctx, nv, nh, na, w))
    run_history(ctx, nv, nh, na, steps, big_steps=((0, len(steps) - 1) if big else ()), zero_bias=zero_bias, construct=construct)


# ------------------------------------------------------------------ "... and SAMPLES FROM": the sampler's own Bernoulli probabilities
# The statement's second clause says the diagonal of rho is the unnormalised distribution the model samples from.  What the
# model samples from is decided by the Bernoulli probabilities DensityMatrix.sample / rbm_am.gibbs_steps hand to torch at every
# step of the k-step chain.  They are OBSERVED (torch.bernoulli / Tensor.bernoulli / Tensor.bernoulli_ are wrapped for the time
# of one call; the probability tensor of every draw is recorded) while the draws themselves are SCRIPTED: row r of the batch is
# forced along one predetermined path (h_1, a_1, v_1, ..., h_k, a_k, v_k), so that with one row per path the probabilities of
# every path of the k-step chain from every start state are seen, whatever they depend on (the current visible state only, as
# they should, or also on earlier steps / a buffer that lives across steps or calls).  Demands:
#   S1  each hidden / auxiliary conditional used in step t equals the exact conditional of the purified joint distribution
#       p(v, h, a) ~ exp(b.v + c.h + d.a + h.W.v + a.U.v) given the visible state of step t-1 (brute-force marginals, numpy);
#   S2  each visible conditional used in step t equals the exact conditional given the (h, a) DRAWN in step t;
#   S3  the law of the RETURNED sample given the start state, K[i, j] = sum over the scripted paths from i that return j of the
#       product of the observed Bernoulli probabilities along the path, leaves diag(rho) / trace(rho) of the independent oracle
#       (auxiliary units summed in purified_state, nothing of the sampler's code) invariant to 1e-9: started in the reported
#       distribution, the sampler stays in it.  k = 1, 2, 3 and several steps, fresh and aged objects.
SAMPLING_RT, SAMPLING_AT = 1e-9, 1e-12
ENUM_LIMIT_QUICK, ENUM_LIMIT_FIXED = 20000, 140000


def bits_arr(n):
    return np.array(list(itertools.product([0.0, 1.0], repeat=n)), dtype=float).reshape(2 ** n, n)


def rows_index(x):
    x = np.asarray(x, dtype=float)
    return (x @ (2.0 ** np.arange(x.shape[1] - 1, -1, -1))).astype(int) if x.shape[1] else np.zeros(len(x), dtype=int)


def _lse(x, axis):
    m = np.max(x, axis=axis, keepdims=True)
    return np.squeeze(m, axis=axis) + np.log(np.sum(np.exp(x - m), axis=axis))


class JointOracle:
    """The purified joint distribution of the amplitude network over (visible, hidden, auxiliary) configurations as a table,
    from the raw parameters; conditionals by brute-force marginalisation of the table (no sigmoid formula), the diagonal of
    rho / its trace from purified_state (the oracle of the matrix relations above)."""

    def __init__(self, am, ph):
        W, U, b, c, d = (np.asarray(x, dtype=float) for x in am)
        self.nv, self.nh, self.na = len(b), len(c), len(d)
        V, H, A = bits_arr(self.nv), bits_arr(self.nh), bits_arr(self.na)
        self.V, self.H, self.A = V, H, A
        self.logJ = ((V @ b)[:, None, None] + (H @ c)[None, :, None] + (A @ d)[None, None, :]
                     + (H @ W @ V.T).T[:, :, None] + (A @ U @ V.T).T[:, None, :])            # (2^nv, 2^nh, 2^na)
        logp, _, _ = purified_state(am, ph, V)                                                 # log p_lambda(s, a), hidden units traced
        lmarg = _lse(logp, 1)                                                                  # log rho(s, s)
        self.p = np.exp(lmarg - _lse(lmarg, 0))                                                # diag(rho) / trace(rho)
        # self-consistency of the two oracles (pure rounding): the table's hidden sum is purified_state's log p(s, a)
        assert np.allclose(_lse(self.logJ, 1), logp, rtol=1e-10, atol=1e-9), "C02 harness: joint table != purified_state"
        lh, la = _lse(self.logJ, 2), _lse(self.logJ, 1)                                        # (2^nv, 2^nh), (2^nv, 2^na)
        self.Ph = np.exp(lh - _lse(lh, 1)[:, None])                                            # P(h | v)
        self.Pa = np.exp(la - _lse(la, 1)[:, None])                                            # P(a | v)
        self.ph1, self.pa1 = self.Ph @ H, self.Pa @ A                                          # P(h_j = 1 | v), P(a_j = 1 | v)
        lv = self.logJ - _lse(self.logJ, 0)[None, :, :]
        self.Pv = np.exp(lv)                                                                   # P(v | h, a), (2^nv, 2^nh, 2^na)
        self.pv1 = np.einsum("vha,vj->haj", self.Pv, V)                                        # P(v_j = 1 | h, a)
        # hidden and auxiliary units are independent given v (no h-a coupling): P(h, a | v) = P(h | v) P(a | v)
        self.T = np.einsum("vh,va,wha->vw", self.Ph, self.Pa, self.Pv)                         # exact one-step kernel
        assert np.allclose(self.p @ self.T, self.p, rtol=0, atol=1e-10), "C02 harness: oracle kernel does not keep diag(rho)"

    def cond_h(self, v):
        return self.ph1[rows_index(v)]

    def cond_a(self, v):
        return self.pa1[rows_index(v)]

    def cond_v(self, h, a):
        return self.pv1[rows_index(h), rows_index(a)]


class ScriptedBernoulli:
    """For the time of one sampler call: every Bernoulli draw made through torch's Python entry points (torch.bernoulli(input
    [, p][, out=]), Tensor.bernoulli([p]), Tensor.bernoulli_(p)) has its probability tensor recorded and its result replaced
    by the scripted draw of the layer the call belongs to.  Layers are told apart by the number of units per chain and the
    position in the step (hidden and auxiliary units - either first, or stacked in one call - before the visible units; where
    hidden and auxiliary layers have the same size and both are open, by which exact conditional the probabilities are closer
    to).  A call that cannot belong to a layer of the current step makes the run unreadable (self.reason); it and every later
    call are then passed to torch unchanged."""

    def __init__(self, orc, M, k, script, v0=None):
        self.orc, self.M, self.k, self.script = orc, M, k, script
        self.cur = None if v0 is None else np.asarray(v0, dtype=float)
        self.start_drawn = v0 is not None
        self.steps, self.open, self.reason, self.extra = [], None, None, 0

    def _layer(self, P2):
        o, m = self.orc, P2.shape[1]
        if not self.start_drawn:
            if m == o.nv and bool(np.all(P2 == 0.5)):
                self.start_drawn = True
                self.cur = self.script["v0"]
                return [("v0", o.nv)]
            self.reason = "the first draw of sample(k, num_samples) is not a uniform start state of num_visible units"
            return None
        if len(self.steps) >= self.k and self.open is None:
            self.extra += 1
            return None
        if self.open is None:
            self.open = {}
        pend = [(n, sz) for n, sz in (("h", o.nh), ("a", o.na)) if n not in self.open]
        if pend:
            if len(pend) == 2 and m == o.nh + o.na:
                dh = np.max(np.abs(P2[:, :o.nh] - o.cond_h(self.cur))) + np.max(np.abs(P2[:, o.nh:] - o.cond_a(self.cur)))
                da = np.max(np.abs(P2[:, :o.na] - o.cond_a(self.cur))) + np.max(np.abs(P2[:, o.na:] - o.cond_h(self.cur)))
                return [("h", o.nh), ("a", o.na)] if dh <= da else [("a", o.na), ("h", o.nh)]
            cand = [(n, sz) for n, sz in pend if sz == m]
            if len(cand) == 2:
                dh = np.max(np.abs(P2 - o.cond_h(self.cur)))
                da = np.max(np.abs(P2 - o.cond_a(self.cur)))
                cand = [cand[0]] if dh <= da else [cand[1]]
            if len(cand) == 1:
                return cand
            self.reason = ("a draw of %d units per chain in step %d while the %s layer(s) of %s units are still to be drawn"
                           % (m, len(self.steps) + 1, "/".join(n for n, _ in pend), "/".join(str(sz) for _, sz in pend)))
            return None
        if m == o.nv:
            return [("v", o.nv)]
        self.reason = "a draw of %d units per chain in step %d where the %d visible units are due" % (m, len(self.steps) + 1, o.nv)
        return None

    def draw(self, p):
        """p: torch tensor of probabilities (already a private copy).  Returns the scripted draw as a tensor of p's shape and
        dtype, or None (pass through to torch)."""
        import torch
        if self.reason is not None:
            return None
        P = p.detach().to(torch.double).numpy().astype(float)
        if P.size == 0 or P.size % self.M != 0:
            self.reason = "a draw of shape %s cannot be read as draws for %d chains" % (list(P.shape), self.M)
            return None
        P2 = P.reshape(self.M, -1)
        lay = self._layer(P2)
        if lay is None:
            return None
        t = len(self.steps)
        out, col = [], 0
        for n, sz in lay:
            if n == "v0":
                D = self.script["v0"]
            else:
                D = self.script[n][t]
                self.open[n] = D
                self.open["p" + n] = P2[:, col:col + sz].copy()
            out.append(D)
            col += sz
        if self.open is not None and "v" in self.open:
            self.steps.append(dict(self.open, prev=self.cur))
            self.cur, self.open = self.open["v"], None
        return torch.tensor(np.concatenate(out, axis=1).reshape(P.shape), dtype=p.dtype)

    def __enter__(self):
        import torch
        self.torch, self.orig = torch, torch.bernoulli
        base_, base = torch.Tensor.bernoulli_, torch.Tensor.bernoulli
        self.had = {n: torch.Tensor.__dict__.get(n) for n in ("bernoulli_", "bernoulli")}
        spy = self

        def prob_of(inp, a, k):
            p = inp.detach().clone()
            pa = a[0] if a and isinstance(a[0], (int, float)) else k.get("p")
            if isinstance(pa, (int, float)) and not isinstance(pa, bool):
                p = torch.full(tuple(p.shape), float(pa), dtype=torch.double)
            return p

        def wrapped(inp, *a, **k):
            d = spy.draw(prob_of(inp, a, k))
            if d is None:
                return spy.orig(inp, *a, **k)
            if k.get("out") is not None:
                k["out"].copy_(d)
                return k["out"]
            return d.to(inp.dtype)

        def wrapped_method(self_t, *a, **k):
            d = spy.draw(prob_of(self_t, a, k))
            return base(self_t, *a, **k) if d is None else d.to(self_t.dtype)

        def wrapped_inplace(self_t, *a, **k):
            pa = a[0] if a else k.get("p", 0.5)
            if isinstance(pa, torch.Tensor):
                p = pa.detach().to(torch.double).expand(tuple(self_t.shape)).clone()
            else:
                p = torch.full(tuple(self_t.shape), float(pa), dtype=torch.double)
            d = spy.draw(p)
            if d is None:
                return base_(self_t, *a, **k)
            with torch.no_grad():
                self_t.copy_(d)
            return self_t
        torch.bernoulli, torch.Tensor.bernoulli_, torch.Tensor.bernoulli = wrapped, wrapped_inplace, wrapped_method
        return self

    def __exit__(self, *exc):
        torch = self.torch
        torch.bernoulli = self.orig
        for n, old in self.had.items():
            if old is None:
                delattr(torch.Tensor, n)
            else:
                setattr(torch.Tensor, n, old)
        return False


def n_paths(nv, nh, na, k):
    return (2 ** nv) * (2 ** (nh + na + nv)) ** k


def make_script(orc, k, rows, seed, enumerate_all):
    """The scripted draws of one run: {v0: (M, nv), h: [k x (M, nh)], a: [...], v: [...]}.  enumerate_all: one row per path of
    the k-step chain from every start state (rows shuffled); otherwise `rows` random paths."""
    r = np.random.default_rng(int(seed))
    nv, nh, na = orc.nv, orc.nh, orc.na
    if enumerate_all:
        width = nv + k * (nh + na + nv)
        allb = ((np.arange(2 ** width)[:, None] >> np.arange(width)[::-1]) & 1).astype(float)[r.permutation(2 ** width)]
    else:
        allb = r.integers(0, 2, size=(int(rows), nv + k * (nh + na + nv))).astype(float)
    sc = {"v0": np.ascontiguousarray(allb[:, :nv]), "h": [], "a": [], "v": []}
    col = nv
    for _ in range(k):
        for n, sz in (("h", nh), ("a", na), ("v", nv)):
            sc[n].append(np.ascontiguousarray(allb[:, col:col + sz]))
            col += sz
    return sc


def sampling_run(ctx, s, orc, base_case, run, idx):
    """One call of DensityMatrix.sample / rbm_am.gibbs_steps with scripted draws; S1, S2 (every run) and S3 (enumerating runs).
    run = {via, k, overwrite, form, rows, seed}."""
    import torch
    via, k, overwrite, form = run["via"], int(run["k"]), bool(run["overwrite"]), run["form"]
    enum = form in ("enumerate", "enumerate_num_samples")
    sc = make_script(orc, k, run.get("rows", 1), run["seed"], enum)
    M = len(sc["v0"])
    case = dict(base_case, run_index=idx, run=dict(run), via=via, k=k, overwrite=overwrite, start_form=form, chains=M)
    what = "%s(k=%d%s)" % (via, k, ", num_samples=%d" % M if form == "enumerate_num_samples" else ", initial_state=<%d x %d>, overwrite=%s" % (M, orc.nv, overwrite))
    v0 = torch.tensor(sc["v0"], dtype=torch.double)
    torch.manual_seed(int(run["seed"]) % (2 ** 31 - 1))
    with ScriptedBernoulli(orc, M, k, sc, v0=None if form == "enumerate_num_samples" else sc["v0"]) as spy:
        if form == "enumerate_num_samples":
            ok, res = ctx.call(what, case, lambda: s.sample(k, num_samples=M))
        elif via == "sample":
            ok, res = ctx.call(what, case, lambda: s.sample(k, initial_state=v0, overwrite=overwrite))
        else:
            ok, res = ctx.call(what, case, lambda: s.rbm_am.gibbs_steps(k, v0, overwrite=overwrite))
    ctx.count("samples_from:run:%s:k=%s:%s:overwrite=%s" % (via, k if k <= 3 else "several", "one_row" if M == 1 else "many_rows", overwrite))
    if not ok:
        return False
    try:
        res2 = res.detach().to(torch.double).numpy().astype(float).reshape(M, orc.nv)
        readable = bool(np.all((res2 == 0.0) | (res2 == 1.0)))
    except Exception:                                     # the shape / type of the result is not this property's subject
        readable = False
    if spy.reason is not None or len(spy.steps) < k or not readable:
        ctx.count("samples_from:draws_not_readable_as_k_block_steps")
        ctx.notes.append("C02 samples-from: %s: %s" % (what, spy.reason or "fewer than k complete steps were drawn through torch's Bernoulli entry points"))
        return None                                       # the caller decides by the statistical invariance test instead
    if spy.extra:
        ctx.count("samples_from:draws_after_step_k")
    good = True
    for t, st in enumerate(spy.steps[:k]):
        for lay, P, E, given in (("hidden", st["ph"], orc.cond_h(st["prev"]), "visible state of step %d" % t),
                                 ("auxiliary", st["pa"], orc.cond_a(st["prev"]), "visible state of step %d" % t),
                                 ("visible", st["pv"], orc.cond_v(st["h"], st["a"]), "hidden and auxiliary units drawn in step %d" % (t + 1))):
            okm = np.abs(P - E) <= SAMPLING_AT + SAMPLING_RT * np.abs(E)
            if not bool(np.all(okm)):
                r_ = int(np.flatnonzero(~okm.all(axis=1))[0])
                det = {"call": what, "step": t + 1, "of": k, "layer": lay, "chain (row of the batch)": r_,
                       "start state of the chain": sc["v0"][r_].tolist(), "visible state before the step": st["prev"][r_].tolist(),
                       "hidden drawn in the step": st["h"][r_].tolist(), "auxiliary drawn in the step": st["a"][r_].tolist(),
                       "Bernoulli probabilities used": P[r_].tolist(), "exact conditional": E[r_].tolist(),
                       "chains with a wrong probability": int((~okm.all(axis=1)).sum()), "of chains": M}
                if lay == "visible" and t > 0:
                    det["auxiliary drawn in EARLIER steps"] = [spy.steps[u]["a"][r_].tolist() for u in range(t)]
                good &= ctx.require("samples from: the %s units in a block-Gibbs step of sample / gibbs_steps are drawn with the exact conditional "
                                    "of the purified joint distribution (whose visible marginal is diag(rho)) given the %s"
                                    % (lay, "current visible state" if lay != "visible" else "hidden and auxiliary units just drawn"),
                                    False, case, det)
                break
        if not good:
            break
    if enum:
        # law of the RETURNED sample given the start state, from the observed probabilities of every path
        w = np.ones(M)
        for st in spy.steps[:k]:
            for nm in ("h", "a", "v"):
                D, P = st[nm], st["p" + nm]
                w = w * np.prod(np.where(D == 1.0, P, 1.0 - P), axis=1)
        N = 2 ** orc.nv
        K = np.zeros((N, N))
        np.add.at(K, (rows_index(sc["v0"]), rows_index(res2)), w)
        if form == "enumerate_num_samples":
            pass                                          # the start draw itself is uniform: K is still the law given the start
        pK = orc.p @ K
        dev = float(np.max(np.abs(pK - orc.p)))
        _measure("samples_from_invariance", dev / 1e-9)
        good &= ctx.require("samples from: diag(rho) / trace(rho) is invariant under the k-step law of sample / gibbs_steps built from the "
                            "Bernoulli probabilities the sampler used on every path (started in the reported distribution the samples "
                            "follow the reported distribution)", dev <= 1e-9, case,
                            {"call": what, "k": k, "paths (one chain each)": M, "diag(rho)/trace(rho)": orc.p.tolist(), "after k steps": pK.tolist(),
                             "max deviation": dev, "row sums of the observed k-step law": K.sum(1).tolist(),
                             "exact k-step law keeps it to": float(np.max(np.abs(orc.p @ np.linalg.matrix_power(orc.T, k) - orc.p)))})
        ctx.count("samples_from:k_step_law_built_from_observed_probabilities")
    ctx.traces += 1
    return good


def invariance_by_statistics(ctx, s, orc, base_case, k, seed, n=200000):
    """Fallback when the draws could not be observed: n independent chains started in diag(rho)/trace(rho) (stratified: round(n
    p_i) chains in basis state i), k steps through DensityMatrix.sample; the empirical law of the result must be within the
    Hoeffding radius for a failure probability of 1e-9 per cell (+ the stratification rounding) of diag(rho)/trace(rho)."""
    import torch
    cnt = np.floor(orc.p * n + 0.5).astype(int)
    start = np.repeat(orc.V, cnt, axis=0)
    n_eff = len(start)
    case = dict(base_case, via="sample", k=k, torch_seed=int(seed), chains=n_eff, decided_by="statistics")
    torch.manual_seed(int(seed))
    ok, res = ctx.call("sample(k=%d, initial_state=<%d chains started in diag(rho)/trace(rho)>)" % (k, n_eff), case,
                       lambda: s.sample(k, initial_state=torch.tensor(start, dtype=torch.double)))
    if not ok:
        return
    try:
        idx = rows_index(res.detach().to(torch.double).numpy().reshape(n_eff, orc.nv))
        emp = np.bincount(idx, minlength=2 ** orc.nv)[: 2 ** orc.nv] / n_eff
    except Exception:
        ctx.count("samples_from:statistical_result_unreadable")
        return
    eps = math.sqrt(math.log(2.0 / 1e-9) / (2.0 * n_eff)) + (2 ** orc.nv) / n_eff
    dev = float(np.max(np.abs(emp - orc.p)))
    ctx.require("samples from (statistical): %d chains started in diag(rho)/trace(rho) follow diag(rho)/trace(rho) after k steps of sample" % n_eff,
                dev <= eps, case, {"k": k, "empirical": emp.tolist(), "diag(rho)/trace(rho)": orc.p.tolist(), "max deviation": dev,
                                   "Hoeffding radius (failure probability 1e-9 per cell)": eps})
    ctx.count("samples_from:decided_by_statistics")
    # ... and the chain is THE block-Gibbs chain of the purified joint distribution (invariance alone also holds for a chain that
    # does not converge to diag(rho), e.g. one that keeps a latent layer fixed): k-step law from every basis state vs the exact T^k
    per, N = 100000, 2 ** orc.nv
    case2 = dict(case, chains=per * N, torch_seed=int(seed) + 1)
    torch.manual_seed(int(seed) + 1)
    ok, res = ctx.call("sample(k=%d, initial_state=<%d chains from each basis state>)" % (k, per), case2,
                       lambda: s.sample(k, initial_state=torch.tensor(np.repeat(orc.V, per, axis=0), dtype=torch.double)))
    if not ok:
        return
    try:
        idx = rows_index(res.detach().to(torch.double).numpy().reshape(per * N, orc.nv)).reshape(N, per)
        emp = np.stack([np.bincount(idx[i], minlength=N)[:N] / per for i in range(N)])
    except Exception:
        ctx.count("samples_from:statistical_result_unreadable")
        return
    Tk = np.linalg.matrix_power(orc.T, k)
    eps = math.sqrt(math.log(2.0 / 1e-9) / (2.0 * per))
    dev = np.abs(emp - Tk)
    i, j = (int(t) for t in np.unravel_index(np.argmax(dev), dev.shape))
    ctx.require("samples from (statistical): the law of sample(k) from each basis state is the k-step law of the block-Gibbs chain of the "
                "purified joint distribution (the chain that converges to diag(rho)/trace(rho))", float(dev.max()) <= eps, case2,
                {"k": k, "start state": orc.V[i].tolist(), "empirical law": emp[i].tolist(), "exact k-step law": Tk[i].tolist(),
                 "max deviation": float(dev.max()), "at result": orc.V[j].tolist(), "Hoeffding radius (failure probability 1e-9 per cell)": eps})


def sampling_plan(nv, nh, na, ks, seed, limit, light=False):
    """The runs on ONE object for one parameter setting: the FIRST run of a fresh object is already a k >= 2 run where possible;
    k = 1, 2, 3, several; sample and gibbs_steps; overwrite both ways; one-row (1, nv) and many-row batches; every k with
    few enough paths is enumerated (S3), the others get random paths (S1, S2); the object ages from run to run, and the
    k = 2 / 3 enumerations are repeated at the end on the aged object."""
    r = np.random.default_rng(int(seed))
    sd = lambda: int(r.integers(0, 2 ** 31 - 1))          # noqa: E731
    runs = []
    order = [k for k in ks if k >= 2] + [k for k in ks if k < 2]
    for i, k in enumerate(order):
        enum = n_paths(nv, nh, na, k) <= limit
        via = ("sample", "gibbs_steps")[(i + seed) % 2]
        other = ("gibbs_steps", "sample")[(i + seed) % 2]
        ow = bool((i + seed // 2) % 2)
        if enum:
            runs.append({"via": via, "k": k, "overwrite": ow, "form": "enumerate", "seed": sd()})
            if not light:
                runs.append({"via": other, "k": k, "overwrite": not ow, "form": "enumerate", "seed": sd()})
        else:
            runs.append({"via": via, "k": k, "overwrite": ow, "form": "random_rows", "rows": 257, "seed": sd()})
            runs.append({"via": other, "k": k, "overwrite": not ow, "form": "random_rows", "rows": 64, "seed": sd()})
        for j in range(2 if light else 4):                # one-row batches, both entry points, overwrite both ways
            runs.append({"via": ("sample", "gibbs_steps")[j % 2], "k": k, "overwrite": bool((j // 2 + i) % 2), "form": "one_row", "rows": 1, "seed": sd()})
    enumerable = [k for k in order if k >= 2 and n_paths(nv, nh, na, k) <= limit]
    for k in enumerable[:2]:                              # aged object: after all the runs above
        runs.append({"via": "sample", "k": k, "overwrite": False, "form": "enumerate_num_samples", "seed": sd()})
        runs.append({"via": "gibbs_steps", "k": k, "overwrite": True, "form": "enumerate", "seed": sd()})
    return runs


def sampling_case(ctx, spec):
    """spec = {nv, nh, na, ctor_seed, construct, settings: [{am, ph, way, regime}], runs: [[run, ...] per setting]}: ONE
    DensityMatrix object; for each parameter setting (the first written into the fresh object, the later ones in place into
    the aged one) the planned sampler runs.  Everything is determined by spec (replayable)."""
    nv, nh, na = int(spec["nv"]), int(spec["nh"]), int(spec["na"])
    s, how = construct_state(ctx, nv, nh, na, spec.get("construct") or "sizes", int(spec["ctor_seed"]))
    unreadable = False
    for si, (st, runs) in enumerate(zip(spec["settings"], spec["runs"])):
        am = tuple(np.asarray(x, dtype=float) for x in st["am"])
        ph = tuple(np.asarray(x, dtype=float) for x in st["ph"])
        for net, pr in (("rbm_am", am), ("rbm_ph", ph)):
            write_params(getattr(s, net), pr, st.get("way") or "data_copy_")
        orc = JointOracle(am, ph)
        nontriv = bool(np.all(am[1] != 0) and np.all(am[4] != 0) and all(np.all(x != 0) for x in (am[2], am[3])))
        ctx.case({"part": "samples_from", "nv": nv, "nh": nh, "na": na, "setting": si, "U_am00": float(am[1][0, 0]), "d_am0": float(am[4][0]),
                  "ks": sorted({int(r["k"]) for r in runs})}, nontrivial=nontriv)
        ctx.count("samples_from:setting:%s" % ("fresh_object" if si == 0 else "rewritten_in_place_on_the_aged_object"))
        base = {"part": "samples_from", "regime": st.get("regime"), "nv": nv, "nh": nh, "na": na, "am": gen.plist(*am), "ph": gen.plist(*ph),
                "setting": si, "sampling_spec": spec}
        for idx, run in enumerate(runs):
            out = sampling_run(ctx, s, orc, base, run, idx)
            if out is None:
                unreadable = True
                break
            if out is False and len(ctx.failures) >= 6:
                return
        if unreadable:
            for k in sorted({int(r["k"]) for r in runs if int(r["k"]) >= 1})[:3]:
                invariance_by_statistics(ctx, s, orc, base, k, seed=int(spec["ctor_seed"]) + 17 * k)
            return


def plist_spec(am, ph):
    return {"am": gen.plist(*am), "ph": gen.plist(*ph)}


def fixed_sampling_cases(ctx):
    """Run before everything else: 2 visible units, 1-2 hidden, 1-2 auxiliary, k = 2 and k = 3 FIRST on the fresh object (then 1
    and 4), every path enumerated where there are at most 140000; deterministic parameters with sizeable visible-auxiliary
    weights and every bias non-zero; a second setting written in place into the aged object."""
    nz = lambda x: np.where(np.abs(x) < 0.05, 0.37, x)      # noqa: E731
    for i, (nv, nh, na, ks) in enumerate([(2, 1, 1, (2, 3, 1, 4)), (2, 2, 1, (2, 3, 1)), (2, 1, 2, (3, 2, 1)), (2, 2, 2, (2, 3, 1, 5))]):
        settings = []
        for j in range(2):
            q = 11 * i + 5 * j
            am = (nz(_det((nh, nv), -1.5, 1.5, q)), nz(_det((na, nv), -2.0, 2.0, q + 1)), nz(_det((nv,), -1.0, 1.0, q + 2)),
                  nz(_det((nh,), -1.5, 1.5, q + 3)), nz(_det((na,), -1.5, 1.5, q + 4)))
            ph = (_det((nh, nv), -2.0, 2.0, q + 5), _det((na, nv), -2.0, 2.0, q + 6), nz(_det((nv,), -2.0, 2.0, q + 7)),
                  nz(_det((nh,), -2.0, 2.0, q + 8)), np.zeros(na))
            settings.append(dict(plist_spec(am, ph), way=["init", "data_copy_"][j], regime="samples_from_fixed"))
        runs = [sampling_plan(nv, nh, na, ks, 100 + 7 * i + j, ENUM_LIMIT_FIXED, light=(j == 1)) for j in range(2)]
        sampling_case(ctx, {"nv": nv, "nh": nh, "na": na, "ctor_seed": 4242 + i, "construct": "sizes", "settings": settings, "runs": runs})


SAMPLING_SHAPES_QUICK = [(1, 1, 1), (2, 1, 2), (1, 2, 1), (2, 2, 1), (3, 1, 1), (2, 3, 1), (1, 1, 3), (3, 2, 2), (2, 1, 1), (3, 1, 2)]


def random_sampling_cases(ctx):
    """The random stream of the samples-from relation: architectures 1..3 (quick, + one with a size-4 layer per seed) / a draw
    from all 64 (thorough), parameter regimes default / large_bias in rotation, construction paths in rotation, k = 1, 2, 3 and
    one `several` (4..9) per case, a second parameter setting written in place into the aged object."""
    if ctx.thorough:
        shp = SAMPLING_SHAPES_QUICK + [ALL_SHAPES[int(t)] for t in ctx.rng.choice(len(ALL_SHAPES), size=30, replace=False)]
    else:
        with4 = [t for t in ALL_SHAPES if 4 in t]
        shp = SAMPLING_SHAPES_QUICK + [with4[int(ctx.rng.integers(0, len(with4)))]]
    limit = ENUM_LIMIT_FIXED if ctx.thorough else ENUM_LIMIT_QUICK
    r0 = int(ctx.rng.integers(0, 1 << 16))
    for i, (nv, nh, na) in enumerate(shp):
        ks = (2, 3, 1, int(ctx.rng.integers(4, 10)))
        settings = []
        for j in range(2):
            regime = ["default", "large_bias"][(i + j + r0) % 2]
            am, ph = draw_params(ctx, nv, nh, na, regime)
            settings.append(dict(plist_spec(am, ph), regime=regime,
                                 way="init" if j == 0 else ["data_copy_", "no_grad_copy_", "rebind_parameter", "load_state_dict"][(i + r0) % 4]))
        runs = [sampling_plan(nv, nh, na, ks if j == 0 else ks[:2], int(ctx.rng.integers(0, 2 ** 31 - 1)), limit, light=True) for j in range(2)]
        sampling_case(ctx, {"nv": nv, "nh": nh, "na": na, "ctor_seed": int(ctx.rng.integers(0, 2 ** 31 - 1)),
                            "construct": CONSTRUCT[(i + r0) % len(CONSTRUCT)], "settings": settings, "runs": runs})


def run(ctx):
    # first of all: what the model SAMPLES FROM (fixed k = 2 / k = 3 cases on 2 visible units, then the random stream)
    fixed_sampling_cases(ctx)
    random_sampling_cases(ctx)
    # fixed cases that always run first: same-object histories with every mutation operator, then all four in-place ways of
    # rewriting the parameters with batches of more than 65536 rows
    all_architectures(ctx)
    fixed_near_range(ctx)
    fixed_histories(ctx)
    for (nv, nh, na) in [(2, 2, 2), (1, 1, 1), (3, 2, 1)]:
        one_case(ctx, nv, nh, na, ways=WAYS, big=True)
    draws = 20 if ctx.thorough else 6
    k = 0
    for (nv, nh, na) in shapes(ctx):
        for d in range(draws):
            regs = REGIMES_THOROUGH if ctx.thorough else REGIMES_QUICK
            if d % 3 == 1:
                ways = [ALL_OPS[(k // 3 + t * 7) % len(ALL_OPS)] for t in range(2)]
            elif d % 3 == 2:
                ways = [NEW_OPS[(k // 3) % len(NEW_OPS)]]
            else:
                ways = ()
            one_case(ctx, nv, nh, na, regime=regs[d % len(regs)], ways=ways, big=(d % 6 == 4), construct=CONSTRUCT[(k + k // 6) % len(CONSTRUCT)])
            k += 1
    one_case(ctx, 2, 2, 2, zero_bias=True)
    one_case(ctx, 3, 1, 2, zero_bias=True)
    random_near_range(ctx, 48 if ctx.thorough else 20)


def search(ctx, broken, budget):
    """Wider oracle sweep when proof or correspondence broke: all shapes up to 3, more draws."""
    import time
    t0 = time.time()
    n0 = len(ctx.failures)
    random_near_range(ctx, 12)                            # finite results, intermediates beyond the double range
    if len(ctx.failures) > n0:
        return ctx.failures[n0]
    for rnd in range(6):
        for (nv, nh, na) in [(a, b, c) for a in range(1, 4) for b in range(1, 4) for c in range(1, 4)]:
            one_case(ctx, nv, nh, na, regime=REGIMES_QUICK[rnd % len(REGIMES_QUICK)], ways=[ALL_OPS[(rnd * 5 + nv + 3 * nh + 9 * na) % len(ALL_OPS)]], big=(rnd == 0))
            if len(ctx.failures) > n0:
                return ctx.failures[n0]
            if time.time() - t0 > budget:
                return None
    return None


def replay(ctx, rec):
    case = rec.get("failing", {}).get("case") or {}
    if case.get("part") == "samples_from" and case.get("sampling_spec"):
        sp = case["sampling_spec"]
        print("replay of the samples-from relation: DensityMatrix nv=%d nh=%d na=%d, %d parameter settings, %s sampler runs on one object"
              % (sp["nv"], sp["nh"], sp["na"], len(sp["settings"]), [len(r) for r in sp["runs"]]))
        sampling_case(ctx, sp)
        for f in ctx.failures[:5]:
            print("FAILS:", f["what"], f["detail"][:400])
        return
    if not (all(k in case for k in ("nv", "nh", "na")) and (case.get("history") or all(k in case for k in ("am", "ph")))):
        print("replay record has no density-matrix case; running the generated cases")
        run(ctx)
        return
    nv, nh, na = int(case["nv"]), int(case["nh"]), int(case["na"])
    steps = case.get("history") or [{"way": "init", "regime": case.get("regime"), "am": case["am"], "ph": case["ph"]}]
    steps = [dict(st) for st in steps]
    if steps[-1].get("aux_seed") is None and "aux_seed" in case:
        steps[-1]["aux_seed"] = case["aux_seed"]
    steps = [{k: v for k, v in st.items() if not (k == "aux_seed" and v is None)} for st in steps]
    print("replay of density matrix nv=%d nh=%d na=%d, history of %d parameter mutations on one object: %s" % (nv, nh, na, len(steps), [st["way"] for st in steps]))
    run_history(ctx, nv, nh, na, steps, big_steps=((len(steps) - 1,) if case.get("big") else ()), ctor_seed=case.get("ctor_seed"),
                construct=case.get("construct") or "sizes")
    for f in ctx.failures[:5]:
        print("FAILS:", f["what"], f["detail"][:300])
