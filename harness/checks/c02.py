"""C02 — The reconstructed density matrix is always a physical state.

Correspondence: rho (full matrix / paired vector / single element / diagonal shortcut), pi, gamma(+/-),
probability, normalization, effective_energy(v) and (v, a) of real DensityMatrix / PurificationRBM objects
vs the extracted Coq model (States.dm_rho, dm_pi, dm_rho_matrix, dm_rho_diag, dm_probability,
dm_normalization; Rbm.p_gamma, p_eff_energy, p_eff_energy_va) on all pairs of basis states.

Oracle (property relation on the implementation's own outputs, numpy only): rho(space, space) is Hermitian,
its smallest eigenvalue is >= -1e-9 trace, its diagonal equals probability(space), its trace equals
normalization(space), it equals entry for entry the brute-force partial trace sum_a Psi(s,a) conj Psi(s',a)
of the purified two-network state computed from the raw parameters, the reported probability equals the
brute-force auxiliary marginal, and the call forms (matrix, paired vector, single element, diagonal
shortcut) agree with each other."""
import itertools, math
import numpy as np
import gen

RULE = ("architectures nv,nh,na in 1..3 (quick: covering subset incl. nh != nv, na != nv, size-1 dims) / 1..4 all 64 "
        "shapes (thorough); parameter draws from the mixture in harness/gen.py with every bias non-zero and the phase "
        "net's auxiliary bias 0, in three regimes: default (|bias| <~ 4), large_bias (bias magnitudes up to 30), branch "
        "(phase-net U of magnitude pi..9, so 1 + exp(z_k) visits the left half-plane); the basis is enumerated "
        "independently (itertools.product); all pairs (sigma, sigma') of basis states; call forms rho(space,space), "
        "rho(space) with default vp, rho(v,vp,expand=False), 1-D single element, rho(v) 1-D, rho(v,expand=False); "
        "matrix form with v != vp (two row orders, rectangular k x m, off-diagonal block); probability(space), "
        "probability(space, Z); SAME-OBJECT HISTORIES: one DensityMatrix and one set of batch tensor objects, parameters of "
        "both networks rewritten by .data =, .data.copy_, load_state_dict, vector_to_parameters and everything re-evaluated; "
        "a batch tensor permuted in place (copy_ / .data.copy_) between two evaluations; batches of 65537..131075 rows "
        "gathered against the small verified results; three fixed history cases run first; "
        "a case is (regime, nv, nh, na, parameter draw, history step); "
        "non-trivial := all biases non-zero, amplitude aux bias != 0 and U_mu != 0")
ASSUMPTIONS = ["torch exp/log/sqrt/atan2/softplus/logsumexp/matmul implement the real functions up to rounding",
               "parameter draws avoid the measure-zero singular points 1 + exp(z_k) = 0 of the code's log/atan2 "
               "(x_k = 0 and y_k = pi mod 2 pi), where the partial-trace theorem has its guard"]

TWO_PI = 2.0 * math.pi
# relative tolerance of the oracle relations that compare two different float evaluation paths: torch's softplus
# returns x for x > 20 (drops log1p(exp(-x)) <= 2.1e-9 per unit), so 1e-9 would alarm on correct code
RT = 1e-7


def shapes(ctx):
    if ctx.thorough:
        return [(nv, nh, na) for nv in range(1, 5) for nh in range(1, 5) for na in range(1, 5)]
    return [(1, 1, 1), (1, 2, 3), (2, 1, 1), (2, 3, 1), (2, 2, 3), (3, 1, 2), (3, 2, 1), (3, 3, 3), (2, 1, 2), (1, 3, 2)]


# ------------------------------------------------------------------ independent numpy reference
def purified_state(am, ph, sp):
    """Psi[s, a] = sqrt(p_lambda(s,a)) exp(i phi_mu(s,a)); hidden units traced analytically (softplus).
    Returns (logp, phi): log p_lambda and phi_mu as (N, 2^na) arrays."""
    W, U, b, c, d = am
    Wp, Up, bp, cp, dp = ph
    na = len(d)
    A = np.array(list(itertools.product([0.0, 1.0], repeat=na)))          # (2^na, na)
    vis_am = sp @ b + gen.softplus(sp @ W.T + c).sum(-1)                      # (N,)
    vis_ph = sp @ bp + gen.softplus(sp @ Wp.T + cp).sum(-1)
    logp = vis_am[:, None] + (A @ d)[None, :] + (sp @ U.T) @ A.T             # -E_lambda(s, a)
    phi = 0.5 * (vis_ph[:, None] + (A @ dp)[None, :] + (sp @ Up.T) @ A.T)    # -E_mu(s, a) / 2
    return logp, phi, A


def wrap_2pi(d):
    d = np.asarray(d, dtype=float)
    return d - TWO_PI * np.round(d / TWO_PI)


def cnp(t):
    """(2, ...) real-pair tensor -> complex numpy array"""
    a = t.detach().numpy()
    return a[0] + 1j * a[1]


# ------------------------------------------------------------------ one case
def make_tensors(nv, na):
    """The batch tensors of one case.  They are created ONCE per object history and re-used (same tensor objects) for
    every re-evaluation after the parameters were rewritten, so that a result cached per batch object shows up."""
    import torch
    sp = gen.all_states(nv)                             # independent enumeration (itertools.product), row i = binary of i
    space = torch.tensor(sp, dtype=torch.double)
    N = len(sp)
    ii, jj = np.divmod(np.arange(N * N), N)
    A = np.array(list(itertools.product([0.0, 1.0], repeat=na)))
    VVn, AAn = np.repeat(sp, len(A), axis=0), np.tile(A, (N, 1))
    return {"sp": sp, "space": space, "ii": ii, "jj": jj, "V": space[ii], "VP": space[jj], "VVn": VVn, "AAn": AAn,
            "VV": torch.tensor(VVn, dtype=torch.double), "AA": torch.tensor(AAn, dtype=torch.double),
            "row1": [space[i] for i in range(N)], "mutable": space.clone()}


def evaluate(ctx, s, am, ph, case, nontriv, desc, T=None, big=False):
    """Full evaluation of one parameter setting of the object s.  All auxiliary discrete choices (probe pairs, random Z,
    permutations, large-batch indices) come from a generator seeded with case['aux_seed'], so a replay repeats them."""
    import torch
    m = ctx.get_model()
    nv, na = len(am[2]), len(am[4])
    if T is None:
        T = make_tensors(nv, na)
    arng = np.random.default_rng(int(case.setdefault("aux_seed", int(ctx.rng.integers(0, 2 ** 31 - 1)))))
    sp, space = T["sp"], T["space"]
    N = len(sp)
    logp, phi, A = purified_state(am, ph, sp)
    Uam = am[1]
    xmax = float(np.max(np.abs(sp @ Uam.T + am[4]))) if na else 0.0
    if np.max(logp) > 600 or 2 * xmax > 600 or np.max(-gen.np_eff_energy_p(*am, sp)) > 600:
        ctx.count("skipped_overflow")
        return
    ctx.case(desc, nontrivial=nontriv)
    xk = 0.5 * ((sp @ Uam.T + am[4])[:, None, :] + (sp @ Uam.T + am[4])[None, :, :])
    yk = 0.5 * ((sp @ ph[1].T)[:, None, :] - (sp @ ph[1].T)[None, :, :])
    if np.any(1 + np.exp(xk) * np.cos(yk) < 0):
        ctx.count("pi_arg_in_left_half_plane")           # atan2 leaves the range of atan here
    if np.any(np.abs(yk) > math.pi / 2):
        ctx.count("phase_arg_beyond_pi_over_2")
    if max(np.max(np.abs(x)) for x in (am[2], am[3], am[4], ph[2], ph[3])) > 10:
        ctx.count("bias_magnitude_above_10")
    ctx.count("shape:%dx%dx%d" % (nv, len(am[3]), na))

    ii, jj = T["ii"], T["jj"]
    V, VP = T["V"], T["VP"]                            # all pairs, row-major like the matrix
    rb_am, rb_ph = s.rbm_am, s.rbm_ph
    ok, out = ctx.call("density-matrix evaluation", case, lambda: (
        s.rho(space, space), s.rho(V, VP, expand=False), s.rho(space, expand=False),
        s.pi(space, space), s.pi(V, VP, expand=False),
        rb_am.gamma(space, space, eta=+1), rb_ph.gamma(space, space, eta=-1),
        rb_am.gamma(V, VP, eta=+1, expand=False), rb_ph.gamma(V, VP, eta=-1, expand=False),
        s.probability(space), s.normalization(space), s.rho(space)))
    if not ok:
        return
    R, Rv, Rd, P, Pv, Gp, Gm, Gpv, Gmv, prob, Z, Rdef = out
    shapes_ok = (list(R.shape) == [2, N, N] and list(Rv.shape) == [2, N * N] and list(Rd.shape) == [2, N]
                 and list(P.shape) == [2, N, N] and list(Pv.shape) == [2, N * N]
                 and list(Gp.shape) == [N, N] and list(Gm.shape) == [N, N] and list(prob.shape) == [N]
                 and list(Rdef.shape) == [2, N, N])
    ctx.require("result shapes of rho / pi / gamma / probability", shapes_ok, case,
                [list(x.shape) for x in (R, Rv, Rd, P, Pv, Gp, Gm, prob, Rdef)])
    if not shapes_ok:
        return

    # ---------------- correspondence with the Coq model
    amph = list(am) + list(ph)
    m_R, m_P, m_Gp, m_Gm, m_prob, m_Z, m_diag = m.call("dm_full", *amph, sp)
    m_Rv, m_Pv, m_Gpv, m_Gmv = m.call("dm_pairs", *amph, sp[ii], sp[jj])
    mR = np.array(m_R)                                  # (N, N, 2)
    mRc = mR[..., 0] + 1j * mR[..., 1]
    amp = np.abs(mRc)
    if not np.all(np.isfinite(amp)) or np.any(amp == 0):
        ctx.count("skipped_overflow")
        return
    Rc, Rvc, Rdc = cnp(R), cnp(Rv), cnp(Rd)
    un = lambda z: [np.real(z).tolist(), np.imag(z).tolist()]
    ctx.agree("rho(space,space) / |rho_model|", un(Rc / amp), un(mRc / amp), case, rtol=0, atol=1e-7, scale=1.0)
    Rdefc = cnp(Rdef)
    ctx.agree("rho(space) [default vp] / |rho_model|", un(Rdefc / amp), un(mRc / amp), case, rtol=0, atol=1e-7, scale=1.0)
    mRvc = np.array(m_Rv)[:, 0] + 1j * np.array(m_Rv)[:, 1]
    ctx.agree("rho(v,vp,expand=False) / |rho_model|", un(Rvc / amp.ravel()), un(mRvc / amp.ravel()), case, rtol=0, atol=1e-7, scale=1.0)
    mP = np.array(m_P)
    ctx.agree("pi(space,space).real", P[0], mP[..., 0], case)
    ctx.agree("pi(space,space).imag mod 2pi", wrap_2pi(P[1].numpy() - mP[..., 1]), np.zeros((N, N)), case, rtol=0, atol=1e-8, scale=1.0)
    mPv = np.array(m_Pv)
    ctx.agree("pi(v,vp,expand=False).real", Pv[0], mPv[:, 0], case)
    ctx.agree("pi(v,vp,expand=False).imag mod 2pi", wrap_2pi(Pv[1].numpy() - mPv[:, 1]), np.zeros(N * N), case, rtol=0, atol=1e-8, scale=1.0)
    ctx.agree("rbm_am.gamma(eta=+1)", Gp, m_Gp, case)
    ctx.agree("rbm_ph.gamma(eta=-1)", Gm, m_Gm, case)
    ctx.agree("rbm_am.gamma(eta=+1, expand=False)", Gpv, m_Gpv, case)
    ctx.agree("rbm_ph.gamma(eta=-1, expand=False)", Gmv, m_Gmv, case)
    ctx.agree("probability(space)", prob, m_prob, case, atol=0)
    ctx.agree("normalization(space)", Z, m_Z, case, atol=0)
    ctx.agree("rho(v, expand=False) diagonal shortcut", Rd.numpy().T, m_diag, case, atol=0)
    Zf = float(Z)
    Zr = float(np.exp(arng.uniform(np.log(0.05), np.log(50.0))))
    pzs = None
    okz, pzs = ctx.call("probability(space, Z)", case, lambda: (
        s.probability(space, Zf), s.probability(space, Z=Zr), s.probability(space[N - 1], Zr)))
    if okz:
        pz, pr, pr1 = pzs
        ctx.agree("probability(space, Z=normalization)", pz, m.call("dm_probability", *am, sp, Zf), case, atol=0)
        ctx.agree("probability(space, Z=random)", pr, m.call("dm_probability", *am, sp, Zr), case, atol=0)
    # effective energies of both networks, auxiliary units traced / given (all (sigma, a) combinations)
    VVn, AAn, VV, AA = T["VVn"], T["AAn"], T["VV"], T["AA"]
    E_joint, E_small = {}, {}
    for name, rb, pr in (("rbm_am", rb_am, am), ("rbm_ph", rb_ph, ph)):
        ok, ee = ctx.call(name + ".effective_energy", case, lambda: (rb.effective_energy(space), rb.effective_energy(VV, AA)))
        if ok:
            mE, mEa = m.call("p_energies", *pr, sp, VVn, AAn)
            ctx.agree(name + ".effective_energy(v)", ee[0], mE, case)
            ctx.agree(name + ".effective_energy(v, a)", ee[1], mEa, case)
            if list(ee[1].shape) == [N * len(A)]:
                E_joint[name] = ee[1].numpy().reshape(N, len(A))
            if list(ee[0].shape) == [N]:
                E_small[name] = ee[0].numpy()

    # 1-D single-element call forms
    if N <= 4:
        pairs = [(i, j) for i in range(N) for j in range(N)]
    else:
        pairs = [(0, N - 1), (N - 1, 0), (1, 1), (N // 2, 1)] + [tuple(int(t) for t in arng.integers(0, N, size=2)) for _ in range(8)]
    singles = {}
    for (i, j) in pairs:
        v1, vp1 = T["row1"][i], T["row1"][j]
        ok, o1 = ctx.call("1-D call forms", case, lambda: (
            s.rho(v1, vp1), s.rho(v1, vp1, expand=False), s.pi(v1, vp1),
            rb_am.gamma(v1, vp1, eta=+1), rb_ph.gamma(v1, vp1, eta=-1)))
        if not ok:
            continue
        r1, r1f, p1, g1p, g1m = o1
        sh_ok = list(r1.shape) == [2] and list(r1f.shape) == [2] and list(p1.shape) == [2]
        ctx.require("1-D call forms return a single complex element", sh_ok, case, [list(r1.shape), list(r1f.shape), list(p1.shape)])
        if not sh_ok:
            continue
        singles[(i, j)] = (complex(r1[0], r1[1]), complex(r1f[0], r1f[1]))
        a_ = amp[i, j]
        ctx.agree("rho 1-D element / |rho_model|", [float(r1[0]) / a_, float(r1[1]) / a_], [mR[i, j, 0] / a_, mR[i, j, 1] / a_], case, rtol=0, atol=1e-7, scale=1.0)
        ctx.agree("rho 1-D element (expand=False) / |rho_model|", [float(r1f[0]) / a_, float(r1f[1]) / a_], [mR[i, j, 0] / a_, mR[i, j, 1] / a_], case, rtol=0, atol=1e-7, scale=1.0)
        ctx.agree("pi 1-D .real", p1[0], mP[i, j, 0], case)
        ctx.agree("pi 1-D .imag mod 2pi", float(wrap_2pi(float(p1[1]) - mP[i, j, 1])), 0.0, case, rtol=0, atol=1e-8, scale=1.0)
        ctx.agree("gamma+ 1-D", g1p, m_Gp[i][j], case)
        ctx.agree("gamma- 1-D", g1m, m_Gm[i][j], case)
    ok, d1 = ctx.call("rho(v, expand=False) 1-D", case, lambda: s.rho(space[N - 1], expand=False))
    if ok:
        ctx.agree("rho(v, expand=False) 1-D diagonal shortcut", d1.numpy().ravel(), m_diag[N - 1], case, atol=0)
    i0 = int(arng.integers(0, N))
    ok, d1def = ctx.call("rho(v) 1-D, default vp", case, lambda: s.rho(T["row1"][i0]))
    d1def_ok = ok and list(d1def.shape) == [2]
    if ok:
        ctx.require("rho(v) 1-D with default vp returns a single complex element", d1def_ok, case, list(d1def.shape))
    if d1def_ok:
        ctx.agree("rho(v) 1-D, default vp / |rho_model|", [float(d1def[0]) / amp[i0, i0], float(d1def[1]) / amp[i0, i0]],
                  [mR[i0, i0, 0] / amp[i0, i0], mR[i0, i0, 1] / amp[i0, i0]], case, rtol=0, atol=1e-7, scale=1.0)

    # ---------------- property oracle on the implementation's own outputs
    prob_n = prob.numpy()
    tr = float(np.real(np.trace(Rc)))
    nrm = float(np.linalg.norm(Rc))
    herm = float(np.linalg.norm(Rc - Rc.conj().T))
    ctx.require("rho is Hermitian", herm <= 1e-9 * nrm, case, {"||rho - rho^dagger||": herm, "||rho||": nrm})
    try:
        emin = float(np.linalg.eigvalsh((Rc + Rc.conj().T) / 2).min())
    except Exception as e:       # numpy failure is not a verdict; non-finite entries are caught below
        emin = float("nan")
    ctx.require("rho is positive semidefinite", emin >= -1e-9 * abs(tr), case, {"min eigenvalue": emin, "trace": tr})
    dg = np.diagonal(Rc)
    ctx.require("diagonal of rho == probability(space)",
                bool(np.allclose(dg.real, prob_n, rtol=RT, atol=0) and np.all(np.abs(dg.imag) <= RT * np.abs(prob_n))), case,
                {"diag": [str(z) for z in dg], "probability": prob_n.tolist()})
    ctx.require("trace of rho == normalization(space)", math.isclose(tr, float(Z), rel_tol=RT), case, {"trace": tr, "Z": float(Z)})
    ctx.require("normalization(space) == sum of probability(space)", math.isclose(float(Z), float(prob_n.sum()), rel_tol=RT), case,
                {"Z": float(Z), "sum": float(prob_n.sum())})
    # probability(v, Z) divides the unnormalised probability by Z; with Z = normalization(space) it sums to one
    if okz and pzs is not None:
        pz_n, pr_n = pzs[0].numpy(), pzs[1].numpy()
        ctx.require("probability(space, Z) == probability(space) / Z",
                    bool(np.allclose(pz_n, prob_n / Zf, rtol=1e-9, atol=0) and np.allclose(pr_n, prob_n / Zr, rtol=1e-9, atol=0)
                         and math.isclose(float(pzs[2]), prob_n[N - 1] / Zr, rel_tol=1e-9)), case,
                    {"Z": Zf, "Z_random": Zr, "p(space,Z)": pz_n.tolist(), "p(space,Zr)": pr_n.tolist(), "p(space)": prob_n.tolist()})
        ctx.require("probability(space, normalization(space)) sums to one", math.isclose(float(pz_n.sum()), 1.0, rel_tol=RT), case,
                    {"sum": float(pz_n.sum())})
    # brute-force partial trace over the auxiliary units of the purified state
    Psi = np.exp(0.5 * logp + 1j * phi)                                  # (N, 2^na)
    bf = Psi @ Psi.conj().T
    sc = np.sqrt(np.outer(np.real(np.diagonal(bf)), np.real(np.diagonal(bf))))
    err = np.abs(Rc - bf)
    ctx.require("rho == partial trace over auxiliary units of the purified state", bool(np.all(err <= RT * sc)), case,
                {"worst |diff| / sqrt(rho_ii rho_jj)": float(np.max(err / sc)), "at": [int(t) for t in np.unravel_index(np.argmax(err / sc), err.shape)]})
    ctx.require("probability(space) == auxiliary-unit marginal of p_lambda(sigma, a)",
                bool(np.allclose(prob_n, np.exp(logp).sum(-1), rtol=RT, atol=0)), case,
                {"probability": prob_n.tolist(), "marginal": np.exp(logp).sum(-1).tolist()})
    # the same partial trace, with the purified state taken from the implementation's own joint energies E(sigma, a)
    if len(E_joint) == 2:
        Psi_i = np.exp(-0.5 * E_joint["rbm_am"] - 0.5j * E_joint["rbm_ph"])
        bf_i = Psi_i @ Psi_i.conj().T
        err_i = np.abs(Rc - bf_i)
        ctx.require("rho == partial trace of the state defined by effective_energy(v, a) of the two networks",
                    bool(np.all(err_i <= RT * sc)), case, {"worst |diff| / sqrt(rho_ii rho_jj)": float(np.max(err_i / sc))})
    # call forms agree with each other
    tolm = 1e-9 * sc
    ctx.require("rho(v,vp,expand=False) == entries of rho(space,space)", bool(np.all(np.abs(Rvc.reshape(N, N) - Rc) <= tolm)), case,
                {"worst": float(np.max(np.abs(Rvc.reshape(N, N) - Rc) / sc))})
    ctx.require("rho(v, expand=False) == diagonal of rho(space,space)", bool(np.all(np.abs(Rdc - dg) <= RT * np.abs(dg))), case,
                {"shortcut": [str(z) for z in Rdc], "diag": [str(z) for z in dg]})
    ctx.require("rho(space) with default vp == rho(space, space)", bool(np.all(np.abs(Rdefc - Rc) <= tolm)), case,
                {"worst": float(np.max(np.abs(Rdefc - Rc) / sc))})
    if d1def_ok:
        ctx.require("rho(v) 1-D with default vp == diagonal entry of rho(space,space)",
                    abs(complex(d1def[0], d1def[1]) - Rc[i0, i0]) <= tolm[i0, i0], case,
                    {"i": i0, "rho(v)": str(complex(d1def[0], d1def[1])), "matrix": str(Rc[i0, i0])})
    for (i, j), (z1, z1f) in singles.items():
        ctx.require("single element rho(v,vp) == entry [i][j] of rho(space,space)",
                    abs(z1 - Rc[i, j]) <= tolm[i, j] and abs(z1f - Rc[i, j]) <= tolm[i, j], case,
                    {"i": i, "j": j, "single": str(z1), "single expand=False": str(z1f), "matrix": str(Rc[i, j])})
    res = {"s": s, "T": T, "N": N, "Rc": Rc, "mRc": mRc, "amp": amp, "sc": sc, "tolm": tolm, "prob": prob_n, "Z": Zf,
           "E_small": E_small, "E_joint": E_joint, "A": A}
    matrix_forms(ctx, res, case, arng)
    batch_mutated_in_place(ctx, res, case, arng)
    if big:
        large_batches(ctx, res, case, arng)
    # last touch: the shared tensor objects are evaluated once more, (i) a repeated call must reproduce the verified values
    # and (ii) whatever a single-entry cache holds when the parameters are rewritten next is keyed on these objects
    ok, again = ctx.call("repeated evaluation", case, lambda: (
        s.rho(space, space), s.rho(V, VP, expand=False), s.rho(space, expand=False), s.rho(space), s.probability(space),
        s.normalization(space), s.pi(space, space), rb_am.gamma(space, space, eta=+1), rb_ph.gamma(space, space, eta=-1),
        rb_am.effective_energy(space), rb_ph.effective_energy(space), rb_am.effective_energy(VV, AA), rb_ph.effective_energy(VV, AA)))
    if ok:
        same = (list(again[0].shape) == [2, N, N] and bool(np.all(np.abs(cnp(again[0]) - Rc) <= tolm))
                and list(again[1].shape) == [2, N * N] and bool(np.all(np.abs(cnp(again[1]).reshape(N, N) - Rc) <= tolm))
                and list(again[2].shape) == [2, N] and bool(np.all(np.abs(cnp(again[2]) - Rdc) <= 1e-9 * np.abs(Rdc)))
                and list(again[3].shape) == [2, N, N] and bool(np.all(np.abs(cnp(again[3]) - Rc) <= tolm))
                and list(again[4].shape) == [N] and bool(np.allclose(again[4].numpy(), prob_n, rtol=1e-9, atol=0))
                and math.isclose(float(again[5]), Zf, rel_tol=1e-9))
        ctx.require("a repeated call with the same arguments returns the same rho / probability / normalization", same, case,
                    {"normalization": [float(again[5]), Zf], "probability": [again[4].numpy().tolist(), prob_n.tolist()]})
    ctx.traces += 1
    return res


# ------------------------------------------------------------------ further call forms / histories on verified values
def matrix_forms(ctx, res, case, arng):
    """Matrix form rho(v, vp) with v different from vp: two different row orders, a rectangular k x m selection
    (k != m) and the off-diagonal block, against the verified entries of rho(space, space)."""
    s, space, N, Rc, mRc, amp, tolm = res["s"], res["T"]["space"], res["N"], res["Rc"], res["mRc"], res["amp"], res["tolm"]
    p1, p2 = arng.permutation(N), arng.permutation(N)
    if np.array_equal(p1, p2):
        p2 = np.roll(p1, 1)
    k = int(arng.integers(1, N + 1))
    mm = int(arng.integers(1, N + 1))
    if mm == k:
        mm = k - 1 if k > 1 else k + 1
    h = N // 2
    forms = [("rho(space[p1], space[p2])", p1, p2), ("rho(space[p1][:k], space[p2][:m]), k != m", p1[:k], p2[:mm]),
             ("rho(space[:N/2], space[N/2:])", np.arange(h), np.arange(h, N))]
    for name, a, b in forms:
        va, vb = space[a], space[b]
        ok, val = ctx.call("matrix form " + name, case, lambda: s.rho(va, vb))
        if not ok:
            continue
        good = list(val.shape) == [2, len(a), len(b)]
        ctx.require("matrix form rho(v, vp) with v != vp has shape (2, len(v), len(vp))", good, case,
                    {"form": name, "rows": a.tolist(), "cols": b.tolist(), "shape": list(val.shape)})
        if not good:
            continue
        z, sel = cnp(val), np.ix_(a, b)
        ctx.agree("matrix form " + name + " / |rho_model|", [np.real(z / amp[sel]).tolist(), np.imag(z / amp[sel]).tolist()],
                  [np.real(mRc[sel] / amp[sel]).tolist(), np.imag(mRc[sel] / amp[sel]).tolist()], case, rtol=0, atol=1e-7, scale=1.0)
        ctx.require("matrix form rho(v, vp) with v != vp == the corresponding entries of rho(space, space)",
                    bool(np.all(np.abs(z - Rc[sel]) <= tolm[sel])), case,
                    {"form": name, "rows": a.tolist(), "cols": b.tolist(), "worst": float(np.max(np.abs(z - Rc[sel]) / res["sc"][sel]))})
        ctx.count("matrix_form_v_ne_vp")


def batch_mutated_in_place(ctx, res, case, arng):
    """The same batch tensor object is evaluated, permuted IN PLACE (once through copy_, once through .data.copy_, which
    does not advance the tensor's version counter) and evaluated again: the results must follow the new rows."""
    s, T, N, Rc, prob, Zf, tolm = res["s"], res["T"], res["N"], res["Rc"], res["prob"], res["Z"], res["tolm"]
    b = T["mutable"]
    b.copy_(T["space"])
    cur = np.arange(N)

    def calls():
        return (s.probability(b), s.rho(b, expand=False), s.rho(b, b), s.rho(b), s.normalization(b), s.rbm_am.effective_energy(b))
    ok, _ = ctx.call("evaluation on a batch tensor", case, calls)
    if not ok:
        return
    for how in ("copy_", "data.copy_"):
        perm = arng.permutation(N)
        if np.array_equal(perm, np.arange(N)):
            perm = np.roll(perm, 1)
        new_rows = T["space"][cur[perm]].clone()
        if how == "copy_":
            b.copy_(new_rows)
        else:
            b.data.copy_(new_rows)
        cur = cur[perm]
        ok, out = ctx.call("evaluation after permuting the batch tensor in place", case, calls)
        if not ok:
            return
        p, rd, rm, rdef, z, e = out
        det = {"in_place_write": how, "rows_now": cur.tolist()}
        if list(p.shape) == [N]:
            ctx.require("probability(batch) after the batch tensor was permuted in place == probability of its current rows",
                        bool(np.allclose(p.numpy(), prob[cur], rtol=1e-9, atol=0)), case, dict(det, got=p.numpy().tolist(), want=prob[cur].tolist()))
        if list(rd.shape) == [2, N]:
            ctx.require("rho(batch, expand=False) after the batch tensor was permuted in place == diagonal entries of its current rows",
                        bool(np.all(np.abs(cnp(rd) - np.diagonal(Rc)[cur]) <= RT * np.abs(np.diagonal(Rc)[cur]))), case, det)
        sel = np.ix_(cur, cur)
        for nm, val in (("rho(batch, batch)", rm), ("rho(batch)", rdef)):
            if list(val.shape) == [2, N, N]:
                ctx.require(nm + " after the batch tensor was permuted in place == entries of its current rows",
                            bool(np.all(np.abs(cnp(val) - Rc[sel]) <= tolm[sel])), case, det)
        ctx.require("normalization(batch) is unchanged by permuting the rows of the batch in place", math.isclose(float(z), Zf, rel_tol=1e-9), case,
                    dict(det, got=float(z), want=Zf))
        if "rbm_am" in res["E_small"] and list(e.shape) == [N]:
            ctx.require("effective_energy(batch) after the batch tensor was permuted in place == energies of its current rows",
                        bool(np.allclose(e.numpy(), res["E_small"]["rbm_am"][cur], rtol=1e-9, atol=1e-12)), case, det)
    ctx.count("batch_permuted_in_place")


BIG_SIZES = [65537, 70001, (1 << 17) + 3]


def large_batches(ctx, res, case, arng):
    """Batches far larger than 2^n (> 65536 rows): paired-vector rho, probability, the diagonal shortcut and the effective
    energies on random index (pairs), gathered against the verified small results."""
    import torch
    s, T, N, Rc, prob, sc = res["s"], res["T"], res["N"], res["Rc"], res["prob"], res["sc"]
    n = int(BIG_SIZES[int(arng.integers(0, len(BIG_SIZES)))])
    i, j = arng.integers(0, N, size=n), arng.integers(0, N, size=n)
    na_cfg = len(res["A"])
    kk = arng.integers(0, na_cfg, size=n)
    vi, vj = T["space"][i], T["space"][j]
    ai = torch.tensor(res["A"][kk], dtype=torch.double)
    ok, out = ctx.call("evaluation on a batch of %d rows" % n, case, lambda: (
        s.rho(vi, vj, expand=False), s.probability(vi), s.rho(vi, expand=False), s.rho(vi, vi, expand=False),
        s.rbm_am.effective_energy(vi), s.rbm_am.effective_energy(vi, ai), s.rbm_ph.effective_energy(vi, ai)))
    if not ok:
        return
    rp, p, rd, rdd, e, ea, eap = out
    det = {"rows": n}

    def bad_rows(mask):
        w = np.flatnonzero(~mask)
        return dict(det, wrong_rows=int(len(w)), first_wrong_row=int(w[0]) if len(w) else None)
    shp = (list(rp.shape) == [2, n] and list(p.shape) == [n] and list(rd.shape) == [2, n] and list(rdd.shape) == [2, n]
           and list(e.shape) == [n] and list(ea.shape) == [n] and list(eap.shape) == [n])
    ctx.require("large batch: result shapes", shp, case, dict(det, shapes=[list(x.shape) for x in out]))
    if not shp:
        return
    okm = np.abs(cnp(rp) - Rc[i, j]) <= 1e-9 * sc[i, j]
    ctx.require("large batch: rho(v, vp, expand=False) == entries of rho(space, space) row by row", bool(np.all(okm)), case, bad_rows(okm))
    okm = np.isclose(p.numpy(), prob[i], rtol=1e-9, atol=0)
    ctx.require("large batch: probability(v) == probability(space) row by row", bool(np.all(okm)), case, bad_rows(okm))
    dg = np.diagonal(Rc)[i]
    okm = np.abs(cnp(rd) - dg) <= RT * np.abs(dg)
    ctx.require("large batch: rho(v, expand=False) == diagonal of rho(space, space) row by row", bool(np.all(okm)), case, bad_rows(okm))
    okm = np.abs(cnp(rdd) - dg) <= 1e-9 * np.abs(dg)
    ctx.require("large batch: rho(v, v, expand=False) == diagonal of rho(space, space) row by row", bool(np.all(okm)), case, bad_rows(okm))
    if "rbm_am" in res["E_small"]:
        okm = np.isclose(e.numpy(), res["E_small"]["rbm_am"][i], rtol=1e-9, atol=1e-12)
        ctx.require("large batch: effective_energy(v) == effective_energy(space) row by row", bool(np.all(okm)), case, bad_rows(okm))
    for nm, val in (("rbm_am", ea), ("rbm_ph", eap)):
        if nm in res["E_joint"]:
            okm = np.isclose(val.numpy(), res["E_joint"][nm][i, kk], rtol=1e-9, atol=1e-12)
            ctx.require("large batch: effective_energy(v, a) == the small-batch values row by row", bool(np.all(okm)), case, bad_rows(okm))
    ctx.count("large_batch_rows:%d" % n)


def build(nv, nh, na, am, ph):
    from qucumber.nn_states import DensityMatrix
    s = DensityMatrix(nv, nh, na, gpu=False)
    gen.set_prbm(s.rbm_am, *am)
    gen.set_prbm(s.rbm_ph, *ph)
    return s


def log_uniform_signed(ctx, n, lo, hi):
    return np.exp(ctx.rng.uniform(np.log(lo), np.log(hi), size=n)) * ctx.rng.choice([-1.0, 1.0], size=n)


def draw_params(ctx, nv, nh, na, regime):
    """default: gen.prbm_params (biases |.| <~ 4).  large_bias: a random non-empty subset of every bias vector is
    replaced by magnitudes log-uniform in [3, 30] (the quantifier's 0..~30).  branch: phase-net U weights of
    magnitude [pi, 9] and a positive amplitude aux bias, so that |U_ph.(s-s')/2| > pi/2 and 1 + e^x cos y < 0 occur
    (atan2 outside the range of atan).  The phase net's auxiliary bias stays 0 (documented value)."""
    am = list(gen.prbm_params(ctx, nv, nh, na))
    ph = list(gen.prbm_params(ctx, nv, nh, na, phase=True))
    if regime == "large_bias":
        for vec in (am[2], am[3], am[4], ph[2], ph[3]):
            k = int(ctx.rng.integers(1, len(vec) + 1))
            idx = ctx.rng.choice(len(vec), size=k, replace=False)
            vec[idx] = log_uniform_signed(ctx, k, 3.0, 30.0)
    elif regime == "branch":
        ph[1] = ctx.rng.uniform(math.pi, 9.0, size=(na, nv)) * ctx.rng.choice([-1.0, 1.0], size=(na, nv))
        am[4] = ctx.rng.uniform(0.5, 3.0, size=na)
        am[1] = np.abs(am[1]) + 0.1
    return tuple(am), tuple(ph)


REGIMES_QUICK = ["default", "large_bias", "branch", "default", "large_bias", "branch"]
REGIMES_THOROUGH = ["default", "large_bias", "branch", "default"]


WAYS = ["data_assign", "data_copy_", "load_state_dict", "vector_to_parameters"]
PNAMES = ["weights_W", "weights_U", "visible_bias", "hidden_bias", "aux_bias"]


def write_params(rbm, pr, way):
    """(Re)write all parameters of one PurificationRBM of a live object in one of the ways a user can."""
    import torch
    named = {k: torch.tensor(np.asarray(x, dtype=float), dtype=torch.double) for k, x in zip(PNAMES, pr)}
    if way in ("init", "data_assign"):
        for k, t in named.items():
            getattr(rbm, k).data = t
    elif way == "data_copy_":
        for k, t in named.items():
            getattr(rbm, k).data.copy_(t)
    elif way == "load_state_dict":
        sd = rbm.state_dict()
        for k in sd:
            if k in named:
                sd[k] = named[k]
        rbm.load_state_dict(sd)
    elif way == "vector_to_parameters":
        vec = torch.cat([named[k].reshape(-1) for k, _ in rbm.named_parameters()])
        torch.nn.utils.vector_to_parameters(vec, rbm.parameters())
    else:
        raise ValueError(way)


def run_history(ctx, nv, nh, na, steps, big_steps=(), zero_bias=False):
    """steps: list of dicts {way, regime, am, ph[, aux_seed]}.  ONE DensityMatrix object and ONE set of batch tensors;
    after every (re)write of both networks' parameters everything is evaluated again."""
    from qucumber.nn_states import DensityMatrix
    s = DensityMatrix(nv, nh, na, gpu=False)
    T = make_tensors(nv, na)
    hist = []
    for k, st in enumerate(steps):
        am = tuple(np.asarray(x, dtype=float) for x in st["am"])
        ph = tuple(np.asarray(x, dtype=float) for x in st["ph"])
        write_params(s.rbm_am, am, st["way"])
        write_params(s.rbm_ph, ph, st["way"])
        hist.append({"way": st["way"], "regime": st.get("regime"), "am": gen.plist(*am), "ph": gen.plist(*ph)})
        case = {"regime": st.get("regime"), "nv": nv, "nh": nh, "na": na, "am": gen.plist(*am), "ph": gen.plist(*ph),
                "step": k, "rewritten_by": st["way"], "history": [dict(h) for h in hist], "big": k in big_steps}
        if "aux_seed" in st:
            case["aux_seed"] = st["aux_seed"]
        nontriv = (not zero_bias) and all(bool(np.all(x != 0)) for x in (am[2], am[3], am[4], ph[2], ph[3])) and bool(np.any(ph[1] != 0))
        desc = {"nv": nv, "nh": nh, "na": na, "step": k, "way": st["way"], "U_am00": float(am[1][0, 0]), "d_am0": float(am[4][0]),
                "U_ph00": float(ph[1][0, 0]), "b_ph0": float(ph[2][0])}
        if nontriv:
            ctx.count("all_biases_nonzero")
        ctx.count("regime:" + ("zero_bias" if zero_bias else str(st.get("regime"))))
        if k > 0:
            ctx.count("rewrite:" + st["way"])
        evaluate(ctx, s, am, ph, case, nontriv, desc, T=T, big=(k in big_steps))
        hist[-1]["aux_seed"] = case.get("aux_seed")


def one_case(ctx, nv, nh, na, zero_bias=False, regime="default", ways=(), big=False):
    """A fresh object, parameters written once (step 0), then one re-write + full re-evaluation per entry of ways."""
    if zero_bias:                                       # fresh-initialisation regime of the test-suite
        am = (gen.rand_values(ctx, (nh, nv)), gen.rand_values(ctx, (na, nv)), np.zeros(nv), np.zeros(nh), np.zeros(na))
        ph = (gen.rand_values(ctx, (nh, nv)), gen.rand_values(ctx, (na, nv)), np.zeros(nv), np.zeros(nh), np.zeros(na))
    else:
        am, ph = draw_params(ctx, nv, nh, na, regime)
    steps = [{"way": "init", "regime": regime, "am": am, "ph": ph}]
    for w in ways:
        reg = REGIMES_QUICK[int(ctx.rng.integers(0, len(REGIMES_QUICK)))]
        am2, ph2 = draw_params(ctx, nv, nh, na, reg)
        steps.append({"way": w, "regime": reg, "am": am2, "ph": ph2})
    run_history(ctx, nv, nh, na, steps, big_steps=((0, len(steps) - 1) if big else ()), zero_bias=zero_bias)


def run(ctx):
    # fixed cases that always run first: same-object histories with all four ways of rewriting the parameters and
    # batches of more than 65536 rows
    for (nv, nh, na) in [(2, 2, 2), (1, 1, 1), (3, 2, 1)]:
        ctx.torch_seed()
        one_case(ctx, nv, nh, na, ways=WAYS, big=True)
    draws = 20 if ctx.thorough else 6
    k = 0
    for (nv, nh, na) in shapes(ctx):
        for d in range(draws):
            ctx.torch_seed()
            regs = REGIMES_THOROUGH if ctx.thorough else REGIMES_QUICK
            ways = [WAYS[(k + t) % len(WAYS)] for t in range(2)] if d % 3 == 1 else ()
            one_case(ctx, nv, nh, na, regime=regs[d % len(regs)], ways=ways, big=(d % 6 == 4))
            k += 1
    one_case(ctx, 2, 2, 2, zero_bias=True)
    one_case(ctx, 3, 1, 2, zero_bias=True)


def search(ctx, broken, budget):
    """Wider oracle sweep when proof or correspondence broke: all shapes up to 3, more draws."""
    import time
    t0 = time.time()
    n0 = len(ctx.failures)
    for rnd in range(6):
        for (nv, nh, na) in [(a, b, c) for a in range(1, 4) for b in range(1, 4) for c in range(1, 4)]:
            one_case(ctx, nv, nh, na, regime=REGIMES_QUICK[rnd % len(REGIMES_QUICK)], ways=[WAYS[(rnd + nv + nh + na) % len(WAYS)]], big=(rnd == 0))
            if len(ctx.failures) > n0:
                return ctx.failures[n0]
            if time.time() - t0 > budget:
                return None
    return None


def replay(ctx, rec):
    case = rec.get("failing", {}).get("case") or {}
    if not all(k in case for k in ("nv", "nh", "na", "am", "ph")):
        print("replay record has no density-matrix case; running the generated cases")
        run(ctx)
        return
    nv, nh, na = int(case["nv"]), int(case["nh"]), int(case["na"])
    steps = case.get("history") or [{"way": "init", "regime": case.get("regime"), "am": case["am"], "ph": case["ph"]}]
    steps = [dict(st) for st in steps]
    if steps[-1].get("aux_seed") is None and "aux_seed" in case:
        steps[-1]["aux_seed"] = case["aux_seed"]
    steps = [{k: v for k, v in st.items() if not (k == "aux_seed" and v is None)} for st in steps]
    print("replay of density matrix nv=%d nh=%d na=%d, %d parameter (re)writes: %s" % (nv, nh, na, len(steps), [st["way"] for st in steps]))
    run_history(ctx, nv, nh, na, steps, big_steps=((len(steps) - 1,) if case.get("big") else ()))
    for f in ctx.failures[:5]:
        print("FAILS:", f["what"], f["detail"][:300])
