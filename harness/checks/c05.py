"""C05 — Gibbs sampling targets exactly the distribution the model reports.

(a) public conditional-probability methods of BinaryRBM / PurificationRBM (batched and 1-D) vs the Coq model
    (Rbm.b_prob_*, p_prob_*) and vs an independent oracle: the conditionals of the joint Boltzmann weight
    exp(b.v + c.h (+ d.a) + h W v (+ a U v)) computed by brute-force enumeration in numpy, whose visible
    marginal must be the implementation's own `probability(space)`.
(b) the one-step kernel assembled in numpy from the IMPLEMENTATION's conditionals: detailed balance with the
    implementation's `probability(space)`, rows sum to 1, pi K = pi; vs the model kernel (Gibbs.b_kernel /
    p_kernel) and its powers (Gibbs.kpow); on tiny sizes also the model's enumerated sampler law vs kpow.
(c) `torch.bernoulli` wrapped in this process during `nn_state.sample` / `rbm.gibbs_steps`: the probability
    tensors it receives must be the exact conditionals (brute-force tables) of the states produced by the
    previous draws, order h,(a),v, exactly k steps; results 0/1 of shape (num_samples, nv); k = 0 returns the
    start state; overwrite contract by storage identity; chains continued across calls; the recorded run is
    replayed through the model's deterministic sampler (Gibbs.b_gibbs_steps / p_gibbs_steps) and storage
    model (Gibbs.gibbs_call).
(d) thorough tier (and the failing-input search): STATISTICAL TEST — empirical law of sample(k=1,2,
    initial_state) over 2e5 chains vs kernel^k with a Hoeffding bound at delta = 1e-9 per cell."""
import itertools, math, time
import numpy as np
import gen

RULE = ("state types positive / complex / density; shapes nv,nh in 1..4, na in 1..3 (quick: covering subset incl. "
        "nh != nv, na != nh, size-1 dims; thorough: all 16 binary shapes x 2 types and all 48 purification shapes); "
        "parameters from the mixture in harness/gen.py with every bias non-zero; all 2^nv visible, 2^nh hidden, 2^na "
        "auxiliary configurations enumerated; sampling scenarios k in 0..3 x overwrite in {False,True} x continued "
        "calls x gibbs_steps / sample(with and without initial_state); a case is (state type, shape, parameter draw); "
        "non-trivial := all biases non-zero and the kernel has no row equal to another (the chain depends on its state)")
ASSUMPTIONS = ["torch.bernoulli(p) returns independent 0/1 draws with P(1) = p per entry (trusted; the thorough tier adds a "
               "Hoeffding-bounded statistical test of the end-to-end law, labelled as a test)",
               "torch matmul/sigmoid implement the real functions up to rounding (tolerance 1e-9 relative)",
               "initial_state tensors are CPU double tensors (the documented exception for device/dtype moves is not exercised)"]

HOEFFDING_DELTA = 1e-9


# ----------------------------------------------------------------------------- helpers
def bitsarr(n):
    return np.array(list(itertools.product([0.0, 1.0], repeat=n)), dtype=float).reshape(2 ** n, n)


def idx_of(rows):
    rows = np.atleast_2d(np.asarray(rows))
    n = rows.shape[1]
    if n == 0:
        return np.zeros(rows.shape[0], dtype=int)
    p = 2 ** np.arange(n - 1, -1, -1)
    return (rows.astype(int) @ p).astype(int)


def bern_matrix(P, B):
    """M[i, j] = prod_u (P[i,u] if B[j,u] else 1 - P[i,u])"""
    P = np.asarray(P, dtype=float); B = np.asarray(B, dtype=float)
    out = np.ones((P.shape[0], B.shape[0]))
    for u in range(P.shape[1]):
        out = out * np.where(B[None, :, u] > 0.5, P[:, None, u], 1.0 - P[:, None, u])
    return out


def tnp(t):
    return t.detach().cpu().numpy().astype(float)


class Net:
    """A state under test with its parameters (numpy) and brute-force reference tables."""

    def __init__(self, kind, nv, nh, na, params, ph_params=None):
        import torch
        from qucumber.nn_states import PositiveWaveFunction, ComplexWaveFunction, DensityMatrix
        self.kind, self.nv, self.nh, self.na = kind, nv, nh, na
        self.params = [np.asarray(p, dtype=float) for p in params]
        self.purif = (kind == "density")
        if kind == "positive":
            self.state = PositiveWaveFunction(nv, nh, gpu=False)
            gen.set_brbm(self.state.rbm_am, *self.params)
        elif kind == "complex":
            self.state = ComplexWaveFunction(nv, nh, gpu=False)
            gen.set_brbm(self.state.rbm_am, *self.params)
            if ph_params is not None:
                gen.set_brbm(self.state.rbm_ph, *[np.asarray(p, dtype=float) for p in ph_params])
        else:
            self.state = DensityMatrix(nv, nh, na, gpu=False)
            gen.set_prbm(self.state.rbm_am, *self.params)
            if ph_params is not None:
                gen.set_prbm(self.state.rbm_ph, *[np.asarray(p, dtype=float) for p in ph_params])
        self.rbm = self.state.rbm_am
        self.V, self.H = bitsarr(nv), bitsarr(nh)
        self.A = bitsarr(na) if self.purif else np.zeros((1, 0))
        self.per = 3 if self.purif else 2
        self._tables()

    def case(self, **extra):
        c = {"state": self.kind, "nv": self.nv, "nh": self.nh, "na": self.na if self.purif else 0,
             "params": [p.tolist() for p in self.params]}
        c.update(extra)
        return c

    def _tables(self):
        """joint Boltzmann weight and its exact conditionals by enumeration (independent of the code under test)"""
        V, H, A = self.V, self.H, self.A
        if self.purif:
            W, U, b, c, d = self.params
            logJ = ((V @ b)[:, None, None] + (H @ c)[None, :, None] + (A @ d)[None, None, :]
                    + (H @ W @ V.T).T[:, :, None] + (A @ U @ V.T).T[:, None, :])
        else:
            W, b, c = self.params
            logJ = ((V @ b)[:, None] + (H @ c)[None, :] + (H @ W @ V.T).T)[:, :, None]
        self.logJ = logJ
        m = logJ.max()
        J = np.exp(logJ - m)
        self.log_marg_v = np.log(J.sum(axis=(1, 2))) + m                 # log sum_{h,a} J
        Jv = J / J.sum(axis=(1, 2), keepdims=True)                       # P(h,a | v)
        self.PH = np.stack([(Jv * H[None, :, i, None]).sum(axis=(1, 2)) for i in range(self.nh)], axis=1)
        if self.purif:
            self.PA = np.stack([(Jv * A[None, None, :, i]).sum(axis=(1, 2)) for i in range(self.na)], axis=1)
        Jha = J / J.sum(axis=0, keepdims=True)                           # P(v | h,a)
        pv = np.stack([(Jha * V[:, j, None, None]).sum(axis=0) for j in range(self.nv)], axis=-1)  # (nH, nA, nv)
        self.PV = pv                                                      # index [h, a, :]
        B1 = np.einsum("vha->vha", Jv)
        # exact kernel from the joint:  K[s,s'] = sum_{h,a} P(h,a|s) P(s'|h,a), P(s'|h,a) = prod_j bern
        PVflat = pv.reshape(-1, self.nv)
        B2 = bern_matrix(PVflat, V)                                       # ((h,a), s')
        self.K_exact = B1.reshape(len(V), -1) @ B2

    def exp_ph(self, v_rows):
        return self.PH[idx_of(v_rows)]

    def exp_pa(self, v_rows):
        return self.PA[idx_of(v_rows)]

    def exp_pv(self, h_rows, a_rows=None):
        ai = idx_of(a_rows) if self.purif else np.zeros(len(np.atleast_2d(h_rows)), dtype=int)
        return self.PV[idx_of(h_rows), ai]


def draw_net(ctx, kind, nv, nh, na):
    if kind == "density":
        params = gen.prbm_params(ctx, nv, nh, na)
        php = gen.prbm_params(ctx, nv, nh, na, phase=True)
    else:
        params = gen.brbm_params(ctx, nv, nh)
        php = gen.brbm_params(ctx, nv, nh) if kind == "complex" else None
    return Net(kind, nv, nh, na, params, php)


def close_rel(a, b, rtol=1e-9, atol=1e-12):
    a = np.asarray(a, dtype=float); b = np.asarray(b, dtype=float)
    if a.shape != b.shape:
        return False
    return bool(np.all(np.abs(a - b) <= rtol * np.maximum(np.abs(a), np.abs(b)) + atol))


# ----------------------------------------------------------------------------- (a) conditionals
def check_conditionals(ctx, net):
    import torch
    m = ctx.get_model()
    rbm, case = net.rbm, net.case(part="conditionals")
    V, H, A = net.V, net.H, net.A
    tV, tH = torch.tensor(V, dtype=torch.double), torch.tensor(H, dtype=torch.double)
    if net.purif:
        tA = torch.tensor(A, dtype=torch.double)
        HH = np.repeat(H, len(A), axis=0); AA = np.tile(A, (len(H), 1))       # h-major pairs
        ok, out = ctx.call("conditional-probability methods (batched)", case, lambda: (
            tnp(rbm.prob_h_given_v(tV.clone())), tnp(rbm.prob_a_given_v(tV.clone())),
            tnp(rbm.prob_v_given_ha(torch.tensor(HH, dtype=torch.double), torch.tensor(AA, dtype=torch.double)))))
        if not ok:
            return False
        ph, pa, pv = out
        mph, mpa, mpv = m.call("c05_p_conds", *net.params, V, H, A)
        ctx.agree("prob_h_given_v", ph, mph, case)
        ctx.agree("prob_a_given_v", pa, mpa, case)
        ctx.agree("prob_v_given_ha", pv, mpv, case)
        good = ctx.require("prob_h_given_v is the exact conditional P(h|v)", close_rel(ph, net.PH), case,
                           {"impl": ph.tolist(), "exact": net.PH.tolist()})
        good &= ctx.require("prob_a_given_v is the exact conditional P(a|v)", close_rel(pa, net.PA), case,
                            {"impl": pa.tolist(), "exact": net.PA.tolist()})
        good &= ctx.require("prob_v_given_ha is the exact conditional P(v|h,a)",
                            close_rel(pv, net.PV.reshape(-1, net.nv)), case,
                            {"impl": pv.tolist(), "exact": net.PV.reshape(-1, net.nv).tolist()})
        # 1-D call forms
        for i in sorted({0, len(V) - 1, int(ctx.rng.integers(len(V)))}):
            ok, o = ctx.call("conditional-probability methods (1-D)", case,
                             lambda: (tnp(rbm.prob_h_given_v(tV[i].clone())), tnp(rbm.prob_a_given_v(tV[i].clone()))))
            if ok:
                ctx.agree("prob_h_given_v 1-D", o[0], mph[i], case)
                ctx.agree("prob_a_given_v 1-D", o[1], mpa[i], case)
                good &= ctx.require("prob_h_given_v 1-D form has shape (nh,) and equals the batched row",
                                    o[0].shape == (net.nh,) and close_rel(o[0], ph[i]), case)
                good &= ctx.require("prob_a_given_v 1-D form has shape (na,) and equals the batched row",
                                    o[1].shape == (net.na,) and close_rel(o[1], pa[i]), case)
        for j in sorted({0, len(HH) - 1, int(ctx.rng.integers(len(HH)))}):
            ok, o = ctx.call("prob_v_given_ha (1-D)", case, lambda: tnp(rbm.prob_v_given_ha(
                torch.tensor(HH[j], dtype=torch.double), torch.tensor(AA[j], dtype=torch.double))))
            if ok:
                ctx.agree("prob_v_given_ha 1-D", o, mpv[j], case)
                good &= ctx.require("prob_v_given_ha 1-D form has shape (nv,) and equals the batched row",
                                    o.shape == (net.nv,) and close_rel(o, pv[j]), case)
        net.impl_conds = (ph, pa, pv)
    else:
        ok, out = ctx.call("conditional-probability methods (batched)", case, lambda: (
            tnp(rbm.prob_h_given_v(tV.clone())), tnp(rbm.prob_v_given_h(tH.clone()))))
        if not ok:
            return False
        ph, pv = out
        mph, mpv = m.call("c05_b_conds", *net.params, V, H)
        ctx.agree("prob_h_given_v", ph, mph, case)
        ctx.agree("prob_v_given_h", pv, mpv, case)
        good = ctx.require("prob_h_given_v is the exact conditional P(h|v)", close_rel(ph, net.PH), case,
                           {"impl": ph.tolist(), "exact": net.PH.tolist()})
        good &= ctx.require("prob_v_given_h is the exact conditional P(v|h)", close_rel(pv, net.PV[:, 0, :]), case,
                            {"impl": pv.tolist(), "exact": net.PV[:, 0, :].tolist()})
        for i in sorted({0, len(V) - 1, int(ctx.rng.integers(len(V)))}):
            ok, o = ctx.call("prob_h_given_v (1-D)", case, lambda: tnp(rbm.prob_h_given_v(tV[i].clone())))
            if ok:
                ctx.agree("prob_h_given_v 1-D", o, mph[i], case)
                good &= ctx.require("prob_h_given_v 1-D form has shape (nh,) and equals the batched row",
                                    o.shape == (net.nh,) and close_rel(o, ph[i]), case)
        for j in sorted({0, len(H) - 1, int(ctx.rng.integers(len(H)))}):
            ok, o = ctx.call("prob_v_given_h (1-D)", case, lambda: tnp(rbm.prob_v_given_h(tH[j].clone())))
            if ok:
                ctx.agree("prob_v_given_h 1-D", o, mpv[j], case)
                good &= ctx.require("prob_v_given_h 1-D form has shape (nv,) and equals the batched row",
                                    o.shape == (net.nv,) and close_rel(o, pv[j]), case)
        net.impl_conds = (ph, None, pv)
    return good


# ----------------------------------------------------------------------------- (b) kernel
def impl_kernel(net):
    ph, pa, pv = net.impl_conds
    B1 = bern_matrix(ph, net.H)                                  # (s, h)
    B2 = bern_matrix(pv, net.V)                                  # (h or (h,a), s')
    if net.purif:
        B1a = bern_matrix(pa, net.A)                             # (s, a)
        B12 = (B1[:, :, None] * B1a[:, None, :]).reshape(len(net.V), -1)
        return B12 @ B2
    return B1 @ B2


def check_kernel(ctx, net):
    import torch
    m = ctx.get_model()
    case = net.case(part="kernel")
    nv = net.nv
    ok, prob = ctx.call("probability(space)", case, lambda: tnp(net.state.probability(net.state.generate_hilbert_space())))
    if not ok:
        return
    ok, prob1 = ctx.call("probability(v) 1-D", case, lambda: float(net.state.probability(torch.tensor(net.V[-1], dtype=torch.double))))
    K = impl_kernel(net)
    net.K_impl, net.pi = K, prob
    # the reported distribution is the visible marginal of the joint the conditionals belong to
    ctx.require("probability(space) is the visible marginal of the joint Boltzmann weight",
                close_rel(np.log(prob), net.log_marg_v, rtol=1e-9, atol=1e-9), case,
                {"log probability": np.log(prob).tolist(), "log marginal": net.log_marg_v.tolist()})
    if ok:
        ctx.require("probability 1-D form equals the batched entry", math.isclose(prob1, prob[-1], rel_tol=1e-9), case)
    F = prob[:, None] * K
    scale = float(np.max(F))
    db = np.abs(F - F.T) <= 1e-9 * np.maximum(np.abs(F), np.abs(F.T)) + 1e-12 * scale
    i, j = np.unravel_index(np.argmin(db), db.shape)
    ctx.require("detailed balance: probability(s) K(s,s') == probability(s') K(s',s)", bool(db.all()), case,
                {"s": net.V[i].tolist(), "s'": net.V[j].tolist(), "lhs": float(F[i, j]), "rhs": float(F[j, i])})
    rows = K.sum(axis=1)
    ctx.require("kernel rows sum to 1 and entries are >= 0", bool(np.allclose(rows, 1.0, rtol=0, atol=1e-9) and (K >= 0).all()),
                case, {"row sums": rows.tolist()})
    piK = prob @ K
    ctx.require("invariance: sum_s probability(s) K(s,s') == probability(s')",
                bool(np.all(np.abs(piK - prob) <= 1e-9 * np.abs(prob) + 1e-12 * prob.max())), case,
                {"pi K": piK.tolist(), "pi": prob.tolist()})
    ctx.require("kernel assembled from the implementation's conditionals is the exact block-Gibbs kernel",
                bool(np.allclose(K, net.K_exact, rtol=1e-9, atol=1e-12)), case,
                {"impl": K.tolist(), "exact": net.K_exact.tolist()})
    # ---- correspondence with the Coq model
    fn = "c05_p_" if net.purif else "c05_b_"
    mK = m.call(fn + "kernel", *net.params, nv)
    ctx.agree("one-step kernel", K, mK, case)
    if net.purif:
        mE = m.call("c05_p_eff_energy", *net.params, net.V)
    else:
        mE = m.call("b_eff_energy", *net.params, net.V)
    ctx.agree("log probability", np.log(prob), [-e for e in mE], case, rtol=1e-9, atol=1e-9)
    latent = net.nh + (net.na if net.purif else 0)
    ks = [2] if 4 * nv + latent <= 17 else []          # cost of the model's recursive kpow: 2^((k+2) nv + latent)
    if 5 * nv + latent <= 15:
        ks.append(3)
    for k in ks:
        mKk = m.call(fn + "kpow", *net.params, nv, k)
        ctx.agree("k-step kernel (k=%d)" % k, np.linalg.matrix_power(K, k), mKk, case)
        Kk = np.linalg.matrix_power(K, k)
        ctx.require("k-step invariance: probability K^k == probability",
                    bool(np.all(np.abs(prob @ Kk - prob) <= 1e-9 * np.abs(prob) + 1e-12 * prob.max())), case, {"k": k})
    mK0 = m.call(fn + "kpow", *net.params, nv, 0)
    ctx.agree_exact("k = 0 kernel is the identity", [[float(x) for x in r] for r in mK0], np.eye(2 ** nv).tolist(), case)
    # model-internal: enumerated law of the deterministic sampler == kpow (validates extraction of the theorem's objects)
    for k in (1, 2):
        if k * (nv + latent) <= 9:
            law = m.call(fn + "law", *net.params, nv, k)
            ctx.agree("model sampler law vs kernel power (k=%d)" % k, np.linalg.matrix_power(np.array(mK), k), law, case)
    ctx.count("kernel_checked")
    distinct_rows = len({tuple(np.round(r, 12)) for r in K}) == len(K) or nv == 0
    return distinct_rows


# ----------------------------------------------------------------------------- (c) sampler trace
class BernoulliSpy:
    """Records the probability tensor given to, and the draw returned by, every torch.bernoulli call."""

    def __init__(self):
        self.calls = []

    def __enter__(self):
        import torch
        self.torch = torch
        self.orig = torch.bernoulli
        spy = self

        def wrapped(inp, *a, **k):
            p = inp.detach().clone()
            out = spy.orig(inp, *a, **k)
            spy.calls.append({"p": p.numpy().astype(float), "out": out.detach().clone().numpy().astype(float),
                              "out_kw": k.get("out") is not None})
            return out
        torch.bernoulli = wrapped
        return self

    def __exit__(self, *exc):
        self.torch.bernoulli = self.orig
        return False


def is01(x):
    return bool(np.all((x == 0.0) | (x == 1.0)))


def verify_run(ctx, net, case, calls, v_start, result, k, what):
    """The recorded torch.bernoulli calls of one k-step run must be: per step P(h|v), [P(a|v)], P(v|h[,a]) of the
    states produced by the previous draws; the result is the last visible draw (the start state if k = 0)."""
    per = net.per
    N = v_start.shape[0]
    good = True
    if len(calls) != per * k:
        if (len(calls) == per * k + 1 and calls[0]["p"].shape[-1:] == (net.nv,) and bool(np.all(calls[0]["p"] == 0.5))
                and "num_samples" not in what):
            ctx.require(what + ": the chain starts from the given initial_state (a fresh random start state was drawn instead)",
                        False, case, "first torch.bernoulli call had p = 0.5 everywhere")
            return False
        if len(calls) < per * k:
            # fewer torch.bernoulli calls than draws of a k-step run: (some) draws are made by other means, so they
            # cannot be tied to their conditionals one by one.  This breaks the correspondence (not yet the property):
            # the net falls back to the end-to-end statistical test of the k-step law, which yields the failing input
            # if the law is wrong; otherwise the verdict names this correspondence (no-failing-input-found).
            if not getattr(net, "unobserved", False):
                ctx.disagreements.append({"what": what + ": torch.bernoulli call sequence differs from the model's draw order "
                                                  "(observation point missing)", "case": case,
                                          "detail": "expected %d draws, observed %d" % (per * k, len(calls))})
            net.unobserved = True
            ctx.count("bernoulli_not_observed")
            ctx.require(what + ": result has shape (num_samples, nv) with 0/1 entries",
                        result.shape == (N, net.nv) and is01(result), case, {"shape": list(result.shape)})
            return False
        ctx.require(what + ": exactly k block-Gibbs steps (h,%sv draws per step)" % ("a," if net.purif else ""),
                    False, case, "expected %d torch.bernoulli draws, observed %d" % (per * k, len(calls)))
        return False
    cur = v_start
    for t in range(k):
        c = calls[per * t: per * (t + 1)]
        exp_h = net.exp_ph(cur)
        good &= ctx.require(what + ": hidden units drawn from the exact conditional of the current visible state",
                            c[0]["p"].shape == exp_h.shape and close_rel(c[0]["p"], exp_h), case,
                            {"step": t, "requested": c[0]["p"].tolist(), "exact": exp_h.tolist(), "visible": cur.tolist()})
        h = c[0]["out"]
        good &= ctx.require(what + ": hidden draw is a 0/1 array of shape (N, nh)", h.shape == (N, net.nh) and is01(h), case)
        if not good:
            return False
        a = None
        if net.purif:
            exp_a = net.exp_pa(cur)
            good &= ctx.require(what + ": auxiliary units drawn from the exact conditional of the current visible state",
                                c[1]["p"].shape == exp_a.shape and close_rel(c[1]["p"], exp_a), case,
                                {"step": t, "requested": c[1]["p"].tolist(), "exact": exp_a.tolist(), "visible": cur.tolist()})
            a = c[1]["out"]
            good &= ctx.require(what + ": auxiliary draw is a 0/1 array of shape (N, na)", a.shape == (N, net.na) and is01(a), case)
            if not good:
                return False
        exp_v = net.exp_pv(h, a)
        good &= ctx.require(what + ": visible units drawn from the exact conditional of this step's hidden%s draws"
                            % (" and auxiliary" if net.purif else ""),
                            c[-1]["p"].shape == exp_v.shape and close_rel(c[-1]["p"], exp_v), case,
                            {"step": t, "requested": c[-1]["p"].tolist(), "exact": exp_v.tolist(), "hidden": h.tolist(),
                             "aux": None if a is None else a.tolist()})
        cur = c[-1]["out"]
        good &= ctx.require(what + ": visible draw is a 0/1 array of shape (N, nv)", cur.shape == (N, net.nv) and is01(cur), case)
        if not good:
            return False
    good &= ctx.require(what + ": result has shape (num_samples, nv) with 0/1 entries",
                        result.shape == (N, net.nv) and is01(result), case, {"shape": list(result.shape)})
    good &= ctx.require(what + (": result is the last visible draw" if k > 0 else ": k = 0 returns the start state"),
                        result.shape == cur.shape and bool(np.array_equal(result, cur)), case,
                        {"result": result.tolist(), "expected": cur.tolist()})
    return good


def model_replay(ctx, net, case, calls, v_start, result, k, overwrite, same_storage, v_after):
    """Replay the recorded draws through the model's deterministic sampler and storage model (per chain)."""
    m = ctx.get_model()
    fn = "c05_p_gibbs" if net.purif else "c05_b_gibbs"
    for i in range(min(v_start.shape[0], 3)):
        draws = [c["out"][i].tolist() for c in calls]
        fin, reqs = m.call(fn, *net.params, k, v_start[i].tolist(), draws)
        ctx.agree_exact("sampler: number of requested probability vectors", len(calls), len(reqs), case)
        for j, (c, rq) in enumerate(zip(calls, reqs)):
            ctx.agree("sampler: probability vector requested for draw %d" % j, c["p"][i], rq, case, rtol=1e-9, atol=1e-12)
        ctx.agree_exact("sampler: final state", [float(x) for x in result[i]], [float(x) for x in fin], case)
        hp, ret = m.call("c05_call", net.per - 1, overwrite, k, [v_start[i].tolist()], 0, draws)
        ctx.agree_exact("storage: returned tensor is the caller's tensor", bool(same_storage), int(ret) == 0, case)
        ctx.agree_exact("storage: caller's tensor after the call", [float(x) for x in v_after[i]], [float(x) for x in hp[0]], case)
        ctx.agree_exact("storage: returned tensor content", [float(x) for x in result[i]], [float(x) for x in hp[int(ret)]], case)
    ctx.traces += 1


def one_run(ctx, net, k, overwrite, v0, via, seed):
    """One call of sample / gibbs_steps with a given start tensor; all checks of part (c). Returns the result tensor."""
    import torch
    case = net.case(part="sampler", k=k, overwrite=overwrite, via=via, torch_seed=seed,
                    initial_state=tnp(v0).tolist())
    what = "%s(k=%d, overwrite=%s)" % (via, k, overwrite)
    before = v0.detach().clone()
    ptr = v0.data_ptr()
    torch.manual_seed(seed)
    with BernoulliSpy() as spy:
        if via == "sample":
            ok, res = ctx.call(what, case, lambda: net.state.sample(k, initial_state=v0, overwrite=overwrite))
        else:
            ok, res = ctx.call(what, case, lambda: net.rbm.gibbs_steps(k, v0, overwrite=overwrite))
    if not ok:
        return None
    if not ctx.require(what + ": returns a tensor", isinstance(res, torch.Tensor), case, type(res).__name__):
        return None
    result = tnp(res)
    good = verify_run(ctx, net, case, spy.calls, tnp(before), result, k, what)
    if getattr(net, "unobserved", False):
        good = True                      # storage contract is still checked below
    same = (res.data_ptr() == ptr)
    if overwrite:
        good &= ctx.require(what + ": overwrite=True returns the caller's tensor (same storage)", same, case)
        good &= ctx.require(what + ": overwrite=True updates the caller's tensor in place",
                            bool(torch.equal(v0, res)), case, {"caller": tnp(v0).tolist(), "result": result.tolist()})
    else:
        good &= ctx.require(what + ": overwrite=False leaves the caller's tensor unchanged", bool(torch.equal(v0, before)), case,
                            {"before": tnp(before).tolist(), "after": tnp(v0).tolist()})
        good &= ctx.require(what + ": overwrite=False returns different storage", not same, case)
    if good and len(spy.calls) == net.per * k:
        model_replay(ctx, net, case, spy.calls, tnp(before), result, k, overwrite, same, tnp(v0))
    ctx.count("run:%s:k=%d:ow=%s" % (via, k, overwrite))
    return res


def check_sampler(ctx, net, ks=(0, 1, 2, 3)):
    import torch
    rng = ctx.rng
    N = 3
    for k in ks:
        for overwrite in (False, True):
            rows = net.V[rng.integers(len(net.V), size=N)]
            v0 = torch.tensor(rows, dtype=torch.double)
            via = "sample" if (k + int(overwrite)) % 2 == 0 or net.kind != "positive" else "gibbs_steps"
            r1 = one_run(ctx, net, k, overwrite, v0, via, ctx.torch_seed())
            if r1 is None:
                continue
            # chain continued across calls: the second call starts from the first call's result
            if k in (1, 2):
                k2 = int(rng.integers(1, 3))
                one_run(ctx, net, k2, overwrite, r1, "sample", ctx.torch_seed())
    # gibbs_steps called directly on the RBM, all start states at once
    v0 = torch.tensor(net.V, dtype=torch.double)
    one_run(ctx, net, 1, False, v0, "gibbs_steps", ctx.torch_seed())
    # sample(k, num_samples) without initial_state
    for k, n in ((0, 4), (2, 5)):
        case = net.case(part="sampler", k=k, num_samples=n, via="sample(num_samples)")
        what = "sample(k=%d, num_samples=%d)" % (k, n)
        seed = ctx.torch_seed()
        with BernoulliSpy() as spy:
            ok, res = ctx.call(what, case, lambda: net.state.sample(k, n))
        if not ok:
            continue
        result = tnp(res)
        ctx.require(what + ": result has shape (num_samples, nv) with 0/1 entries",
                    result.shape == (n, net.nv) and is01(result), case, {"shape": list(result.shape)})
        calls = spy.calls
        if len(calls) == net.per * k + 1:
            init = calls[0]
            ctx.require(what + ": uniform random start state of shape (num_samples, nv)",
                        init["p"].shape == (n, net.nv) and bool(np.all(init["p"] == 0.5)), case, init["p"].tolist())
            if init["out"].shape == (n, net.nv):
                if verify_run(ctx, net, case, calls[1:], init["out"], result, k, what):
                    ctx.traces += 1
        elif len(calls) == net.per * k:
            # start state drawn by other means than torch.bernoulli: nothing to tie the first hidden draw to
            ctx.count("start_state_not_observed")
        elif getattr(net, "unobserved", False) and len(calls) < net.per * k + 1:
            ctx.count("bernoulli_not_observed")
        else:
            ctx.require(what + ": exactly k block-Gibbs steps after the start state is drawn", False, case,
                        "observed %d torch.bernoulli draws, expected %d" % (len(calls), net.per * k + 1))


# ----------------------------------------------------------------------------- (d) statistical test
def check_statistical(ctx, net, n_chains=200000):
    import torch
    if not hasattr(net, "K_impl"):
        return
    eps = math.sqrt(math.log(2.0 / HOEFFDING_DELTA) / (2.0 * n_chains))
    for k in (1, 2):
        s0 = int(ctx.rng.integers(len(net.V)))
        seed = ctx.torch_seed()
        case = net.case(part="statistical test", k=k, start=net.V[s0].tolist(), torch_seed=seed, chains=n_chains)
        v0 = torch.tensor(np.repeat(net.V[s0:s0 + 1], n_chains, axis=0), dtype=torch.double)
        ok, res = ctx.call("sample for the statistical test", case, lambda: net.state.sample(k, initial_state=v0))
        if not ok:
            continue
        r = tnp(res)
        if r.shape != (n_chains, net.nv) or not is01(r):
            ctx.require("statistical test: samples are 0/1 of shape (chains, nv)", False, case, list(r.shape))
            continue
        freq = np.bincount(idx_of(r), minlength=len(net.V)) / float(n_chains)
        law = np.linalg.matrix_power(net.K_exact, k)[s0]
        dev = float(np.max(np.abs(freq - law)))
        ctx.require("STATISTICAL TEST (Hoeffding, delta=1e-9 per cell): empirical law of sample(k, initial_state) == kernel^k",
                    dev <= eps, case, {"empirical": freq.tolist(), "kernel^k row": law.tolist(), "max deviation": dev, "bound": eps})
        ctx.count("statistical_cells", len(net.V))
        ctx.extra.setdefault("statistical_test", []).append(
            {"state": net.kind, "nv": net.nv, "k": k, "chains": n_chains, "max_deviation": dev, "hoeffding_bound": eps})


# ----------------------------------------------------------------------------- driver
def check_net(ctx, net, statistical=False):
    E = -net.log_marg_v
    if np.max(-E) > 600 or not np.all(np.isfinite(net.logJ)):
        ctx.count("skipped_overflow")
        return
    biases = net.params[2:] if net.purif else net.params[1:]
    all_nonzero = all(bool(np.all(p != 0)) for p in biases)
    ctx.count("state:" + net.kind)
    ctx.count("shape:%dx%d%s" % (net.nv, net.nh, ("x%d" % net.na) if net.purif else ""))
    if check_conditionals(ctx, net):
        pass
    distinct = False
    if hasattr(net, "impl_conds"):
        distinct = bool(check_kernel(ctx, net))
    check_sampler(ctx, net)
    if statistical or getattr(net, "unobserved", False):
        check_statistical(ctx, net)
        if getattr(net, "unobserved", False):
            ctx.extra["note_bernoulli"] = ("torch.bernoulli was not observed during sampling; the per-draw conditional check "
                                           "was replaced by the statistical test of the k-step law for those nets")
    ctx.case({"state": net.kind, "nv": net.nv, "nh": net.nh, "na": net.na if net.purif else 0,
              "p00": float(net.params[0][0, 0]), "b0": float(biases[0][0])}, nontrivial=all_nonzero and distinct)


def shapes(ctx):
    if ctx.thorough:
        b = [(nv, nh, 0) for nv in range(1, 5) for nh in range(1, 5)]
        p = [(nv, nh, na) for nv in range(1, 5) for nh in range(1, 5) for na in range(1, 4)]
    else:
        b = [(1, 1, 0), (1, 3, 0), (2, 1, 0), (2, 3, 0), (3, 2, 0), (3, 4, 0), (4, 4, 0), (4, 2, 0)]
        p = [(1, 1, 1), (2, 1, 2), (2, 3, 1), (3, 2, 3), (3, 4, 2), (4, 4, 3), (4, 1, 1), (1, 2, 3)]
    return b, p


def run(ctx):
    bsh, psh = shapes(ctx)
    draws = 10 if ctx.thorough else 2
    for (nv, nh, _) in bsh:
        for kind in ("positive", "complex"):
            for d in range(draws if kind == "positive" else draws // 2):
                ctx.torch_seed()
                check_net(ctx, draw_net(ctx, kind, nv, nh, 0))
    for (nv, nh, na) in psh:
        for d in range(2 if not ctx.thorough else 6):
            ctx.torch_seed()
            check_net(ctx, draw_net(ctx, "density", nv, nh, na))
    if ctx.thorough:
        for kind, nv, nh, na in (("positive", 2, 3, 0), ("positive", 3, 2, 0), ("complex", 3, 3, 0),
                                 ("density", 2, 2, 1), ("density", 3, 2, 2)):
            net = draw_net(ctx, kind, nv, nh, na)
            check_net(ctx, net, statistical=True)


def search(ctx, broken, budget):
    """Wider oracle sweep (all small shapes, more draws, plus the statistical test) when proof or correspondence broke."""
    t0 = time.time()
    n0 = len(ctx.failures)
    combos = [("positive", nv, nh, 0) for nv in range(1, 4) for nh in range(1, 4)] + \
             [("density", nv, nh, na) for nv in range(1, 4) for nh in range(1, 3) for na in range(1, 3)] + \
             [("complex", 2, 2, 0)]
    for i, (kind, nv, nh, na) in enumerate(combos):
        check_net(ctx, draw_net(ctx, kind, nv, nh, na), statistical=(nv in (2, 3) and i % 3 == 0))
        if len(ctx.failures) > n0:
            return ctx.failures[n0]
        if time.time() - t0 > budget:
            return None
    return None


def replay(ctx, rec):
    case = rec.get("failing", {}).get("case", {}) or {}
    kind = case.get("state")
    if kind is None:
        print("replay: no case recorded; running the generated cases")
        return run(ctx)
    print("replay of", kind, case.get("nv"), case.get("nh"), case.get("na"), case.get("part"))
    net = Net(kind, case["nv"], case["nh"], case.get("na", 0), case["params"])
    check_net(ctx, net, statistical=(case.get("part") == "statistical test"))
