"""C05 — Gibbs sampling targets exactly the distribution the model reports.

(a) public conditional-probability methods of BinaryRBM / PurificationRBM (batched and 1-D) vs the Coq model
    (Rbm.b_prob_*, p_prob_*) and vs an independent oracle: the conditionals of the joint Boltzmann weight
    exp(b.v + c.h (+ d.a) + h W v (+ a U v)) computed by brute-force enumeration in numpy, whose visible
    marginal must be the implementation's own `probability(space)`.
(b) the one-step kernel assembled in numpy from the IMPLEMENTATION's conditionals: detailed balance with the
    implementation's `probability(space)`, rows sum to 1, pi K = pi; vs the model kernel (Gibbs.b_kernel /
    p_kernel) and its powers (Gibbs.kpow); on tiny sizes also the model's enumerated sampler law vs kpow.
(c) `torch.bernoulli` wrapped in this process during `nn_state.sample` / `rbm.gibbs_steps`.  The recorded calls are
    interpreted by CONTENT, not by position or count: within a step every call must be the exact conditional
    (brute-force tables) of a block of not-yet-drawn hidden or auxiliary units given the current visible state (either
    layer first, whole layers or unit by unit), then of visible units given this step's latent draws; the result must
    be the visible state after exactly k such steps.  If the calls cannot be read that way (draws made by other means,
    other decomposition) the correspondence is reported broken and the net is decided by the statistical law test (d).
    Results are 0/1 with the shape of the start state; k = 0 returns the start state; overwrite=False leaves the
    caller's tensor untouched, overwrite=True leaves the result in the caller's tensor; chains continued across calls; the
    canonically re-ordered run is replayed through the model's deterministic sampler (Gibbs.b_gibbs_steps /
    p_gibbs_steps) and storage model (Gibbs.gibbs_call with its same_dtype flag).
    When the calls DO read as >= k complete exact steps chained from the caller's start state but the returned tensor is not
    the visible draw of step k (e.g. it is still the start state), that input is a direct failure of "returns the visible
    states after k steps"; with overwrite=True the caller's memory cells (read through a fresh view of the caller's larger
    tensor) must hold that last visible draw, and cells outside the view keep their values.
    START-STATE LAYOUTS (table LAYOUTS): dense 2-D / 1-D / 3-D; every second column, a column block (offset 0 and 1) of a
    wider pool, every second row, an offset row range, transposed, a transposed block, expanded (stride 0; overwrite=False
    only), 1-D strided row / column views, 3-D with the unit axis permuted, 3-D column block, 3-D with permuted batch axes;
    dtypes float64/32/16, bfloat16, int64/32/16/8, uint8, bool -- all through sample, sample(k, n, initial_state=) and
    rbm.gibbs_steps, for BinaryRBM and PurificationRBM (DensityMatrix.sample).
(g) STATISTICAL TESTS per layout that always run (they do not depend on how draws are made): all 2^nv start states x
    900..2500 chains held in each 2-D / 3-D layout and several dtypes: the returned tensor, with overwrite=True the caller's
    view, and the view after the chains are continued by one more overwrite=True call follow kernel^k / kernel^(k+1);
    Observable.statistics(burn_in, steps, initial_state=<strided view>, overwrite) evaluates the observable on chain states
    that follow kernel^(burn_in + i*steps) and leaves the final states in / does not touch the user's view; Observable.sample
    with a view is tied by content.  Three nets with moderate couplings (identity kernel off by > 0.3 in some cell) run these
    FIRST, before anything else.
(e) same-object histories: after the first pass the parameters of the SAME RBM object are changed (in-place add_,
    data.copy_, rebinding .data, load_state_dict, new nn.Parameter); tables are rebuilt and (a), (b) and traces re-run.
(f) STATISTICAL TESTS that always run (Hoeffding, delta = 1e-9 per cell): sample(k, num_samples) without initial_state
    follows kernel^k given its own observed start draw (nothing demanded of the start distribution); a large batch
    (2^nv * 4796 chains) follows kernel^k on each of 16 row segments; two successive calls without reseeding, and
    neighbouring chains of one call, agree with frequency sum_s K(v0,s)^2; a chain continued over two 1-step calls
    follows kernel^2.
(d) thorough tier (and the failing-input search): STATISTICAL TEST — empirical law of sample(k=1,2,
    initial_state) over 2e5 chains vs kernel^k with a Hoeffding bound at delta = 1e-9 per cell.
(h) the single-layer samplers sample_h_given_v / sample_v_given_h / sample_a_given_v / sample_v_given_ha called DIRECTLY
    (no out=, fresh out=, 1-D) on the whole configuration space, for every net and after every history step: 0/1 of shape
    (..., units), the out= tensor holds the returned sample, the returned sample is the recorded Bernoulli draw made from
    the exact conditional (law test of repeated draws when the draw is not observable).
(i) LONG CHAINS, fixed cases that run first: three slowly mixing nets (second kernel eigenvalue 0.975, found by bisection,
    so that kernel^17 .. kernel^100, the stationary law and the uniform law are pairwise > 0.06 apart in some cell):
    content tie of runs with k = 17, 31, 32, 33, 64, 100 and one k in 128..1500 (sample / gibbs_steps / sample(k, n,
    initial_state=), strided and float32 start states, overwrite on and off); STATISTICAL TESTS of 25000 chains against
    matrix_power(K_exact, k) for k in 17, 32, 33, 64, 100, and of sample(64, 25000) given its own start draw.
    Bernoulli draws are recorded from torch.bernoulli, Tensor.bernoulli and Tensor.bernoulli_ (probability = its argument).
(j) SINGLE-PRECISION NETWORKS, fixed cases: one state per type built with module=<RBM>.float(): conditionals on float32
    inputs vs the tables of the float32-rounded parameters (2e-5), content tie of runs from float64 / float32 / int64 /
    strided start states (the chain runs in the dtype of the weights; the caller's tensor is written back), one run with
    k = 33, sample(k, n), law test per start state.
(e') histories also REPLACE the amplitude network of the live state through the public `rbm_am` setter (new network with
    another number of hidden / auxiliary units): probability, conditionals, gibbs_steps and state.sample must follow.
(k) THE RESULT OF AN overwrite=False CALL IS THE CALLER'S OWN (seed round 5: a `k == 0` fast path returned
    `initial_state.to(weights)`, i.e. the caller's tensor itself; a single call looks right).  EVERY overwrite=False run of
    part (c) -- every k including 0, every layout / dtype, sample / sample(k, n, initial_state=) / gibbs_steps -- is followed by
    the two ordinary uses of what was returned: the returned tensor is changed in place, and the chain is continued from it
    with overwrite=True; after each, the caller's start state (for a view: the whole of the caller's larger tensor) must
    still equal the copy taken before the first call.  The same for the samples Observable.sample / Observable.statistics
    hand to the observable (k = 0 / burn_in = 0 included).  The result of an earlier overwrite=False call must keep its
    values when the sampler is called again.  FIXED CASES FIRST (zero_step_first, layout_runs(k_fixed=0)): k = 0 on dense
    float64 start states (2-D, one chain, 1-D, 3-D) through the three entry points, then every layout and dtype with k = 0,
    overwrite off and on; float32 networks with float32 starts; after every history step.
(m) ARCHITECTURE SWEEP, fixed block of the quick tier too: every (nv, nh) in 1..4 x 1..4 for the positive and the complex
    state and every (nv, nh, na) in 1..4 x 1..4 x 1..3 for the density matrix, all parameter tensors of both networks drawn
    at random: conditionals + single-layer samplers, reported distribution / detailed balance / invariance, a k = 0 call
    without overwriting (followed by (k)) and a k >= 1 call with overwriting.
(l) SHAPES ARE COMPARED STRICTLY AND BEFORE ANY USE (seed round 8: a decorator that always squeeze_(0)-es dropped the batch axis
    of a ONE-ROW batch and reshaped the caller's (1, nv) start tensor in place; the harness read the requested shape from the
    caller's tensor AFTER the call and crashed on a boolean-mask index).  The requested shape is recorded before every call;
    every implementation result is REQUIRED to have it (tuple equality, never broadcasting) and every tensor that belongs to the
    caller (start state, the larger tensor it is a view of, out= buffers, arguments of the conditionals, a result handed back
    for continuation) is REQUIRED to keep its shape (keeps_shape) before anything is reshaped / indexed; the dependent comparisons
    are skipped when a shape is wrong.  FIXED CASES FIRST (one_row_first): one chain as a (1, nv) start state in every 2-D layout
    and dtype, 3-D start states with axes of size one, the 1-D form, k = 0..3, overwrite off / on, the three entry points, chains
    continued from the one-row result; sample(k, 1) / sample(k) / sample(k, num_samples=1); prob_* and sample_* (with and without
    out=) on a one-row batch -- also for every net and after every history step (check_conditionals)."""
import itertools, math, time
import numpy as np
import gen

RULE = ("state types positive / complex / density; shapes nv,nh in 1..4, na in 1..3 (quick: covering subset incl. "
        "nh != nv, na != nh, size-1 dims; thorough: all 16 binary shapes x 2 types and all 48 purification shapes); "
        "parameters from the mixture in harness/gen.py with every bias non-zero; all 2^nv visible, 2^nh hidden, 2^na "
        "auxiliary configurations enumerated; sampling scenarios k in 0..3 x overwrite in {False,True} x continued "
        "calls x gibbs_steps / sample(with and without initial_state) x single-layer samplers called directly (no out / "
        "out= / 1-D) x start-state layout (16 layouts: dense, strided / "
        "column-block / transposed / expanded / offset views of a larger tensor, 1-D and 3-D forms) x start dtype (10 dtypes); "
        "fixed cases first: three well-mixing nets (one per state type) through every layout, dtype and the per-layout law "
        "tests; then three slowly mixing nets with chains of k = 17, 31, 32, 33, 64, 100 and one k in 128..1500 (content tie "
        "+ law tests against matrix_power(kernel, k)); then three single-precision nets (module=<RBM>.float()); histories: "
        "six kinds of update of the live object incl. replacing the network through the rbm_am setter; "
        "one-row requests (a (1, nv) start state in every 2-D layout / dtype, 3-D start states with size-1 axes, 1-D, num_samples=1; "
        "prob_* / sample_* on a one-row batch) with every shape compared strictly with the requested one; "
        "then ALL 16 binary shapes x {positive, complex} and ALL 48 purification shapes once each (conditionals, kernel, a k = 0 "
        "and a k >= 1 call); every overwrite=False call (any k, k = 0 in fixed cases through every entry point / layout / dtype) "
        "is followed by an in-place change of the returned tensor and by a continuation of the chain from it with "
        "overwrite=True, with the caller's start state re-read after each; "
        "a case is (state type, shape, parameter draw); "
        "non-trivial := all biases non-zero and the kernel has no row equal to another (the chain depends on its state)")
ASSUMPTIONS = ["torch.bernoulli(p) returns independent 0/1 draws with P(1) = p per entry (trusted; the thorough tier adds a "
               "Hoeffding-bounded statistical test of the end-to-end law, labelled as a test)",
               "torch matmul/sigmoid implement the real functions up to rounding (tolerance 1e-9 relative)",
               "all tensors are on the CPU (the documented device exception of overwrite is not exercised)",
               "overwrite=True on an expanded / self-overlapping start state is outside the quantifier (torch refuses in-place "
               "writes into such tensors); expanded start states are exercised with overwrite=False only",
               "a tensor-level read: when every recorded torch.bernoulli call is an exact conditional and the calls form >= k "
               "complete steps chained from the caller's start state, the sampler is taken to have run its chain through these "
               "calls, so a returned tensor that is not the visible draw of step k (or of a later step) is a failing input",
               "OUT OF SCOPE (red-team round 2, C05_1): networks handed over with module= whose parameters have "
               "requires_grad=True -- every documented construction path (the state constructors, BinaryRBM / PurificationRBM, "
               "load_params / autoload) yields requires_grad=False parameters; a user has to re-wrap the parameters of a live library "
               "module to get there, so a sampler that reads `self.weights` instead of `self.weights.data` is not reported",
               "IN SCOPE by decision (red-team round 2, C05_4): single-precision networks (an RBM module converted with the public "
               "nn.Module.float() and handed over through the documented module= argument; no subclassing, no attribute patching). The "
               "documentation never mentions a precision; the unchanged tree samples such networks correctly (the chain is converted "
               "with .to(weights)), and 'all parameters ... every state type' does not exclude them. Demanded: sampling, and the "
               "conditionals on tensors of the network's own dtype, up to float32 rounding (2e-5). NOT demanded (and failing on the "
               "unchanged tree): conditional methods called with float64 tensors on a float32 network, DensityMatrix.rho of a float32 "
               "network (both raise a dtype error)",
               "the single-layer samplers are located by their documented names; a missing name is counted, not reported",
               "IN SCOPE (seed round 5, C05e): a result of an overwrite=False call that shares memory with the caller's start state "
               "(k = 0 fast path). 'The caller's start state is left untouched unless overwriting was requested' is read as a statement "
               "about the history 'call, then use the result' ('chains continued across calls'): overwriting requested for the RETURNED "
               "tensor in a later call, or an in-place edit of it, is not a request to overwrite the original start state. Likewise samples "
               "returned earlier keep their values when the sampler is called again. A returned tensor that cannot be written in place "
               "(add_ raises) is counted, not reported: the statement does not promise writable results",
               "replacing the amplitude network of a live state through the public property setter `state.rbm_am = <RBM>` is a "
               "history inside the quantifier ('histories', 'chains continued across calls'); the new network has the same num_visible",
               "two start-state forms that failed on the unchanged tree before fix 2c1500e are still probed but only recorded (evidence extra "
               "'unfiled_findings', histogram 'UNFILED-FINDING:*') until known_findings.json has an open entry with match "
               "{'pending_finding': <tag>}: 3-D start state with permuted batch axes (raises), 1-D strided view with "
               "overwrite=True (writes into neighbouring cells of the caller's storage)"]

HOEFFDING_DELTA = 1e-9
# relative tolerance for oracle relations that compare DIFFERENT float paths (torch's softplus returns x above its
# threshold 20, dropping log1p(e^-20) = 2.1e-9 from log-probabilities; exact sigmoids / brute-force sums do not)
RT = 1e-7
# single-precision networks (module.float()): float32 rounding of the pre-activation (|x| <~ 10) and of the sigmoid
RT32 = 2e-5


# ----------------------------------------------------------------------------- helpers
def bitsarr(n):
    return np.array(list(itertools.product([0.0, 1.0], repeat=n)), dtype=float).reshape(2 ** n, n)


def idx_of(rows):
    rows = np.atleast_2d(np.asarray(rows))
    n = rows.shape[1]
    if n == 0:
        return np.zeros(rows.shape[0], dtype=int)
    p = 2 ** np.arange(n - 1, -1, -1)
    return (rows.astype(int) @ p).astype(int)


def bern_matrix(P, B):
    """M[i, j] = prod_u (P[i,u] if B[j,u] else 1 - P[i,u])"""
    P = np.asarray(P, dtype=float); B = np.asarray(B, dtype=float)
    out = np.ones((P.shape[0], B.shape[0]))
    for u in range(P.shape[1]):
        out = out * np.where(B[None, :, u] > 0.5, P[:, None, u], 1.0 - P[:, None, u])
    return out


def tnp(t):
    import torch
    return t.detach().cpu().to(torch.float64).numpy().astype(float)


class Net:
    """A state under test with its parameters (numpy) and brute-force reference tables."""

    def __init__(self, kind, nv, nh, na, params, ph_params=None, f32=False):
        import torch
        from qucumber.nn_states import PositiveWaveFunction, ComplexWaveFunction, DensityMatrix
        self.kind, self.nv, self.nh, self.na = kind, nv, nh, na
        self.params = [np.asarray(p, dtype=float) for p in params]
        self.purif = (kind == "density")
        self.f32 = bool(f32)
        self.rt = RT
        self.wdtype = torch.double
        if f32:
            # SINGLE-PRECISION NETWORK, built the documented way: an RBM module handed over with `module=` after the user
            # converted it with nn.Module.float().  The reference tables are those of the float32-rounded parameters.
            from qucumber.rbm import BinaryRBM, PurificationRBM
            self.params = [np.asarray(p, dtype=np.float32).astype(float) for p in self.params]
            self.rt, self.wdtype = RT32, torch.float32
            if self.purif:
                module = PurificationRBM(nv, nh, na, gpu=False)
                gen.set_prbm(module, *self.params)
                self.state = DensityMatrix(nv, module=module.float(), gpu=False)
            else:
                module = BinaryRBM(nv, nh, gpu=False)
                gen.set_brbm(module, *self.params)
                cls = PositiveWaveFunction if kind == "positive" else ComplexWaveFunction
                self.state = cls(nv, module=module.float(), gpu=False)
        elif kind == "positive":
            self.state = PositiveWaveFunction(nv, nh, gpu=False)
            gen.set_brbm(self.state.rbm_am, *self.params)
        elif kind == "complex":
            self.state = ComplexWaveFunction(nv, nh, gpu=False)
            gen.set_brbm(self.state.rbm_am, *self.params)
            if ph_params is not None:
                gen.set_brbm(self.state.rbm_ph, *[np.asarray(p, dtype=float) for p in ph_params])
        else:
            self.state = DensityMatrix(nv, nh, na, gpu=False)
            gen.set_prbm(self.state.rbm_am, *self.params)
            if ph_params is not None:
                gen.set_prbm(self.state.rbm_ph, *[np.asarray(p, dtype=float) for p in ph_params])
        self.rbm = self.state.rbm_am
        self.nh0, self.na0 = nh, na
        self._space()
        self.per = 3 if self.purif else 2
        self._tables()

    def _space(self):
        self.V, self.H = bitsarr(self.nv), bitsarr(self.nh)
        self.A = bitsarr(self.na) if self.purif else np.zeros((1, 0))

    SETTER = "rbm_am setter (new network)"
    HOWS = ("inplace add_", "data.copy_", "rebind .data", "load_state_dict", "new nn.Parameter", SETTER)

    def pnames(self):
        return ["weights_W", "weights_U", "visible_bias", "hidden_bias", "aux_bias"] if self.purif else \
               ["weights", "visible_bias", "hidden_bias"]

    def mutate(self, ctx, how, explicit=None):
        """Same-object history: change the parameters of the live RBM (never rebuilding the state) the way training,
        loading or a user would, then rebuild the reference tables from what the object now holds."""
        import torch
        if how == self.SETTER:
            # the amplitude network of the live (already used) state is REPLACED through the public `rbm_am` setter by a
            # freshly built network with another number of hidden (and auxiliary) units; probability() follows at once,
            # and so must sample() and everything reached through the state
            from qucumber.rbm import BinaryRBM, PurificationRBM
            if explicit is None:
                self.nh = self.nh % 4 + 1
                if self.purif:
                    self.na = self.na % 3 + 1
            else:
                self.nh = int(np.asarray(explicit[0]).shape[0])
                if self.purif:
                    self.na = int(np.asarray(explicit[1]).shape[0])
            new = PurificationRBM(self.nv, self.nh, self.na, gpu=False) if self.purif else BinaryRBM(self.nv, self.nh, gpu=False)
            fresh = draw_params(ctx, self.kind, self.nv, self.nh, self.na) if explicit is None else \
                [np.asarray(p, dtype=float) for p in explicit]
            (gen.set_prbm if self.purif else gen.set_brbm)(new, *fresh)
            self.state.rbm_am = new
            self.rbm = self.state.rbm_am
            self._space()
        elif explicit is None:
            fresh = draw_params(ctx, self.kind, self.nv, self.nh, self.na)
        else:
            fresh = [np.asarray(p, dtype=float) for p in explicit]
        names = self.pnames()
        rbm = self.rbm
        if how == self.SETTER:
            pass
        elif how == "load_state_dict":
            sd = dict(rbm.state_dict())
            for n, arr in zip(names, fresh):
                sd[n] = torch.tensor(arr, dtype=torch.double)
            rbm.load_state_dict(sd)
        else:
            for n, arr in zip(names, fresh):
                par = getattr(rbm, n)
                t = torch.tensor(arr, dtype=torch.double)
                if how == "inplace add_":
                    par.data.add_(t - par.data)
                elif how == "data.copy_":
                    par.data.copy_(t)
                elif how == "rebind .data":
                    par.data = t
                else:
                    setattr(rbm, n, torch.nn.Parameter(t, requires_grad=False))
        self.params = [getattr(rbm, n).data.detach().numpy().astype(float).copy() for n in names]
        self.history = getattr(self, "history", []) + [how]
        for attr in ("impl_conds", "K_impl", "pi", "unobserved"):
            if hasattr(self, attr):
                delattr(self, attr)
        self._tables()
        ctx.count("history:" + how)

    def case(self, **extra):
        c = {"state": self.kind, "nv": self.nv, "nh": self.nh, "na": self.na if self.purif else 0,
             "params": [p.tolist() for p in self.params], "history": list(getattr(self, "history", []))}
        if self.f32:
            c["network_dtype"] = "float32 (module=<RBM>.float())"
        if self.SETTER in c["history"]:
            c["shape_before_history"] = [self.nh0, self.na0]
        c.update(extra)
        return c

    def _tables(self):
        """joint Boltzmann weight and its exact conditionals by enumeration (independent of the code under test)"""
        V, H, A = self.V, self.H, self.A
        if self.purif:
            W, U, b, c, d = self.params
            logJ = ((V @ b)[:, None, None] + (H @ c)[None, :, None] + (A @ d)[None, None, :]
                    + (H @ W @ V.T).T[:, :, None] + (A @ U @ V.T).T[:, None, :])
        else:
            W, b, c = self.params
            logJ = ((V @ b)[:, None] + (H @ c)[None, :] + (H @ W @ V.T).T)[:, :, None]
        self.logJ = logJ
        m = logJ.max()
        J = np.exp(logJ - m)
        self.log_marg_v = np.log(J.sum(axis=(1, 2))) + m                 # log sum_{h,a} J
        Jv = J / J.sum(axis=(1, 2), keepdims=True)                       # P(h,a | v)
        self.PH = np.stack([(Jv * H[None, :, i, None]).sum(axis=(1, 2)) for i in range(self.nh)], axis=1)
        if self.purif:
            self.PA = np.stack([(Jv * A[None, None, :, i]).sum(axis=(1, 2)) for i in range(self.na)], axis=1)
        Jha = J / J.sum(axis=0, keepdims=True)                           # P(v | h,a)
        pv = np.stack([(Jha * V[:, j, None, None]).sum(axis=0) for j in range(self.nv)], axis=-1)  # (nH, nA, nv)
        self.PV = pv                                                      # index [h, a, :]
        B1 = np.einsum("vha->vha", Jv)
        # exact kernel from the joint:  K[s,s'] = sum_{h,a} P(h,a|s) P(s'|h,a), P(s'|h,a) = prod_j bern
        PVflat = pv.reshape(-1, self.nv)
        B2 = bern_matrix(PVflat, V)                                       # ((h,a), s')
        self.K_exact = B1.reshape(len(V), -1) @ B2

    def exp_ph(self, v_rows):
        return self.PH[idx_of(v_rows)]

    def exp_pa(self, v_rows):
        return self.PA[idx_of(v_rows)]

    def exp_pv(self, h_rows, a_rows=None):
        ai = idx_of(a_rows) if self.purif else np.zeros(len(np.atleast_2d(h_rows)), dtype=int)
        return self.PV[idx_of(h_rows), ai]


def draw_params(ctx, kind, nv, nh, na):
    if kind == "density":
        params = gen.prbm_params(ctx, nv, nh, na)
        biases = params[2:]
    else:
        params = gen.brbm_params(ctx, nv, nh)
        biases = params[1:]
    # the quantifier allows magnitudes up to ~30: in a third of the draws one bias entry is large (log-uniform 1e-3..30)
    if ctx.rng.random() < 0.33:
        bvec = biases[int(ctx.rng.integers(len(biases)))]
        bvec[int(ctx.rng.integers(len(bvec)))] = float(np.exp(ctx.rng.uniform(np.log(1e-3), np.log(30.0))) * ctx.rng.choice([-1.0, 1.0]))
        ctx.count("large_bias_draw")
    return list(params)


def draw_net(ctx, kind, nv, nh, na):
    params = draw_params(ctx, kind, nv, nh, na)
    if kind == "density":
        php = gen.prbm_params(ctx, nv, nh, na, phase=True)
    else:
        php = gen.brbm_params(ctx, nv, nh) if kind == "complex" else None
    return Net(kind, nv, nh, na, params, php)


def close_rel(a, b, rtol=RT, atol=1e-12):
    a = np.asarray(a, dtype=float); b = np.asarray(b, dtype=float)
    if a.shape != b.shape:
        return False
    return bool(np.all(np.abs(a - b) <= rtol * np.maximum(np.abs(a), np.abs(b)) + atol))


# ----------------------------------------------------------------------------- (a) conditionals
def check_conditionals(ctx, net):
    import torch
    m = ctx.get_model()
    rbm, case = net.rbm, net.case(part="conditionals")
    V, H, A = net.V, net.H, net.A
    dt, rt = net.wdtype, net.rt                       # the conditionals take tensors of the network's own dtype
    tol = {} if not net.f32 else {"rtol": rt, "atol": rt}
    tV, tH = torch.tensor(V, dtype=dt), torch.tensor(H, dtype=dt)
    if net.purif:
        tA = torch.tensor(A, dtype=dt)
        HH = np.repeat(H, len(A), axis=0); AA = np.tile(A, (len(H), 1))       # h-major pairs
        ok, out = ctx.call("conditional-probability methods (batched)", case, lambda: (
            tnp(rbm.prob_h_given_v(tV.clone())), tnp(rbm.prob_a_given_v(tV.clone())),
            tnp(rbm.prob_v_given_ha(torch.tensor(HH, dtype=dt), torch.tensor(AA, dtype=dt)))))
        if not ok:
            return False
        ph, pa, pv = out
        if not ctx.require("conditional-probability methods (batched): results have shape (rows, units)",
                           ph.shape == (len(V), net.nh) and pa.shape == (len(V), net.na) and pv.shape == (len(HH), net.nv), case,
                           {"prob_h_given_v": list(ph.shape), "prob_a_given_v": list(pa.shape), "prob_v_given_ha": list(pv.shape)}):
            return False
        mph, mpa, mpv = m.call("c05_p_conds", *net.params, V, H, A)
        ctx.agree("prob_h_given_v", ph, mph, case, **tol)
        ctx.agree("prob_a_given_v", pa, mpa, case, **tol)
        ctx.agree("prob_v_given_ha", pv, mpv, case, **tol)
        good = ctx.require("prob_h_given_v is the exact conditional P(h|v)", close_rel(ph, net.PH, rtol=rt), case,
                           {"impl": ph.tolist(), "exact": net.PH.tolist()})
        good &= ctx.require("prob_a_given_v is the exact conditional P(a|v)", close_rel(pa, net.PA, rtol=rt), case,
                            {"impl": pa.tolist(), "exact": net.PA.tolist()})
        good &= ctx.require("prob_v_given_ha is the exact conditional P(v|h,a)",
                            close_rel(pv, net.PV.reshape(-1, net.nv), rtol=rt), case,
                            {"impl": pv.tolist(), "exact": net.PV.reshape(-1, net.nv).tolist()})
        # 1-D call forms
        for i in sorted({0, len(V) - 1, int(ctx.rng.integers(len(V)))}):
            ok, o = ctx.call("conditional-probability methods (1-D)", case,
                             lambda: (tnp(rbm.prob_h_given_v(tV[i].clone())), tnp(rbm.prob_a_given_v(tV[i].clone()))))
            if ok:
                ctx.agree("prob_h_given_v 1-D", o[0], mph[i], case, **tol)
                ctx.agree("prob_a_given_v 1-D", o[1], mpa[i], case, **tol)
                good &= ctx.require("prob_h_given_v 1-D form has shape (nh,) and equals the batched row",
                                    o[0].shape == (net.nh,) and close_rel(o[0], ph[i], rtol=rt), case)
                good &= ctx.require("prob_a_given_v 1-D form has shape (na,) and equals the batched row",
                                    o[1].shape == (net.na,) and close_rel(o[1], pa[i], rtol=rt), case)
        for j in sorted({0, len(HH) - 1, int(ctx.rng.integers(len(HH)))}):
            ok, o = ctx.call("prob_v_given_ha (1-D)", case, lambda: tnp(rbm.prob_v_given_ha(
                torch.tensor(HH[j], dtype=dt), torch.tensor(AA[j], dtype=dt))))
            if ok:
                ctx.agree("prob_v_given_ha 1-D", o, mpv[j], case, **tol)
                good &= ctx.require("prob_v_given_ha 1-D form has shape (nv,) and equals the batched row",
                                    o.shape == (net.nv,) and close_rel(o, pv[j], rtol=rt), case)
        net.impl_conds = (ph, pa, pv)
        good &= one_row_conditionals(ctx, net)
        good &= check_layer_samplers(ctx, net)
    else:
        ok, out = ctx.call("conditional-probability methods (batched)", case, lambda: (
            tnp(rbm.prob_h_given_v(tV.clone())), tnp(rbm.prob_v_given_h(tH.clone()))))
        if not ok:
            return False
        ph, pv = out
        if not ctx.require("conditional-probability methods (batched): results have shape (rows, units)",
                           ph.shape == (len(V), net.nh) and pv.shape == (len(H), net.nv), case,
                           {"prob_h_given_v": list(ph.shape), "prob_v_given_h": list(pv.shape)}):
            return False
        mph, mpv = m.call("c05_b_conds", *net.params, V, H)
        ctx.agree("prob_h_given_v", ph, mph, case, **tol)
        ctx.agree("prob_v_given_h", pv, mpv, case, **tol)
        good = ctx.require("prob_h_given_v is the exact conditional P(h|v)", close_rel(ph, net.PH, rtol=rt), case,
                           {"impl": ph.tolist(), "exact": net.PH.tolist()})
        good &= ctx.require("prob_v_given_h is the exact conditional P(v|h)", close_rel(pv, net.PV[:, 0, :], rtol=rt), case,
                            {"impl": pv.tolist(), "exact": net.PV[:, 0, :].tolist()})
        for i in sorted({0, len(V) - 1, int(ctx.rng.integers(len(V)))}):
            ok, o = ctx.call("prob_h_given_v (1-D)", case, lambda: tnp(rbm.prob_h_given_v(tV[i].clone())))
            if ok:
                ctx.agree("prob_h_given_v 1-D", o, mph[i], case, **tol)
                good &= ctx.require("prob_h_given_v 1-D form has shape (nh,) and equals the batched row",
                                    o.shape == (net.nh,) and close_rel(o, ph[i], rtol=rt), case)
        for j in sorted({0, len(H) - 1, int(ctx.rng.integers(len(H)))}):
            ok, o = ctx.call("prob_v_given_h (1-D)", case, lambda: tnp(rbm.prob_v_given_h(tH[j].clone())))
            if ok:
                ctx.agree("prob_v_given_h 1-D", o, mpv[j], case, **tol)
                good &= ctx.require("prob_v_given_h 1-D form has shape (nv,) and equals the batched row",
                                    o.shape == (net.nv,) and close_rel(o, pv[j], rtol=rt), case)
        net.impl_conds = (ph, None, pv)
        good &= one_row_conditionals(ctx, net)
        good &= check_layer_samplers(ctx, net)
    return good


def one_row_conditionals(ctx, net, n_rows=2):
    """(l) ONE-ROW BATCHES: a batch that happens to hold a single configuration, handed over as a (1, units) tensor, is a batch:
    prob_*( (1, units) ) has shape (1, units') -- compared STRICTLY, a broadcasting comparison would not see a dropped axis --,
    equals the exact conditional of that row, and the argument keeps its shape and values."""
    import torch
    rbm, dt, rt = net.rbm, net.wdtype, net.rt
    V, H, A = net.V, net.H, net.A
    if net.purif:
        HH = np.repeat(H, len(A), axis=0); AA = np.tile(A, (len(H), 1))
        jobs = [("prob_h_given_v", (V,), net.PH, net.nh), ("prob_a_given_v", (V,), net.PA, net.na),
                ("prob_v_given_ha", (HH, AA), net.PV.reshape(-1, net.nv), net.nv)]
    else:
        jobs = [("prob_h_given_v", (V,), net.PH, net.nh), ("prob_v_given_h", (H,), net.PV[:, 0, :], net.nv)]
    good = True
    for name, args, E, units in jobs:
        fn = getattr(rbm, name)
        for i in sorted({int(x) for x in ctx.rng.integers(len(E), size=n_rows)} | {len(E) - 1}):
            targs = [torch.tensor(a[i:i + 1], dtype=dt) for a in args]
            keep = [t.clone() for t in targs]
            case = net.case(part="conditionals", method=name, call_form="one-row batch (1, units)",
                            configuration=[a[i].tolist() for a in args])
            ok, res = ctx.call("%s(<one-row batch>)" % name, case, lambda: fn(*targs))
            ctx.count("one_row:%s" % name)
            if not ok:
                good = False
                continue
            r = tnp(res) if isinstance(res, torch.Tensor) else None
            if not ctx.require("%s of a one-row batch (1, units) has shape (1, %s)" % (name, "units'"),
                               r is not None and tuple(r.shape) == (1, units), case,
                               {"shape": list(shp(res) or ()), "expected shape": [1, units]}):
                good = False
                continue
            good &= ctx.require("%s of a one-row batch is the exact conditional of that row" % name,
                                close_rel(r, E[i:i + 1], rtol=rt, atol=1e-12 if rt <= RT else rt * 1e-2), case,
                                {"impl": r.tolist(), "exact": E[i:i + 1].tolist()})
            good &= ctx.require("%s leaves its one-row argument untouched (shape and values)" % name,
                                all(shp(t) == shp(k0) and bool(torch.equal(t, k0)) for t, k0 in zip(targs, keep)), case,
                                {"argument shapes after": [list(shp(t) or ()) for t in targs]})
    return good


# ----------------------------------------------------------------------------- (h) single-layer samplers called directly
def check_layer_samplers(ctx, net, reps=3000):
    """The public single-layer samplers sample_h_given_v / sample_v_given_h (BinaryRBM) and sample_h_given_v /
    sample_a_given_v / sample_v_given_ha (PurificationRBM) called DIRECTLY on the whole configuration space -- without
    `out=`, with a fresh `out=` tensor, and in the 1-D form: the returned value is a 0/1 sample of shape (..., units); an
    `out=` tensor holds that sample; when the call made exactly one recorded Bernoulli draw from the exact conditional,
    the returned sample IS that draw (content tie); otherwise the empirical mean of `reps` repeated draws per
    configuration must be the exact conditional (STATISTICAL TEST, Hoeffding)."""
    import torch
    rbm, dt, rt = net.rbm, net.wdtype, net.rt
    V, H, A = net.V, net.H, net.A
    if net.purif:
        HH = np.repeat(H, len(A), axis=0); AA = np.tile(A, (len(H), 1))
        jobs = [("sample_h_given_v", (V,), net.PH, net.nh), ("sample_a_given_v", (V,), net.PA, net.na),
                ("sample_v_given_ha", (HH, AA), net.PV.reshape(-1, net.nv), net.nv)]
    else:
        jobs = [("sample_h_given_v", (V,), net.PH, net.nh), ("sample_v_given_h", (H,), net.PV[:, 0, :], net.nv)]
    good = True
    for name, args, E, units in jobs:
        fn = getattr(rbm, name, None)
        if fn is None:
            ctx.count("layer_sampler_missing:" + name)      # the method names are not part of the statement
            continue
        R = len(E)
        i1 = int(ctx.rng.integers(R))
        untied = False
        for form in ("no out", "out=", "1-D", "one row", "one row out="):
            seed = ctx.torch_seed()
            case = net.case(part="layer samplers", method=name, call_form=form, torch_seed=seed)
            what = "%s(<%s>%s)" % (name, "one configuration, 1-D" if form == "1-D" else
                                    "one configuration as a one-row batch (1, units)" if form.startswith("one row") else
                                    "all configurations", ", out=<fresh tensor>" if form.endswith("out=") else "")
            if form == "1-D":
                targs = [torch.tensor(a[i1], dtype=dt) for a in args]
                Ef, shape = E[i1:i1 + 1], (units,)
                case["configuration"] = [a[i1].tolist() for a in args]
            elif form.startswith("one row"):
                # a batch of exactly one configuration is a batch: the sample has shape (1, units), strictly
                targs = [torch.tensor(a[i1:i1 + 1], dtype=dt) for a in args]
                Ef, shape = E[i1:i1 + 1], (1, units)
                case["configuration"] = [a[i1].tolist() for a in args]
            else:
                targs = [torch.tensor(a, dtype=dt) for a in args]
                Ef, shape = E, (R, units)
            buf = torch.full(shape, 7.0, dtype=dt) if form.endswith("out=") else None
            arg_shapes = [tuple(t.shape) for t in targs]
            with BernoulliSpy() as spy:
                ok, res = ctx.call(what, case, (lambda: fn(*targs)) if buf is None else (lambda: fn(*targs, out=buf)))
            ctx.count("layer_sampler:%s:%s" % (name, form))
            if not ok:
                good = False
                continue
            r = tnp(res) if isinstance(res, torch.Tensor) else None
            kept = keeps_shape(ctx, what, case, [("argument %d" % q, t, s0) for q, (t, s0) in enumerate(zip(targs, arg_shapes))] +
                               ([("out= tensor", buf, shape)] if buf is not None else []))
            if not ctx.require(what + ": returns a 0/1 sample of shape (..., units)",
                               r is not None and tuple(r.shape) == shape and is01(r), case,
                               {"returned": r.tolist() if r is not None else type(res).__name__, "expected shape": list(shape)}) \
                    or not kept:
                good = False
                continue
            if buf is not None:
                good &= ctx.require(what + ": the out= tensor holds the returned sample", bool(np.array_equal(tnp(buf), r)), case,
                                    {"out": tnp(buf).tolist(), "returned": r.tolist()})
            calls = spy.calls
            if len(calls) == 1 and calls[0]["p"].size == Ef.size and calls[0]["out"].size == Ef.size and \
                    close_rel(calls[0]["p"].reshape(Ef.shape), Ef, rtol=rt, atol=1e-12 if rt <= RT else rt * 1e-2):
                good &= ctx.require(what + ": the returned sample is the Bernoulli draw made from the exact conditional",
                                    bool(np.array_equal(calls[0]["out"].reshape(Ef.shape), r.reshape(Ef.shape))), case,
                                    {"returned": r.tolist(), "recorded draw": calls[0]["out"].tolist()})
                ctx.count("layer_sampler_tied_to_draw")
            else:
                untied = True
        if untied:
            # draws made by other means / in another decomposition: decided by the law of repeated draws
            ctx.count("layer_sampler_not_tied:" + name)
            seed = ctx.torch_seed()
            case = net.case(part="layer samplers", method=name, call_form="statistical", torch_seed=seed, repetitions=reps)
            targs = [torch.tensor(np.tile(a, (reps, 1)), dtype=dt) for a in args]
            ok, res = ctx.call(name + "(<all configurations repeated>)", case, lambda: fn(*targs))
            if ok and isinstance(res, torch.Tensor) and tuple(res.shape) == (R * reps, units) and is01(tnp(res)):
                freq = tnp(res).reshape(reps, R, units).mean(axis=0)
                dev, eps = float(np.max(np.abs(freq - E))), hoeffding_eps(reps)
                ctx.count("statistical_cells", R * units)
                good &= ctx.require("STATISTICAL TEST (Hoeffding, delta=1e-9 per cell): frequency of 1s drawn by %s == exact "
                                    "conditional" % name, dev <= eps, case,
                                    {"empirical": freq.tolist(), "exact": np.asarray(E).tolist(), "max deviation": dev, "bound": eps})
    return good


# ----------------------------------------------------------------------------- (b) kernel
def impl_kernel(net):
    ph, pa, pv = net.impl_conds
    B1 = bern_matrix(ph, net.H)                                  # (s, h)
    B2 = bern_matrix(pv, net.V)                                  # (h or (h,a), s')
    if net.purif:
        B1a = bern_matrix(pa, net.A)                             # (s, a)
        B12 = (B1[:, :, None] * B1a[:, None, :]).reshape(len(net.V), -1)
        return B12 @ B2
    return B1 @ B2


def check_kernel(ctx, net, light=False):
    """light: the numpy oracle relations and the model's one-step kernel only (no model kernel powers / enumerated laws)"""
    import torch
    m = ctx.get_model()
    case = net.case(part="kernel")
    nv = net.nv
    ok, prob = ctx.call("probability(space)", case, lambda: tnp(net.state.probability(torch.tensor(net.V, dtype=torch.double))))
    if not ok:
        return
    if not ctx.require("probability(space) has one entry per basis state", prob.shape == (len(net.V),), case, list(prob.shape)):
        return
    ok, prob1 = ctx.call("probability(v) 1-D", case, lambda: float(net.state.probability(torch.tensor(net.V[-1], dtype=torch.double))))
    K = impl_kernel(net)
    net.K_impl, net.pi = K, prob
    # the reported distribution is the visible marginal of the joint the conditionals belong to
    ctx.require("probability(space) is the visible marginal of the joint Boltzmann weight",
                close_rel(np.log(prob), net.log_marg_v, rtol=RT, atol=RT), case,
                {"log probability": np.log(prob).tolist(), "log marginal": net.log_marg_v.tolist()})
    if ok:
        ctx.require("probability 1-D form equals the batched entry", math.isclose(prob1, prob[-1], rel_tol=RT), case)
    F = prob[:, None] * K
    scale = float(np.max(F))
    db = np.abs(F - F.T) <= RT * np.maximum(np.abs(F), np.abs(F.T)) + 1e-12 * scale
    i, j = np.unravel_index(np.argmin(db), db.shape)
    ctx.require("detailed balance: probability(s) K(s,s') == probability(s') K(s',s)", bool(db.all()), case,
                {"s": net.V[i].tolist(), "s'": net.V[j].tolist(), "lhs": float(F[i, j]), "rhs": float(F[j, i])})
    rows = K.sum(axis=1)
    ctx.require("kernel rows sum to 1 and entries are >= 0", bool(np.allclose(rows, 1.0, rtol=0, atol=1e-9) and (K >= 0).all()),
                case, {"row sums": rows.tolist()})
    piK = prob @ K
    ctx.require("invariance: sum_s probability(s) K(s,s') == probability(s')",
                bool(np.all(np.abs(piK - prob) <= RT * np.abs(prob) + 1e-12 * prob.max())), case,
                {"pi K": piK.tolist(), "pi": prob.tolist()})
    ctx.require("kernel assembled from the implementation's conditionals is the exact block-Gibbs kernel",
                bool(np.allclose(K, net.K_exact, rtol=RT, atol=1e-12)), case,
                {"impl": K.tolist(), "exact": net.K_exact.tolist()})
    # ---- correspondence with the Coq model
    fn = "c05_p_" if net.purif else "c05_b_"
    mK = m.call(fn + "kernel", *net.params, nv)
    ctx.agree("one-step kernel", K, mK, case)
    if net.purif:
        mE = m.call("c05_p_eff_energy", *net.params, net.V)
    else:
        mE = m.call("b_eff_energy", *net.params, net.V)
    ctx.agree("log probability", np.log(prob), [-e for e in mE], case, rtol=RT, atol=RT)
    latent = net.nh + (net.na if net.purif else 0)
    distinct_rows = len({tuple(np.round(r, 12)) for r in K}) == len(K) or nv == 0
    if light:
        ctx.count("kernel_checked_light")
        return distinct_rows
    ks = [2] if 4 * nv + latent <= 17 else []          # cost of the model's recursive kpow: 2^((k+2) nv + latent)
    if 5 * nv + latent <= 15:
        ks.append(3)
    for k in ks:
        mKk = m.call(fn + "kpow", *net.params, nv, k)
        ctx.agree("k-step kernel (k=%d)" % k, np.linalg.matrix_power(K, k), mKk, case)
        Kk = np.linalg.matrix_power(K, k)
        ctx.require("k-step invariance: probability K^k == probability",
                    bool(np.all(np.abs(prob @ Kk - prob) <= RT * np.abs(prob) + 1e-12 * prob.max())), case, {"k": k})
    mK0 = m.call(fn + "kpow", *net.params, nv, 0)
    ctx.agree_exact("k = 0 kernel is the identity", [[float(x) for x in r] for r in mK0], np.eye(2 ** nv).tolist(), case)
    # model-internal: enumerated law of the deterministic sampler == kpow (validates extraction of the theorem's objects)
    for k in (1, 2):
        if k * (nv + latent) <= 9:
            law = m.call(fn + "law", *net.params, nv, k)
            ctx.agree("model sampler law vs kernel power (k=%d)" % k, np.linalg.matrix_power(np.array(mK), k), law, case)
    ctx.count("kernel_checked")
    return distinct_rows


# ----------------------------------------------------------------------------- (c) sampler trace
class BernoulliSpy:
    """Records the probability tensor used by, and the draw produced by, every Bernoulli draw made through torch's Python
    entry points: the function `torch.bernoulli(input[, p][, out=])`, the method `Tensor.bernoulli([p])` and the in-place
    method `Tensor.bernoulli_(p=0.5)` (whose probabilities are its ARGUMENT -- a number or a tensor --, not the tensor it
    overwrites)."""

    def __init__(self):
        self.calls = []

    def __enter__(self):
        import torch
        self.torch = torch
        self.orig = torch.bernoulli
        spy = self

        def prob_of(inp, a, k):
            """the probabilities of a torch.bernoulli(inp, ...) / inp.bernoulli(...) call"""
            p = inp.detach().clone()
            pa = a[0] if a and isinstance(a[0], (int, float)) else k.get("p")
            if isinstance(pa, (int, float)) and not isinstance(pa, bool):   # (input, p): input only gives the shape
                p = torch.full(tuple(p.shape), float(pa), dtype=torch.double)
            return p

        def record(p, out, via, out_kw=False):
            spy.calls.append({"p": p.detach().to(torch.double).numpy().astype(float),
                              "out": out.detach().clone().to(torch.double).numpy().astype(float), "out_kw": out_kw, "via": via})

        def wrapped(inp, *a, **k):
            p = prob_of(inp, a, k)
            out = spy.orig(inp, *a, **k)
            record(p, out, "torch.bernoulli", k.get("out") is not None)
            return out

        base_ = torch.Tensor.bernoulli_                          # inherited C method (not in torch.Tensor.__dict__)
        base = torch.Tensor.bernoulli
        self.had = {n: torch.Tensor.__dict__.get(n) for n in ("bernoulli_", "bernoulli")}

        def wrapped_inplace(self_t, *a, **k):
            pa = a[0] if a else k.get("p", 0.5)
            if isinstance(pa, torch.Tensor):
                p = pa.detach().to(torch.double).expand(tuple(self_t.shape)).clone()
            else:
                p = torch.full(tuple(self_t.shape), float(pa), dtype=torch.double)
            out = base_(self_t, *a, **k)
            record(p, self_t, "Tensor.bernoulli_")
            return out

        def wrapped_method(self_t, *a, **k):
            p = prob_of(self_t, a, k)
            out = base(self_t, *a, **k)
            record(p, out, "Tensor.bernoulli")
            return out
        torch.bernoulli = wrapped
        torch.Tensor.bernoulli_ = wrapped_inplace
        torch.Tensor.bernoulli = wrapped_method
        return self

    def __exit__(self, *exc):
        torch = self.torch
        torch.bernoulli = self.orig
        for n, old in self.had.items():
            if old is None:
                delattr(torch.Tensor, n)                         # back to the inherited C method
            else:
                setattr(torch.Tensor, n, old)
        return False


def is01(x):
    return bool(np.all((x == 0.0) | (x == 1.0)))


def shp(t):
    """shape of whatever the implementation handed back (None when it has none)"""
    try:
        return tuple(int(x) for x in t.shape)
    except Exception:                                   # noqa: BLE001
        return None


def keeps_shape(ctx, what, case, named):
    """(l) A call never changes the SHAPE of a tensor that belongs to the caller (start state, the larger tensor it is a view
    of, an out= buffer, a tensor handed over for continuation): `named` = [(name, tensor, shape before the call)].  Every use
    of such a tensor after a call (reshape to (chains, nv), boolean-mask indexing) is guarded by this requirement, so that a
    reshaped tensor is a failing input and never an exception inside the harness."""
    bad = {n: {"shape before": list(s0), "shape after": list(shp(t) or ())} for n, t, s0 in named if shp(t) != tuple(s0)}
    return ctx.require(what + ": the caller's tensors keep their shape (the start state is updated IN PLACE or left untouched, "
                       "never reshaped)", not bad, case, bad)


def safe(fn):
    """detail builders must never raise inside the harness"""
    try:
        return fn()
    except Exception as e:                              # noqa: BLE001
        return {"detail unavailable": repr(e)[:200]}


def _as_rows(x, M):
    """view a recorded tensor as (M chains) x (units); None if it cannot be"""
    x = np.asarray(x, dtype=float)
    if x.size == 0 or x.size % M != 0:
        return None
    return x.reshape(M, -1)


def interpret_run(net, calls, v_start, k_min):
    """Interpret the recorded torch.bernoulli calls as block-Gibbs steps from v_start (M x nv), WITHOUT assuming a
    call structure: a call may cover any contiguous block of not-yet-drawn units of the hidden or auxiliary layer
    (either layer first, whole layers, several layers stacked, or one unit at a time), recognised by content: its
    probabilities must be the exact conditionals of those units given the CURRENT visible state; once every latent
    unit of the step is drawn, calls are matched the same way against the exact conditionals of the visible units
    given THIS step's latent draws.  Returns (steps, reason): steps = canonical per-step dicts
    {ph, pa, pv, h, a, v} for every completed step; reason = None or a text saying which call could not be read."""
    M = v_start.shape[0]
    cur = v_start
    steps = []
    rt = getattr(net, "rt", RT)                     # single-precision networks: conditionals are exact up to float32 rounding
    layers = [("h", net.nh)] + ([("a", net.na)] if net.purif else [])

    def new_step():
        exp = {"h": net.exp_ph(cur)}
        if net.purif:
            exp["a"] = net.exp_pa(cur)
        return {"exp": exp, "val": {n: np.full((M, sz), np.nan) for n, sz in layers},
                "req": {n: np.full((M, sz), np.nan) for n, sz in layers},
                "pv": np.full((M, net.nv), np.nan), "v": np.full((M, net.nv), np.nan), "expv": None}

    st = new_step()
    orders = [layers, layers[::-1]] if net.purif else [layers]
    for ci, c in enumerate(calls):
        P, D = _as_rows(c["p"], M), _as_rows(c["out"], M)
        if P is None or D is None or P.shape != D.shape:
            return steps, "call %d: tensor of shape %s cannot be read as draws for %d chains" % (ci, list(np.shape(c["p"])), M)
        m = P.shape[1]
        latent_open = any(np.isnan(st["val"][n]).any() for n, _ in layers)
        placed = False
        if latent_open:
            for order in orders:
                seq = [(n, j) for n, sz in order for j in range(sz)]
                for start in range(len(seq) - m + 1):
                    cols = seq[start:start + m]
                    if any(not np.isnan(st["val"][n][0, j]) for n, j in cols):
                        continue
                    E = np.stack([st["exp"][n][:, j] for n, j in cols], axis=1)
                    if close_rel(P, E, rtol=rt, atol=1e-12 if rt <= RT else rt * 1e-2):
                        for q, (n, j) in enumerate(cols):
                            st["val"][n][:, j] = D[:, q]
                            st["req"][n][:, j] = P[:, q]
                        placed = True
                        break
                if placed:
                    break
            if not placed:
                return steps, ("call %d (%d units per chain) in step %d is not the exact conditional of any block of "
                               "not-yet-drawn hidden%s units given the current visible state"
                               % (ci, m, len(steps), "/auxiliary" if net.purif else ""))
            if not all(is01(st["val"][n][~np.isnan(st["val"][n])]) for n, _ in layers):
                return steps, "call %d: latent draw is not 0/1" % ci
            continue
        if st["expv"] is None:
            st["expv"] = net.exp_pv(st["val"]["h"], st["val"]["a"] if net.purif else None)
        for start in range(net.nv - m + 1):
            if not np.isnan(st["v"][0, start:start + m]).all():
                continue
            if close_rel(P, st["expv"][:, start:start + m], rtol=rt, atol=1e-12 if rt <= RT else rt * 1e-2):
                st["v"][:, start:start + m] = D
                st["pv"][:, start:start + m] = P
                placed = True
                break
        if not placed:
            return steps, ("call %d (%d units per chain) in step %d is not the exact conditional of any block of "
                           "not-yet-drawn visible units given this step's latent draws" % (ci, m, len(steps)))
        if not np.isnan(st["v"]).any():
            if not is01(st["v"]):
                return steps, "call %d: visible draw is not 0/1" % ci
            steps.append({"ph": st["req"]["h"], "pa": st["req"].get("a"), "pv": st["pv"],
                          "h": st["val"]["h"], "a": st["val"].get("a"), "v": st["v"]})
            cur = st["v"]
            st = new_step()
    return steps, None


def verify_run(ctx, net, case, calls, v_start, result, k, what):
    """Returns the canonical steps (list, possibly empty for k = 0) when the run is tied draw by draw to the exact
    conditionals and the result is the visible state after exactly k steps; None otherwise (an oracle failure has been
    recorded, or the call structure could not be interpreted and the net falls back to the statistical law test)."""
    M = v_start.shape[0]
    res2 = _as_rows(result, M)
    if res2 is None or res2.shape != (M, net.nv):
        return None                                  # shape failure is reported by the caller
    steps, reason = interpret_run(net, calls, v_start, k)
    states = [v_start] + [s["v"] for s in steps]
    if reason is None and len(steps) >= k and np.array_equal(res2, states[k]):
        if len(steps) > k or len(calls) == 0 and k > 0:
            ctx.count("extra_draws_after_result")
        return steps[:k]
    if reason is None and len(steps) > k and any(np.array_equal(res2, states[j]) for j in range(k + 1, len(steps) + 1)):
        j = [j for j in range(k + 1, len(steps) + 1) if np.array_equal(res2, states[j])][0]
        ctx.require(what + ": exactly k block-Gibbs steps", False, case,
                    "every draw is an exact conditional, but the result is the visible state after %d steps, not %d" % (j, k))
        return None
    if reason is None and len(steps) >= k and len(calls) > 0:
        # CONTENT TIE, no statistics needed: every recorded call is the exact conditional of a chain of >= k complete
        # block-Gibbs steps that starts in the caller's start state (each step conditioned on the previous step's visible
        # draw), so the sampler DID run the k steps -- but what it hands back is not the visible state after step k
        # (nor after a later step).  "Returns the visible states after k steps" is violated on this very input.
        earlier = [j for j in range(0, k) if np.array_equal(res2, states[j])]
        ctx.require(what + ": the returned sample is the visible state after the k-th block-Gibbs step", False, case,
                    {"reading": "all %d torch.bernoulli calls are exact conditionals forming %d complete steps from the start state"
                                % (len(calls), len(steps)),
                     "returned": res2.tolist(), "visible state after step k": states[k].tolist(),
                     "returned equals the state after step": earlier[0] if earlier else None,
                     "returned equals the start state": bool(np.array_equal(res2, v_start))})
        ctx.count("stale_result_by_content")
        return None
    # the structure of the torch.bernoulli calls could not be tied to k exact block-Gibbs steps.  This breaks the
    # correspondence (not yet the property: draws may be made by other means); the net falls back to the end-to-end
    # statistical test of the k-step law, which yields the failing input if the law is wrong.
    if not getattr(net, "unobserved", False):
        ctx.disagreements.append({"what": what + ": torch.bernoulli calls cannot be read as k exact block-Gibbs steps "
                                                 "(decided by the statistical law test instead)", "case": case,
                                  "detail": reason or ("%d complete steps read from %d calls, result is not the visible state "
                                                       "after step %d" % (len(steps), len(calls), k))})
    net.unobserved = True
    ctx.count("bernoulli_not_interpretable")
    return None


def model_replay(ctx, net, case, steps, v_start, res2, k, overwrite, same_dtype, v_after2, max_rows=3):
    """Replay the (canonically ordered) recorded draws through the model's deterministic sampler and storage model."""
    m = ctx.get_model()
    fn = "c05_p_gibbs" if net.purif else "c05_b_gibbs"
    keys = (("ph", "h"), ("pa", "a"), ("pv", "v")) if net.purif else (("ph", "h"), ("pv", "v"))
    for i in range(min(v_start.shape[0], max_rows)):
        draws = [s[d][i].tolist() for s in steps for _, d in keys]
        probs = [s[q][i] for s in steps for q, _ in keys]
        fin, reqs = m.call(fn, *net.params, k, v_start[i].tolist(), draws)
        ctx.agree_exact("sampler: number of probability vectors requested in k steps", len(probs), len(reqs), case)
        for j, (pq, rq) in enumerate(zip(probs, reqs)):
            ctx.agree("sampler: conditional used for draw %d (canonical order)" % j, pq, rq, case, rtol=net.rt,
                      atol=1e-12 if net.rt <= RT else net.rt * 1e-2)
        ctx.agree_exact("sampler: final state", [float(x) for x in res2[i]], [float(x) for x in fin], case)
        hp, ret = m.call("c05_call", net.per - 1, overwrite, same_dtype, k, [v_start[i].tolist()], 0, draws)
        ctx.agree_exact("storage: caller's tensor after the call", [float(x) for x in v_after2[i]], [float(x) for x in hp[0]], case)
        ctx.agree_exact("storage: returned tensor content", [float(x) for x in res2[i]], [float(x) for x in hp[int(ret)]], case)
    ctx.traces += 1


def one_run(ctx, net, k, overwrite, v0, via, seed, form="2d", outer=None):
    """One call of sample / gibbs_steps with a given start tensor; all checks of part (c). Returns the result tensor.
    outer = (pool, outside_mask): v0 is a view of the caller's larger tensor `pool`; the cells of the pool that do not
    belong to the view must keep their values."""
    import torch
    dt = str(v0.dtype).replace("torch.", "")
    non_double = (v0.dtype != torch.double)
    other_dtype = (v0.dtype != net.wdtype)          # the chain runs in the dtype of the weights: .to(weights) copies
    case = net.case(part="sampler", k=k, overwrite=overwrite, via=via, torch_seed=seed, start_form=form,
                    start_dtype=dt, non_double_start=non_double, initial_state=tnp(v0).tolist(),
                    start_strides=list(v0.stride()), start_contiguous=bool(v0.is_contiguous()))
    what = "%s(k=%d, overwrite=%s)" % (via, k, overwrite)
    before = v0.detach().clone()
    pool_before = outer[0].detach().clone() if outer is not None else None
    ptr = v0.data_ptr()
    shape0 = tuple(v0.shape)                        # the REQUESTED shape, read before the call (the call may reshape v0)
    owned = [("start state", v0, shape0)] + ([("larger tensor the start state is a view of", outer[0], tuple(outer[0].shape))]
                                             if outer is not None else [])
    case["start_shape"] = list(shape0)
    torch.manual_seed(seed)
    with BernoulliSpy() as spy:
        if via == "sample":
            ok, res = ctx.call(what, case, lambda: net.state.sample(k, initial_state=v0, overwrite=overwrite))
        elif via == "sample(num_samples ignored)":
            ok, res = ctx.call(what, case, lambda: net.state.sample(k, 7, initial_state=v0, overwrite=overwrite))
        else:
            ok, res = ctx.call(what, case, lambda: net.rbm.gibbs_steps(k, v0, overwrite=overwrite))
    ctx.count("run:%s:k=%d:ow=%s" % (via, k, overwrite))
    ctx.count("start:%s:%s" % (form, dt))
    if not ok:
        return None
    kept = keeps_shape(ctx, what, case, owned)
    if not ctx.require(what + ": returns a tensor", isinstance(res, torch.Tensor), case, type(res).__name__):
        return None
    result = tnp(res)
    if not ctx.require(what + ": result is a 0/1 array with the shape of the start state (chains..., nv)",
                       tuple(result.shape) == shape0 and is01(result), case,
                       {"shape": list(result.shape), "start shape": list(shape0)}) or not kept:
        return None                                 # everything below reshapes / indexes the result and the caller's tensors
    M = int(np.prod(shape0[:-1])) if len(shape0) > 1 else 1
    start2 = tnp(before).reshape(M, net.nv)
    res2 = result.reshape(M, net.nv)
    if k == 0:
        # kernel^0 is the identity: zero steps return the start state itself
        if not ctx.require(what + ": k = 0 returns the start state", bool(np.array_equal(res2, start2)), case,
                           {"start": start2.tolist(), "result": res2.tolist()}):
            return None
    steps = verify_run(ctx, net, case, spy.calls, start2, res2, k, what)
    same = (res.data_ptr() == ptr)
    ctx.count("returns_callers_storage:%s:%s" % ("overwrite" if overwrite else "no-overwrite", same))
    after2 = tnp(v0).reshape(M, net.nv)
    if outer is not None and form in LAYOUTS and form != "expanded":
        # the caller's start state = those memory cells (read through a fresh view, not through the object handed over)
        after2 = tnp(fresh_view(form, outer[0], M, net.nv)).reshape(M, net.nv)
    good = True
    if overwrite:
        # the statement: "... unless overwriting was requested, and then it is updated in place"
        good &= ctx.require("overwrite=True updates the caller's start state in place",
                            bool(np.array_equal(after2, res2)), case,
                            {"call": what, "caller after": after2.tolist(), "result": res2.tolist(), "caller before": start2.tolist()})
        if steps is not None and k > 0:
            # content tie for the caller's buffer itself (the returned tensor may BE the caller's tensor, which makes the
            # comparison above vacuous): it must hold the last visible draw of the k steps that were run
            good &= ctx.require("overwrite=True leaves the final chain state (visible draw of step k) in the caller's tensor",
                                bool(np.array_equal(after2, steps[-1]["v"])), case,
                                {"call": what, "caller after": after2.tolist(), "visible state after step k": steps[-1]["v"].tolist(),
                                 "caller before": start2.tolist()})
    else:
        good &= ctx.require(what + ": overwrite=False leaves the caller's start state untouched",
                            bool(torch.equal(v0, before)), case, {"before": start2.tolist(), "after": after2.tolist()})
    if outer is not None:
        mask = outer[1]
        good &= ctx.require(what + ": cells of the caller's larger tensor outside the start-state view keep their values",
                            bool(np.array_equal(tnp(outer[0])[mask], tnp(pool_before)[mask])), case,
                            {"pool shape": list(outer[0].shape)})
    if steps is not None and (good or other_dtype):
        model_replay(ctx, net, case, steps, start2, res2, k, overwrite, not other_dtype, after2,
                     max_rows=3 if outer is None else 2)
    # a tensor of samples handed back by an EARLIER overwrite=False call belongs to the caller: it keeps its values when the sampler
    # is used again (unless the caller himself passes it back with overwrite=True)
    prev = getattr(net, "_earlier_result", None)
    net._earlier_result = None
    if prev is not None:
        p_t, p_keep, p_what = prev
        handed_back = overwrite and _same_storage(p_t, v0)
        if not handed_back:
            ctx.count("alias_probe:earlier result re-read after a later call")
            ctx.require("samples returned by an earlier overwrite=False call keep their values when the sampler is called again "
                        "(a returned tensor must not share memory with the library's later results)", bool(torch.equal(p_t, p_keep)),
                        dict(case, earlier_call=p_what), {"earlier result when it was returned": tnp(p_keep).tolist(),
                                                          "earlier result now": tnp(p_t).tolist(), "later call": what})
    if not overwrite:
        result_is_private(ctx, net, case, what, res, via,
                          lambda: bool(torch.equal(v0, before)) and
                          (outer is None or bool(np.array_equal(tnp(outer[0]), tnp(pool_before)))),
                          lambda: safe(lambda: {
                              "start state before": start2.tolist(),
                              "start state now": (tnp(fresh_view(form, outer[0], M, net.nv)) if outer is not None and form in LAYOUTS
                                                  else tnp(v0)).reshape(M, net.nv).tolist(),
                              "returned tensor is the caller's tensor object": res is v0,
                              "returned tensor starts at the caller's memory address": same}), owned=owned)
        if isinstance(res, torch.Tensor):
            net._earlier_result = (res, res.detach().clone(), what)
    return res


def _same_storage(a, b):
    try:
        return a.untyped_storage().data_ptr() == b.untyped_storage().data_ptr()
    except Exception:                                   # noqa: BLE001 - older torch
        return a.storage().data_ptr() == b.storage().data_ptr()


def result_is_private(ctx, net, case, what, res, via, start_untouched, detail, owned=()):
    """(k) A call with overwrite=False hands back the chain states; the caller's start state "is left untouched unless
    overwriting was requested" -- for THIS call and for whatever the caller does next with what he got back.  A single call
    cannot show a result that still shares memory with the start state (k = 0: nothing was written; values, shape and law
    are right at the moment of return).  So every overwrite=False run is followed by the two ordinary uses of a returned
    tensor, after each of which the caller's start state (and, for a view, the whole of the caller's larger tensor) is
    compared with its copy taken before the call:
      1. the returned tensor is changed IN PLACE (2 added to every entry, then restored);
      2. the chain is CONTINUED from the returned tensor with overwrite=True (overwriting was requested for the returned
         tensor, never for the original start state) -- one more step through the same entry point.
    `start_untouched()` -> bool reads the caller's memory afresh.  A result that cannot be written in place (it raises) is
    counted, not reported: the statement does not promise writable results."""
    import torch
    if not isinstance(res, torch.Tensor):
        return True
    good = True
    keep = res.detach().clone()
    try:
        res.add_(2)
        edited = True
    except Exception:                                   # noqa: BLE001 - e.g. a self-overlapping (expanded) result
        ctx.count("alias_probe:result_not_writable_in_place")
        return True
    if edited:
        ctx.count("alias_probe:in-place edit of the result")
        good &= ctx.require(what + ": overwrite=False leaves the caller's start state untouched when the RETURNED tensor is "
                            "afterwards changed in place (the result must not share memory with the start state)",
                            start_untouched(), dict(case, followed_by="returned.add_(2)"), detail())
        try:
            res.copy_(keep)
        except Exception:                               # noqa: BLE001
            return good
    rbm_call = (via == "gibbs_steps")
    ok, _ = ctx.call(what + " then %s(1, <the returned tensor>, overwrite=True)" % ("gibbs_steps" if rbm_call else "sample"),
                     dict(case, followed_by="chain continued from the returned tensor with overwrite=True"),
                     (lambda: net.rbm.gibbs_steps(1, res, overwrite=True)) if rbm_call else
                     (lambda: net.state.sample(1, initial_state=res, overwrite=True)))
    if ok:
        ctx.count("alias_probe:chain continued from the result with overwrite=True")
        # the returned tensor is now the caller's start state of an overwrite=True call: updated in place, never reshaped
        good &= keeps_shape(ctx, what + " then the chain continued from the returned tensor with overwrite=True",
                            dict(case, followed_by="chain continued from the returned tensor with overwrite=True"),
                            [("returned tensor handed back as start state", res, tuple(keep.shape))] + list(owned))
        good &= ctx.require(what + ": overwrite=False leaves the caller's start state untouched when the chain is afterwards "
                            "CONTINUED from the returned tensor with overwrite=True (overwriting was never requested for the "
                            "original start state)", start_untouched(),
                            dict(case, followed_by="chain continued from the returned tensor with overwrite=True"), detail())
    return good


# ---- start-state LAYOUTS: how a caller may hold the (chains..., nv) start state inside a larger tensor of his own.
# name -> (shape of the caller's pool for M chains of nv units, view of the pool that is the start state, constraint)
# constraint: "M1" one chain (1-D start state), "even" M even, "same" all chains equal + overwrite=False only (stride 0:
# torch refuses in-place writes into self-overlapping tensors), None otherwise.
LAYOUTS = {
    "contiguous":          (lambda M, nv: (M, nv),          lambda p, M, nv: p,                      None),
    "col-stride":          (lambda M, nv: (M, 2 * nv),      lambda p, M, nv: p[:, ::2],              None),
    "col-block":           (lambda M, nv: (M, nv + 2),      lambda p, M, nv: p[:, 1:nv + 1],         None),
    "col-block0":          (lambda M, nv: (M, nv + 3),      lambda p, M, nv: p[:, :nv],              None),
    "row-stride":          (lambda M, nv: (2 * M, nv),      lambda p, M, nv: p[::2],                 None),
    "row-offset":          (lambda M, nv: (M + 2, nv),      lambda p, M, nv: p[1:M + 1],             None),
    "transposed":          (lambda M, nv: (nv, M),          lambda p, M, nv: p.t(),                  None),
    "transposed-block":    (lambda M, nv: (nv + 1, M + 1),  lambda p, M, nv: p[1:, :M].t(),          None),
    "expanded":            (lambda M, nv: (1, nv),          lambda p, M, nv: p.expand(M, nv),        "same"),
    "1d":                  (lambda M, nv: (nv,),            lambda p, M, nv: p,                      "M1"),
    "1d-strided":          (lambda M, nv: (3, 2 * nv),      lambda p, M, nv: p[1, ::2],              "M1"),
    "1d-column":           (lambda M, nv: (nv, 3),          lambda p, M, nv: p[:, 1],                "M1"),
    "3d":                  (lambda M, nv: (2, M // 2, nv),  lambda p, M, nv: p,                      "even"),
    "3d-lastdim-permuted": (lambda M, nv: (nv, 2, M // 2),  lambda p, M, nv: p.permute(1, 2, 0),     "even"),
    "3d-col-block":        (lambda M, nv: (2, M // 2, nv + 2), lambda p, M, nv: p[:, :, 1:nv + 1],   "even"),
    "3d-batch-permuted":   (lambda M, nv: (M // 2, 2, nv),  lambda p, M, nv: p.permute(1, 0, 2),     "even"),
}
LAYOUTS_2D = ("contiguous", "col-stride", "col-block", "col-block0", "row-stride", "row-offset", "transposed",
              "transposed-block", "expanded")
# every dtype the unchanged library accepts for a 0/1 start state (it converts with .to(weights))
DTYPES = ("float64", "float32", "float16", "bfloat16", "int64", "int32", "int16", "int8", "uint8", "bool")
# Two start-state forms FAIL ON THE UNCHANGED TREE (found while closing seed C05d; both come from torch.matmul(..., out=<the
# caller's tensor>) inside prob_v_given_h / prob_v_given_ha):
#   * a 3-D start state whose BATCH dimensions are permuted (t.permute(1, 0, 2)): sample raises RuntimeError;
#   * a 1-D start state that is a strided view (a column / every second entry of a row of a larger tensor) with
#     overwrite=True: the (1, nv) matmul result does not fit the (nv,) out tensor, torch RESIZES the caller's tensor object
#     (its stride becomes 1) and the chain state is written into the neighbouring cells of the caller's storage; the cells
#     of the start state itself are not (all) updated.
# They are generated and probed every time.  A failure is routed through ctx.require (stable `what`, case key
# "pending_finding") when /verif/known_findings.json has an open entry whose match names that key (it then prints as
# KNOWN-FINDING); until one is filed it is recorded in the evidence file under extra["unfiled_findings"] and counted
# ("UNFILED-FINDING:..."), not reported as a violation of this run.  Once the library handles the form, the probe passes
# and the form gets the full set of checks.
PENDING = {"3d-batch-permuted": ("C05-3d-batch-permuted-start", lambda overwrite: True),
           "1d-strided": ("C05-1d-strided-view-overwrite", lambda overwrite: bool(overwrite)),
           "1d-column": ("C05-1d-strided-view-overwrite", lambda overwrite: bool(overwrite))}


def make_start(layout, rows, dtype="float64"):
    """rows: (M, nv) numpy 0/1.  Returns (start tensor = view of pool, pool, outside_mask) in the given layout."""
    import torch
    dt = getattr(torch, dtype)
    rows = np.atleast_2d(np.asarray(rows, dtype=float))
    M, nv = rows.shape
    shape_fn, view_fn, _ = LAYOUTS[layout]
    # cells outside the view hold 7 (never a value the sampler writes), 1 for bool
    pool = torch.full(tuple(shape_fn(M, nv)), 1 if dt == torch.bool else 7, dtype=dt)
    view = view_fn(pool, M, nv)
    marker = torch.zeros(*shape_fn(M, nv), dtype=torch.int64)
    mview = view_fn(marker, M, nv)
    src = torch.tensor(rows, dtype=torch.double)
    if layout == "expanded":
        pool.copy_(src[:1].to(dt)); marker.fill_(1)
    else:
        view.copy_(src.reshape(view.shape).to(dt)); mview.fill_(1)
    return view, pool, (marker.numpy() == 0)


def fresh_view(layout, pool, M, nv):
    """the start state re-derived from the caller's pool (the memory cells, not the tensor object handed to the library)"""
    return LAYOUTS[layout][1](pool, M, nv)


def probe_pending(ctx, net, form, rows, dtype, overwrite):
    """One sample(1, ...) call on a form listed in PENDING.  True: the form works (run the full checks on it)."""
    tag = PENDING[form][0]
    M, nv = np.atleast_2d(rows).shape
    v0, pool, mask = make_start(form, rows, dtype)
    case = net.case(part="sampler", start_form=form, start_dtype=dtype, overwrite=overwrite, pending_finding=tag,
                    initial_state=np.asarray(rows).tolist(), start_strides=list(v0.stride()), pool_shape=list(pool.shape))
    pool_before = tnp(pool)
    detail = None
    try:
        res = net.state.sample(1, initial_state=v0, overwrite=overwrite)
        r = tnp(res).reshape(M, nv)
        cells = tnp(fresh_view(form, pool, M, nv)).reshape(M, nv)
        if not np.array_equal(tnp(pool)[mask], pool_before[mask]):
            detail = {"problem": "cells of the caller's tensor outside the start-state view were modified",
                      "pool before": pool_before.tolist(), "pool after": tnp(pool).tolist(), "result": r.tolist(),
                      "stride of the caller's tensor object after the call": list(v0.stride())}
        elif [st for st, sz in zip(v0.stride(), v0.shape) if sz > 1] != \
                [st for st, sz in zip(case["start_strides"], v0.shape) if sz > 1]:      # (the stride of a size-1 axis means nothing)
            detail = {"problem": "the caller's tensor object was re-strided by the call", "strides before": case["start_strides"],
                      "strides after": list(v0.stride())}
        elif overwrite and not np.array_equal(cells, r):
            detail = {"problem": "the memory cells of the start state do not hold the result", "cells": cells.tolist(), "result": r.tolist()}
        elif not overwrite and not np.array_equal(cells, np.atleast_2d(rows)):
            detail = {"problem": "overwrite=False modified the start state"}
    except Exception as e:                                       # noqa: BLE001 - any exception is the finding
        detail = {"problem": "raised " + repr(e)[:300]}
    if detail is None:
        ctx.count("pending_form_works:" + form)
        return True
    what = "sample accepts a start state in layout %s (overwrite=%s) and updates exactly its cells" % (form, overwrite)
    filed = any(k.get("status") == "open" and (k.get("match") or {}).get("pending_finding") == tag for k in getattr(ctx, "known", []))
    if filed:
        ctx.require(what, False, case, detail)
    else:
        ctx.count("UNFILED-FINDING:%s:overwrite=%s" % (tag, overwrite))
        lst = ctx.extra.setdefault("unfiled_findings", [])
        if not any(x["case"]["pending_finding"] == tag for x in lst):
            lst.append({"what": what, "case": case, "detail": detail})
    return False


def layout_runs(ctx, net, full, k_fixed=None):
    """(c) for every start-state layout and dtype: content tie of one call on a handful of chains (k = k_fixed, else drawn from
    1..3 in the fixed first block -- which runs a separate k = 0 pass -- and from 0..3 in the random stream)."""
    import torch
    rng = ctx.rng
    names = [n for n in LAYOUTS if n != "contiguous"]
    if not full:
        names = list(rng.choice(names, size=4, replace=False))
        for must in ("col-block0", "transposed"):
            if must not in names and rng.random() < 0.5:
                names.append(must)
    vias = ("sample", "gibbs_steps", "sample(num_samples ignored)")
    n = 0
    for name in names:
        cons = LAYOUTS[name][2]
        M = 1 if cons == "M1" else 4
        for overwrite in (False, True):
            if cons == "same" and overwrite:
                continue
            rows = net.V[rng.integers(len(net.V), size=M)]
            if cons == "same":
                rows = np.repeat(rows[:1], M, axis=0)
            dtype = "float64" if (n % 3) else DTYPES[int(rng.integers(len(DTYPES)))]
            n += 1
            k = int(rng.integers(1 if full else 0, 4)) if k_fixed is None else int(k_fixed)
            v0, pool, mask = make_start(name, rows, dtype)
            via = vias[n % 3]
            if name in PENDING and PENDING[name][1](overwrite) and not probe_pending(ctx, net, name, rows, dtype, overwrite):
                continue
            one_run(ctx, net, k, overwrite, v0, via, ctx.torch_seed(), form=name, outer=(pool, mask))
    # every accepted dtype on a dense start state (and on one view), overwrite on and off
    dts = DTYPES if full else tuple(rng.choice(DTYPES, size=2, replace=False))
    for i, dtype in enumerate(dts):
        for overwrite in (False, True):
            name = "contiguous" if (i + int(overwrite)) % 2 == 0 else ("col-block", "transposed", "row-stride")[i % 3]
            rows = net.V[rng.integers(len(net.V), size=4)]
            v0, pool, mask = make_start(name, rows, dtype)
            k = int(rng.integers(1 if full else 0, 4)) if k_fixed is None else int(k_fixed)
            one_run(ctx, net, k, overwrite, v0, vias[i % 3], ctx.torch_seed(), form=name, outer=(pool, mask))


def check_sampler(ctx, net, ks=(0, 1, 2, 3), full=False):
    import torch
    rng = ctx.rng
    N = 3
    for k in ks:
        for overwrite in (False, True):
            rows = net.V[rng.integers(len(net.V), size=N)]
            v0 = torch.tensor(rows, dtype=torch.double)
            via = "sample" if (k + int(overwrite)) % 2 == 0 or net.kind != "positive" else "gibbs_steps"
            r1 = one_run(ctx, net, k, overwrite, v0, via, ctx.torch_seed())
            if r1 is None:
                continue
            # chain continued across calls: the second call starts from the first call's result
            if k in (1, 2):
                k2 = int(rng.integers(1, 3))
                one_run(ctx, net, k2, overwrite, r1, "sample", ctx.torch_seed())
    # k = 0 without overwriting through the other entry points too, and on a single chain in the 1-D form (each followed by
    # the in-place uses of the returned tensor, see result_is_private)
    for via in ("gibbs_steps", "sample(num_samples ignored)"):
        one_run(ctx, net, 0, False, torch.tensor(net.V[rng.integers(len(net.V), size=N)], dtype=torch.double), via, ctx.torch_seed())
    one_run(ctx, net, 0, False, torch.tensor(net.V[int(rng.integers(len(net.V)))], dtype=torch.double),
            ("sample", "gibbs_steps")[int(rng.integers(2))], ctx.torch_seed(), form="1d")
    # gibbs_steps called directly on the RBM, all start states at once
    v0 = torch.tensor(net.V, dtype=torch.double)
    one_run(ctx, net, 1, False, v0, "gibbs_steps", ctx.torch_seed())
    # other forms of start tensor: every accepted dtype / 1-D / 3-D / non-contiguous views of a larger tensor, overwrite on and off
    layout_runs(ctx, net, full)
    # sample(k, num_samples) without initial_state: shape, 0/1; the chain is tied to the start state when that is observable
    for k, n in ((0, 4), (2, 5), (1, None)):
        case = net.case(part="sampler", k=k, num_samples=n, via="sample(num_samples)")
        what = "sample(k=%d, num_samples=%s)" % (k, n)
        seed = ctx.torch_seed()
        with BernoulliSpy() as spy:
            if n is None:                               # default: one sample
                ok, res = ctx.call(what, case, lambda: net.state.sample(k))
                n = 1
            else:
                ok, res = ctx.call(what, case, lambda: net.state.sample(k, n))
        if not ok:
            continue
        result = tnp(res) if hasattr(res, "detach") else np.asarray(res)
        if not ctx.require(what + ": result has shape (num_samples, nv) with 0/1 entries",
                           result.shape == (n, net.nv) and is01(result), case, {"shape": list(result.shape)}):
            continue
        calls = spy.calls
        tied = False
        if calls and np.shape(calls[0]["out"]) == (n, net.nv) and is01(calls[0]["out"]):
            steps, reason = interpret_run(net, calls[1:], calls[0]["out"], k)
            states = [calls[0]["out"]] + [s["v"] for s in steps]
            tied = reason is None and len(steps) >= k and np.array_equal(result, states[k])
            ctx.count("start_distribution_p=%s" % ("0.5" if np.all(calls[0]["p"] == 0.5) else "other"))
        if tied:
            ctx.traces += 1
        else:
            # not tied draw by draw to exactly k steps from its own start draw: decided by the law test conditional on
            # the start draw (nothing is demanded of the start distribution itself)
            ctx.count("random_start_run_not_tied_to_draws")
            net.random_start_untied = True


# ----------------------------------------------------------------------------- (d) statistical test
def check_statistical(ctx, net, n_chains=200000):
    import torch
    if not hasattr(net, "K_impl"):
        return
    eps = math.sqrt(math.log(2.0 / HOEFFDING_DELTA) / (2.0 * n_chains))
    for k in (1, 2):
        s0 = int(ctx.rng.integers(len(net.V)))
        seed = ctx.torch_seed()
        case = net.case(part="statistical test", k=k, start=net.V[s0].tolist(), torch_seed=seed, chains=n_chains)
        v0 = torch.tensor(np.repeat(net.V[s0:s0 + 1], n_chains, axis=0), dtype=torch.double)
        ok, res = ctx.call("sample for the statistical test", case, lambda: net.state.sample(k, initial_state=v0))
        if not ok:
            continue
        r = tnp(res) if isinstance(res, torch.Tensor) else np.zeros(0)
        if r.shape != (n_chains, net.nv) or not is01(r):
            ctx.require("statistical test: samples are 0/1 of shape (chains, nv)", False, case, list(r.shape))
            continue
        freq = np.bincount(idx_of(r), minlength=len(net.V)) / float(n_chains)
        law = np.linalg.matrix_power(net.K_exact, k)[s0]
        dev = float(np.max(np.abs(freq - law)))
        ctx.require("STATISTICAL TEST (Hoeffding, delta=1e-9 per cell): empirical law of sample(k, initial_state) == kernel^k",
                    dev <= eps, case, {"empirical": freq.tolist(), "kernel^k row": law.tolist(), "max deviation": dev, "bound": eps})
        ctx.count("statistical_cells", len(net.V))
        ctx.extra.setdefault("statistical_test", []).append(
            {"state": net.kind, "nv": net.nv, "k": k, "chains": n_chains, "max_deviation": dev, "hoeffding_bound": eps})


def hoeffding_eps(n):
    return math.sqrt(math.log(2.0 / HOEFFDING_DELTA) / (2.0 * max(int(n), 1)))


def law_by_start(ctx, net, what, case, start2, res2, k, segments=None, min_rows=800):
    """STATISTICAL TEST: for every start state s (and every row segment), the empirical law of the final states of the
    chains started in s must be row s of kernel^k (Hoeffding bound, delta = 1e-9 per cell, for the group size)."""
    M = start2.shape[0]
    Kk = np.linalg.matrix_power(net.K_exact, k)
    si, ri = idx_of(start2), idx_of(res2)
    segments = segments or [("all rows", 0, M)]
    worst = None
    for name, lo, hi in segments:
        for s in range(len(net.V)):
            rows = np.nonzero(si[lo:hi] == s)[0] + lo
            if len(rows) < min_rows:
                continue
            freq = np.bincount(ri[rows], minlength=len(net.V)) / float(len(rows))
            dev, eps = float(np.max(np.abs(freq - Kk[s]))), hoeffding_eps(len(rows))
            ctx.count("statistical_cells", len(net.V))
            if worst is None or dev - eps > worst[0]:
                worst = (dev - eps, name, s, len(rows), freq, dev, eps)
    if worst is None:
        return True
    _, name, s, nrows, freq, dev, eps = worst
    return ctx.require(what, dev <= eps, case,
                       {"segment": name, "start": net.V[s].tolist(), "chains in group": nrows, "empirical": freq.tolist(),
                        "kernel^k row": Kk[s].tolist(), "max deviation": dev, "bound": eps})


def check_random_start(ctx, net, n_chains=200000):
    """sample(k, num_samples) WITHOUT initial_state: given the start state it drew (first torch.bernoulli result of shape
    (num_samples, nv)), the result must follow kernel^k.  Nothing is demanded of the start distribution."""
    for k in (1, 2):
        seed = ctx.torch_seed()
        case = net.case(part="statistical test (random start)", k=k, num_samples=n_chains, torch_seed=seed)
        with BernoulliSpy() as spy:
            if k == 1:
                ok, res = ctx.call("sample(k, num_samples)", case, lambda: net.state.sample(k, n_chains))
            else:
                ok, res = ctx.call("sample(k=, num_samples=)", case, lambda: net.state.sample(k=k, num_samples=n_chains))
        if not ok:
            continue
        r = tnp(res) if hasattr(res, "detach") else np.zeros(0)
        if not ctx.require("sample(k, num_samples): result has shape (num_samples, nv) with 0/1 entries",
                           r.shape == (n_chains, net.nv) and is01(r), case, list(r.shape)):
            continue
        c0 = spy.calls[0]["out"] if spy.calls else None
        if c0 is None or np.shape(c0) != (n_chains, net.nv) or not is01(c0):
            ctx.count("random_start_not_observed")
            continue
        law_by_start(ctx, net, "STATISTICAL TEST (Hoeffding, delta=1e-9 per cell): law of sample(k, num_samples) given its own "
                     "start draw == kernel^k (exactly k steps after the start state is drawn)", case, c0, r, k)
        ctx.extra["random_start_tests"] = ctx.extra.get("random_start_tests", 0) + 1


def check_big_batch(ctx, net, reps=4796):
    """More chains than any plausible block size: 2^nv * 4796 rows cycling through all start states.  Trace tie as usual;
    the law is tested separately on 16 consecutive segments of the rows, so that no part of a large batch is exempt."""
    import torch
    if net.nv < 2:
        return
    M = len(net.V) * reps
    start = np.tile(net.V, (reps, 1))
    for k, overwrite in ((1, False), (2, True)):
        v0 = torch.tensor(start, dtype=torch.double)
        seed = ctx.torch_seed()
        case = net.case(part="large batch", k=k, overwrite=overwrite, chains=M, torch_seed=seed,
                        start="all 2^nv states repeated %d times" % reps)
        what = "sample(k=%d, initial_state=<%d chains>, overwrite=%s)" % (k, M, overwrite)
        with BernoulliSpy() as spy:
            ok, res = ctx.call(what, case, lambda: net.state.sample(k, initial_state=v0, overwrite=overwrite))
        if not ok:
            continue
        r = tnp(res) if isinstance(res, torch.Tensor) else np.zeros(0)
        kept = keeps_shape(ctx, what, case, [("start state", v0, (M, net.nv))])
        if not ctx.require(what + ": result is a 0/1 array with the shape of the start state", r.shape == (M, net.nv) and is01(r),
                           case, list(r.shape)) or not kept:
            continue
        if overwrite:
            ctx.require("overwrite=True updates the caller's start state in place", bool(np.array_equal(tnp(v0), r)), case,
                        {"call": what})
        else:
            ctx.require(what + ": overwrite=False leaves the caller's start state untouched",
                        bool(np.array_equal(tnp(v0), start)), case)
        steps = verify_run(ctx, net, case, spy.calls, start, r, k, what)
        if steps is not None:
            ctx.traces += 1
        # M = 2^nv * 4796 leaves a remainder of several hundred to several thousand rows for block sizes 1000, 1024,
        # 2048, 4096, 5000, 8192, 10000; 16 segments of ~300 chains per start state each
        q = M // 16
        segs = [("rows %d..%d" % (i * q, (i + 1) * q if i < 15 else M), i * q, (i + 1) * q if i < 15 else M) for i in range(16)]
        law_by_start(ctx, net, "STATISTICAL TEST (Hoeffding, delta=1e-9 per cell): every part of a large batch of chains follows "
                     "kernel^k", case, start, r, k, segments=segs, min_rows=150)
        ctx.count("large_batch_runs")


def check_independence(ctx, net, n=20000, n_law=100000):
    """Successive calls (NO reseeding in between) and different chains of one call use independent randomness:
    (i) two sample(1, v0) calls on equal rows agree row-wise with probability q = sum_s K(v0,s)^2;
    (ii) neighbouring rows of one call agree with the same probability; (iii) the k = 2 law as two 1-step calls."""
    import torch
    K = net.K_exact
    s0 = int(ctx.rng.integers(len(net.V)))
    seed = ctx.torch_seed()
    case = net.case(part="independence of calls", start=net.V[s0].tolist(), torch_seed=seed, chains=n)
    v0 = torch.tensor(np.repeat(net.V[s0:s0 + 1], n, axis=0), dtype=torch.double)
    ok, out = ctx.call("two successive sample(1, initial_state) calls", case,
                       lambda: (tnp(net.state.sample(1, initial_state=v0)), tnp(net.state.sample(1, initial_state=v0))))
    if not ok:
        return
    r1, r2 = out
    if r1.shape != (n, net.nv) or r2.shape != (n, net.nv) or not (is01(r1) and is01(r2)):
        return                                      # reported by the trace checks
    q = float(np.sum(K[s0] ** 2))
    agree = float(np.mean(np.all(r1 == r2, axis=1)))
    ctx.require("STATISTICAL TEST (Hoeffding, delta=1e-9): two successive sample(1, v0) calls are independent "
                "(row-wise agreement frequency == sum_s K(v0,s)^2)", abs(agree - q) <= hoeffding_eps(n), case,
                {"agreement": agree, "expected": q, "bound": hoeffding_eps(n), "identical results": bool(np.array_equal(r1, r2))})
    m = (n // 2) * 2
    agree_rows = float(np.mean(np.all(r1[0:m:2] == r1[1:m:2], axis=1)))
    ctx.require("STATISTICAL TEST (Hoeffding, delta=1e-9): different chains of one call are independent "
                "(agreement frequency of neighbouring rows == sum_s K(v0,s)^2)", abs(agree_rows - q) <= hoeffding_eps(m // 2), case,
                {"agreement": agree_rows, "expected": q, "bound": hoeffding_eps(m // 2)})
    # the 2-step law as two 1-step calls (chain continued across calls), no reseeding in between
    vb = torch.tensor(np.repeat(net.V[s0:s0 + 1], n_law, axis=0), dtype=torch.double)
    ok, r = ctx.call("sample(1, initial_state=sample(1, initial_state=v0))", case,
                     lambda: tnp(net.state.sample(1, initial_state=net.state.sample(1, initial_state=vb))))
    if ok and r.shape == (n_law, net.nv) and is01(r):
        law_by_start(ctx, net, "STATISTICAL TEST (Hoeffding, delta=1e-9 per cell): a chain continued across two 1-step calls "
                     "follows kernel^2", dict(case, chains=n_law), tnp(vb), r, 2)
    ctx.count("independence_checked")


def check_layout_law(ctx, net, full, reps=None):
    """STATISTICAL TEST per start-state LAYOUT (always runs; the content tie of layout_runs cannot see a sampler that makes
    its draws by other means or in another decomposition): all 2^nv start states, `reps` chains each, held by the caller
    as a strided / transposed / column-block / expanded view or in another dtype.  The returned tensor -- and with
    overwrite=True the caller's buffer, also after the chains are continued by one more call -- must follow kernel^k row
    by row.  An identity kernel (start state handed back) deviates by 1 - K^k(s,s) in the cell of s."""
    import torch
    rng = ctx.rng
    S = len(net.V)
    reps = reps or (2500 if full else 900)
    eps = hoeffding_eps(reps)
    combos = []
    if full:
        for i, name in enumerate(LAYOUTS_2D):
            for overwrite in (False, True):
                combos.append((name, overwrite, "float64"))
        for j, (name, dtype) in enumerate((("transposed", "float32"), ("col-block0", "int64"), ("col-stride", "uint8"),
                                           ("row-stride", "bool"), ("3d-lastdim-permuted", "float64"),
                                           ("3d-col-block", "float64"), ("transposed-block", "float16"))):
            combos.append((name, bool(j % 2), dtype))
            combos.append((name, not bool(j % 2), dtype))
    else:
        pool_names = [n for n in LAYOUTS_2D if n != "contiguous"] + ["3d-lastdim-permuted", "3d-col-block"]
        for _ in range(2):
            combos.append((str(rng.choice(pool_names)), bool(rng.integers(2)), str(rng.choice(DTYPES)) if rng.random() < 0.3 else "float64"))
    for name, overwrite, dtype in combos:
        cons = LAYOUTS[name][2]
        if cons == "same":
            if overwrite:
                continue
            s0 = int(np.argmin(np.diag(net.K_exact)))
            rows = np.repeat(net.V[s0:s0 + 1], reps * 2, axis=0)
        else:
            rows = np.tile(net.V, (reps, 1))
        M = rows.shape[0]
        k = int(rng.integers(1, 4))
        Kk = np.linalg.matrix_power(net.K_exact, k)
        power = float(np.max(1.0 - np.diag(Kk)))
        ctx.count("layout_law:identity_kernel_%s" % ("rejectable" if power > eps else "too_close_to_kernel^k"))
        v0, pool, mask = make_start(name, rows, dtype)
        seed = ctx.torch_seed()
        case = net.case(part="layout law", k=k, overwrite=overwrite, start_form=name, start_dtype=dtype, chains=M, torch_seed=seed,
                        start_strides=list(v0.stride()), start="all 2^nv states repeated %d times" % reps if cons != "same"
                        else "state %s repeated" % net.V[s0].tolist())
        what = "sample(k=%d, initial_state=<%d chains, layout %s, %s>, overwrite=%s)" % (k, M, name, dtype, overwrite)
        pool_before = tnp(pool)
        shape0 = tuple(v0.shape)
        owned = [("start state", v0, shape0), ("larger tensor the start state is a view of", pool, tuple(pool.shape))]
        ok, res = ctx.call(what, case, lambda: net.state.sample(k, initial_state=v0, overwrite=overwrite))
        ctx.count("layout_law:%s:%s:ow=%s" % (name, dtype, overwrite))
        if not ok:
            continue
        r = tnp(res) if isinstance(res, torch.Tensor) else None
        kept = keeps_shape(ctx, what, case, owned)
        if not ctx.require(what + ": result is a 0/1 array with the shape of the start state",
                           r is not None and tuple(r.shape) == shape0 and is01(r), case,
                           {"shape": list(np.shape(r)), "start shape": list(shape0)}) or not kept:
            continue
        r2 = r.reshape(M, net.nv)
        law_by_start(ctx, net, "STATISTICAL TEST (Hoeffding, delta=1e-9 per cell): law of sample(k, initial_state=<strided view / "
                     "other dtype>) == kernel^k", case, rows, r2, k, min_rows=min(800, reps))
        if overwrite:
            buf = tnp(v0).reshape(M, net.nv)
            ctx.require("overwrite=True updates the caller's start state in place", bool(np.array_equal(buf, r2)), case, {"call": what})
            law_by_start(ctx, net, "STATISTICAL TEST (Hoeffding, delta=1e-9 per cell): with overwrite=True the caller's start-state "
                         "view follows kernel^k after the call", case, rows, buf, k, min_rows=min(800, reps))
            # chains continued across calls on the caller's own view
            ok, _ = ctx.call(what + " then sample(1, same view, overwrite=True)", case,
                             lambda: net.state.sample(1, initial_state=v0, overwrite=True))
            if ok and keeps_shape(ctx, what + " then sample(1, same view, overwrite=True)", case, owned):
                buf2 = tnp(v0).reshape(M, net.nv)
                if is01(buf2):
                    law_by_start(ctx, net, "STATISTICAL TEST (Hoeffding, delta=1e-9 per cell): a chain continued in the caller's "
                                 "start-state view across two overwrite=True calls follows kernel^(k+1)", dict(case, continued=True),
                                 rows, buf2, k + 1, min_rows=min(800, reps))
        else:
            ctx.require(what + ": overwrite=False leaves the caller's start state untouched",
                        bool(np.array_equal(tnp(v0).reshape(M, net.nv), rows)), case)
        if shp(pool) == pool_before.shape:              # (a reshaped pool has been reported by keeps_shape)
            ctx.require(what + ": cells of the caller's larger tensor outside the start-state view keep their values",
                        bool(np.array_equal(tnp(pool)[mask], pool_before[mask])), case, {"pool shape": list(pool.shape)})
        ctx.extra["layout_law_tests"] = ctx.extra.get("layout_law_tests", 0) + 1


def make_recording_observable():
    """An observable (public base class) that records the chain states it is handed."""
    from qucumber.observables import ObservableBase

    class Recording(ObservableBase):
        def __init__(self):
            self.name = "first-unit"
            self.symbol = "r"
            self.seen = []
            self.raw = []                                   # the tensors themselves (the harness edits them in place afterwards)

        def apply(self, nn_state, samples):
            self.seen.append(samples.detach().clone())
            self.raw.append(samples)
            return samples[..., 0].to(dtype=__import__("torch").double)
    return Recording()


def check_observable_chains(ctx, net, full):
    """Observable.statistics / Observable.sample with the user's chains handed over as a strided view: the observable must
    be evaluated on chain states that follow kernel^(burn_in + i*steps) from the user's start states, and with
    overwrite=True the user's view holds the final chain states.  (The statistics themselves are C13's subject.)"""
    import torch
    rng = ctx.rng
    S = len(net.V)
    reps = 2000 if full else 900
    names = ("col-block0", "transposed", "row-stride", "col-stride", "transposed-block", "col-block")
    # burn_in = 0 (no step before the first evaluation: the user's chains themselves are evaluated, then advanced) is a fixed
    # case of the first block and part of the random stream
    combos = [(n, ow, None) for n in names[:4] for ow in (False, True)] + [("contiguous", False, 0), ("col-block", True, 0)] if full \
        else [(str(rng.choice(names)), bool(rng.integers(2)), int(rng.integers(0, 3)))]
    for name, overwrite, burn in combos:
        burn, steps = int(rng.integers(1, 3)) if burn is None else burn, int(rng.integers(1, 3))
        rows = np.tile(net.V, (reps, 1))
        M = rows.shape[0]
        v0, pool, mask = make_start(name, rows)
        seed = ctx.torch_seed()
        case = net.case(part="observable chains", start_form=name, overwrite=overwrite, burn_in=burn, steps=steps, chains=M,
                        num_samples=2 * M, torch_seed=seed, start="all 2^nv states repeated %d times" % reps)
        try:
            obs = make_recording_observable()
        except Exception as e:                              # noqa: BLE001 - the observable API is C13's; not this property's failure
            ctx.count("observable_api_unavailable:" + type(e).__name__)
            return
        what = "Observable.statistics(num_samples=2*chains, burn_in=%d, steps=%d, initial_state=<%s view>, overwrite=%s)" % (
            burn, steps, name, overwrite)
        pool_before = tnp(pool)
        owned = [("user's chain view", v0, tuple(v0.shape)), ("larger tensor the view belongs to", pool, tuple(pool.shape))]
        ok, _ = ctx.call(what, case, lambda: obs.statistics(net.state, 2 * M, burn_in=burn, steps=steps, initial_state=v0,
                                                            overwrite=overwrite))
        ctx.count("observable_chains:%s:ow=%s" % (name, overwrite))
        if not ok or not keeps_shape(ctx, what, case, owned):
            continue
        seen = [tnp(t) for t in obs.seen]
        if len(seen) != 2 or any(t.shape != (M, net.nv) or not is01(t) for t in seen):
            ctx.count("observable_chains:draws_not_observed_as_2_batches")      # how often it evaluates is C13's subject
            continue
        for i, t in enumerate(seen):
            kk = burn + i * steps
            law_by_start(ctx, net, "STATISTICAL TEST (Hoeffding, delta=1e-9 per cell): chain states an observable is evaluated on, "
                         "started from the user's strided-view chains, follow kernel^(burn_in + i*steps)", dict(case, draw=i),
                         rows, t, kk, min_rows=min(800, reps))
        buf = tnp(v0).reshape(M, net.nv)
        if overwrite:
            ctx.require("Observable.statistics(overwrite=True): the user's chain view holds the final chain states",
                        bool(np.array_equal(buf, seen[-1])), case, {"call": what})
        else:
            ctx.require("Observable.statistics(overwrite=False): the user's chains are left untouched",
                        bool(np.array_equal(buf, rows)), case, {"call": what})
            try:                                            # the chain states handed to the observable are changed in place
                for t in {id(t): t for t in obs.raw}.values():
                    t.add_(2)
                ctx.require("Observable.statistics(overwrite=False): the user's chains are left untouched when the tensors of samples "
                            "handed to the observable are afterwards changed in place (they must not share memory with the user's chains)",
                            bool(np.array_equal(tnp(pool), pool_before)), dict(case, followed_by="samples.add_(2)"), {"call": what})
                ctx.count("alias_probe:in-place edit of the samples handed to an observable")
            except Exception:                               # noqa: BLE001 - not writable in place: not demanded
                ctx.count("alias_probe:result_not_writable_in_place")
        ctx.require(what + ": cells of the caller's larger tensor outside the chain view keep their values",
                    bool(np.array_equal(tnp(pool)[mask], pool_before[mask])), case)
    # Observable.sample(k, initial_state=view, overwrite): content tie through the public sampler; k = 0 included, fixed forms
    # first in the fixed block
    if full:
        for name, overwrite, k in (("contiguous", False, 0), ("col-block0", False, 0), ("transposed", True, 0), ("row-stride", False, 2)):
            observable_sample_run(ctx, net, name, overwrite, k)
    observable_sample_run(ctx, net, str(rng.choice(names + ("contiguous",))), bool(rng.integers(2)), int(rng.integers(0, 4)))


def observable_sample_run(ctx, net, name, overwrite, k):
    """Observable.sample(nn_state, k, initial_state=<view>, overwrite): the samples the observable is applied to are the chain
    states after k exact steps from the user's start states (content tie); overwrite=True leaves them in the user's view;
    overwrite=False leaves the user's chains untouched -- also after the tensor of samples the observable was HANDED is
    changed in place (it must not share memory with the user's chains)."""
    import torch
    rows = net.V[ctx.rng.integers(len(net.V), size=4)]
    v0, pool, mask = make_start(name, rows)
    seed = ctx.torch_seed()
    case = net.case(part="observable chains", via="Observable.sample", start_form=name, overwrite=overwrite, k=k, torch_seed=seed,
                    initial_state=rows.tolist())
    try:
        obs = make_recording_observable()
    except Exception:                                       # noqa: BLE001
        return
    pool_before = tnp(pool)
    owned = [("user's chain view", v0, tuple(v0.shape)), ("larger tensor the view belongs to", pool, tuple(pool.shape))]
    torch.manual_seed(seed)
    with BernoulliSpy() as spy:
        ok, _ = ctx.call("Observable.sample(k, initial_state=<view>)", case,
                         lambda: obs.sample(net.state, k, initial_state=v0, overwrite=overwrite))
    ctx.count("observable_sample:k=%d:ow=%s" % (k, overwrite))
    ok = ok and keeps_shape(ctx, "Observable.sample(k=%d, overwrite=%s)" % (k, overwrite), case, owned)
    if ok and len(obs.seen) == 1 and tuple(obs.seen[0].shape) == (4, net.nv) and is01(tnp(obs.seen[0])):
        res2 = tnp(obs.seen[0])
        what = "Observable.sample(k=%d, overwrite=%s)" % (k, overwrite)
        steps_ = verify_run(ctx, net, case, spy.calls, rows, res2, k, what)
        buf = tnp(fresh_view(name, pool, 4, net.nv)).reshape(4, net.nv)
        if overwrite and steps_ is not None:
            ctx.require("overwrite=True leaves the final chain state (visible draw of step k) in the caller's tensor",
                        bool(np.array_equal(buf, steps_[-1]["v"] if k > 0 else rows)), case, {"call": what})
        if not overwrite:
            ctx.require(what + ": overwrite=False leaves the caller's start state untouched", bool(np.array_equal(buf, rows)), case)
            raw = obs.raw[0]
            try:
                raw.add_(2)
                edited = True
            except Exception:                               # noqa: BLE001 - a result that cannot be written in place: not demanded
                edited = False
                ctx.count("alias_probe:result_not_writable_in_place")
            if edited:
                ctx.count("alias_probe:in-place edit of the samples handed to an observable")
                ctx.require(what + ": overwrite=False leaves the caller's start state untouched when the tensor of samples handed "
                            "to the observable is afterwards changed in place (it must not share memory with the start state)",
                            bool(np.array_equal(tnp(pool), pool_before)), dict(case, followed_by="samples.add_(2)"),
                            {"start state before": rows.tolist(),
                             "start state now": tnp(fresh_view(name, pool, 4, net.nv)).reshape(4, net.nv).tolist()})
        if steps_ is not None:
            ctx.traces += 1


def check_history(ctx, net, hows):
    """Same-object histories: after the first pass (which has exercised every method, so anything lazily cached is
    cached) the parameters of the SAME object are changed; conditionals, kernel and sampler must follow."""
    import torch
    for how in hows:
        ok, _ = ctx.call("parameter update (%s)" % how, net.case(part="history"), lambda: net.mutate(ctx, how))
        if not ok:
            return
        if np.max(net.log_marg_v) > 600 or not np.all(np.isfinite(net.logJ)):
            ctx.count("skipped_overflow")
            continue
        check_conditionals(ctx, net)
        if hasattr(net, "impl_conds"):
            check_kernel(ctx, net)
        rows = net.V[ctx.rng.integers(len(net.V), size=3)]
        one_run(ctx, net, 1, False, torch.tensor(rows, dtype=torch.double), "gibbs_steps", ctx.torch_seed())
        one_run(ctx, net, 2, True, torch.tensor(rows, dtype=torch.double), "sample", ctx.torch_seed())
        one_run(ctx, net, 1, False, torch.tensor(net.V, dtype=torch.double), "sample", ctx.torch_seed())
        one_run(ctx, net, 0, False, torch.tensor(rows, dtype=torch.double), ("sample", "gibbs_steps")[int(ctx.rng.integers(2))],
                ctx.torch_seed())
        if getattr(net, "unobserved", False):
            check_statistical(ctx, net)


# ----------------------------------------------------------------------------- driver
def check_net(ctx, net, statistical=False, extended=False, hows=None):
    if np.max(net.log_marg_v) > 600 or not np.all(np.isfinite(net.logJ)):
        ctx.count("skipped_overflow")
        return
    biases = net.params[2:] if net.purif else net.params[1:]
    all_nonzero = all(bool(np.all(p != 0)) for p in biases)
    ctx.count("state:" + net.kind)
    ctx.count("shape:%dx%d%s" % (net.nv, net.nh, ("x%d" % net.na) if net.purif else ""))
    check_conditionals(ctx, net)
    distinct = False
    if hasattr(net, "impl_conds"):
        distinct = bool(check_kernel(ctx, net))
    check_sampler(ctx, net, full=extended)
    # statistical tests that do not depend on how the draws are made: every start-state layout / dtype, and the chain
    # states an observable is evaluated on when the user's chains are a strided view
    check_layout_law(ctx, net, full=extended)
    check_observable_chains(ctx, net, full=extended)
    if statistical or getattr(net, "unobserved", False):
        check_statistical(ctx, net)
        if getattr(net, "unobserved", False):
            ctx.extra["note_bernoulli"] = ("torch.bernoulli calls could not be read as exact block-Gibbs steps for some nets; "
                                           "those nets were decided by the statistical test of the k-step law")
    if hasattr(net, "K_impl"):
        if extended or getattr(net, "random_start_untied", False):
            check_random_start(ctx, net)
        if extended:
            check_big_batch(ctx, net)
        check_independence(ctx, net)
    ctx.case({"state": net.kind, "nv": net.nv, "nh": net.nh, "na": net.na if net.purif else 0,
              "p00": float(net.params[0][0, 0]), "b0": float(biases[0][0])}, nontrivial=all_nonzero and distinct)
    if hows is None:
        i = ctx.hist.get("history_nets", 0)
        hows = [Net.HOWS[(2 * i) % len(Net.HOWS)], Net.HOWS[(2 * i + 1) % len(Net.HOWS)]]
    ctx.count("history_nets")
    check_history(ctx, net, hows)


# fixed cases that always run first: every state type, with the large-batch trace, the random-start law test,
# the independence tests and every kind of same-object parameter update
FIXED_FIRST = (("positive", 2, 2, 0), ("density", 2, 1, 1), ("complex", 3, 2, 0))


def shapes(ctx):
    if ctx.thorough:
        b = [(nv, nh, 0) for nv in range(1, 5) for nh in range(1, 5)]
        p = [(nv, nh, na) for nv in range(1, 5) for nh in range(1, 5) for na in range(1, 4)]
    else:
        b = [(1, 1, 0), (1, 3, 0), (2, 1, 0), (2, 3, 0), (3, 2, 0), (3, 4, 0), (4, 4, 0), (4, 2, 0)]
        p = [(1, 1, 1), (2, 1, 2), (2, 3, 1), (3, 2, 3), (3, 4, 2), (4, 4, 3), (4, 1, 1), (1, 2, 3)]
    return b, p


def moderate_net(ctx, kind, nv, nh, na, f32=False):
    """couplings and biases uniform in +-[0.15, 1.2]: every kernel^k row is far from a point mass, so that the layout law
    tests reject an identity (or otherwise wrong) kernel with certainty, whatever the seed"""
    def u(*shape):
        return ctx.rng.uniform(0.15, 1.2, size=shape) * ctx.rng.choice([-1.0, 1.0], size=shape)
    if kind == "density":
        params = [u(nh, nv), u(na, nv), u(nv), u(nh), u(na)]
        php = gen.prbm_params(ctx, nv, nh, na, phase=True)
    else:
        params = [u(nh, nv), u(nv), u(nh)]
        php = gen.brbm_params(ctx, nv, nh) if kind == "complex" else None
    return Net(kind, nv, nh, na, params, php, f32=f32)


# ----------------------------------------------------------------------------- (i) long chains
LONG_KS = (17, 31, 32, 33, 64, 100)
LONG_LAW_KS = (17, 32, 33, 64, 100)
LONG_CHAINS = 25000


def tables_only(kind, nv, nh, na, params):
    """reference tables (exact conditionals, exact kernel) of a parameter set, without building a state"""
    n = Net.__new__(Net)
    n.kind, n.nv, n.nh, n.na, n.purif = kind, nv, nh, na, (kind == "density")
    n.params = [np.asarray(p, dtype=float) for p in params]
    n._space()
    n._tables()
    return n


def long_chain_power(K, ks=LONG_LAW_KS):
    """(power, start state): the smallest distance (max over cells), over the tested k, between row s0 of kernel^k and the
    laws a wrong long-chain sampler would produce -- uniform draws, the start state handed back, a chain cut at k // 2 --
    for the best start state s0"""
    S = len(K)
    uni = np.full(S, 1.0 / S)
    best = (-1.0, 0)
    P = {m: np.linalg.matrix_power(K, m) for k in ks for m in (k, k // 2)}
    for s0 in range(S):
        e = np.zeros(S); e[s0] = 1.0
        pw = min(min(np.max(np.abs(P[k][s0] - alt)) for alt in (uni, e, P[k // 2][s0])) for k in ks)
        if pw > best[0]:
            best = (float(pw), s0)
    return best


def slow_params(ctx, kind, nv, nh, na, target=0.975):
    """A SLOWLY mixing network (second eigenvalue of the exact kernel = `target`, so that kernel^17 ... kernel^100 are all
    different from each other, from the stationary law and from the uniform law): couplings of one sign pattern
    (a gauged ferromagnet), biases near the symmetric point (all non-zero), overall scale found by bisection."""
    rng = ctx.rng
    best = None
    for attempt in range(20):
        sv, sh, sa = (rng.choice([-1.0, 1.0], size=n) for n in (nv, nh, max(na, 1)))
        W0 = rng.uniform(0.7, 1.3, size=(nh, nv)) * sh[:, None] * sv[None, :]
        U0 = rng.uniform(0.7, 1.3, size=(max(na, 1), nv)) * sa[:, None] * sv[None, :]
        db, dc, dd = (rng.uniform(0.05, 0.2, size=n) * rng.choice([-1.0, 1.0], size=n) for n in (nv, nh, max(na, 1)))

        def mk(t):
            W = t * W0
            if kind == "density":
                U = t * U0[:na]
                return [W, U, -(W.sum(0) + U.sum(0)) / 2 + db, -W.sum(1) / 2 + dc, -U.sum(1) / 2 + dd[:na]]
            return [W, -W.sum(0) / 2 + db, -W.sum(1) / 2 + dc]
        lo, hi = 0.3, 14.0
        for _ in range(26):
            mid = 0.5 * (lo + hi)
            ev = np.sort(np.abs(np.linalg.eigvals(tables_only(kind, nv, nh, na, mk(mid)).K_exact)))[::-1]
            lo, hi = (mid, hi) if ev[1] < target else (lo, mid)
        params = mk(hi)
        power, s0 = long_chain_power(tables_only(kind, nv, nh, na, params).K_exact)
        if best is None or power > best[1]:
            best = (params, power, s0)
        if power >= 3.0 * hoeffding_eps(LONG_CHAINS):
            break
    return best


def long_chain_checks(ctx, net, law_ks=LONG_LAW_KS):
    """Chains of 17 ... 100 steps (the quantifier says k = 0,1,2,3..): content tie of one call per k (every recorded draw is
    the exact conditional of its step, the result is the visible draw of step k, overwrite / storage as usual), through
    sample, sample(k, n, initial_state=) and gibbs_steps, dense and strided float64 start states and another dtype; then
    STATISTICAL TESTS that do not depend on how the draws are made: 25000 chains from one start state follow row s0 of
    matrix_power(kernel, k) for k in `law_ks` (the caller's tensor too when overwriting); sample(64, n) without a start
    state follows kernel^64 given its own start draw."""
    import torch
    rng = ctx.rng
    vias = ("sample", "gibbs_steps", "sample(num_samples ignored)")
    for i, k in enumerate(LONG_KS):
        form, dtype = {2: ("col-block", "float64"), 4: ("contiguous", "float32"), 5: ("transposed", "float64")}.get(i, ("contiguous", "float64"))
        rows = net.V[rng.integers(len(net.V), size=3)]
        v0, pool, mask = make_start(form, rows, dtype)
        one_run(ctx, net, k, bool(i % 2), v0, vias[i % 3], ctx.torch_seed(), form=form, outer=(pool, mask))
        ctx.count("long_chain_run:k=%d" % k)
    # one much longer chain (length log-uniform in 128..1500), tied draw by draw like the others
    k_big = int(np.exp(rng.uniform(np.log(128.0), np.log(1500.0))))
    v0, pool, mask = make_start("contiguous", net.V[rng.integers(len(net.V), size=2)], "float64")
    one_run(ctx, net, k_big, bool(rng.integers(2)), v0, vias[int(rng.integers(3))], ctx.torch_seed(), form="contiguous", outer=(pool, mask))
    ctx.count("long_chain_run:k>=128")
    if getattr(net, "unobserved", False) and k_big not in law_ks:
        law_ks = tuple(law_ks) + (k_big,)           # draws not readable: the very long chain is decided by its law as well
    power, s0 = long_chain_power(net.K_exact)
    n = LONG_CHAINS
    eps = hoeffding_eps(n)
    # sample(k, num_samples) WITHOUT initial_state, long chain: given the start states it drew, the result follows kernel^k
    for k in (64,):
        seed = ctx.torch_seed()
        case = net.case(part="long chains (random start)", k=k, num_samples=n, torch_seed=seed)
        with BernoulliSpy() as spy:
            ok, res = ctx.call("sample(k=%d, num_samples=%d)" % (k, n), case, lambda: net.state.sample(k, n))
        if ok:
            r = tnp(res) if isinstance(res, torch.Tensor) else np.zeros(0)
            c0 = spy.calls[0]["out"] if spy.calls else None
            if ctx.require("sample(k, num_samples): result has shape (num_samples, nv) with 0/1 entries",
                           r.shape == (n, net.nv) and is01(r), case, list(r.shape)):
                if c0 is not None and np.shape(c0) == (n, net.nv) and is01(c0):
                    law_by_start(ctx, net, "STATISTICAL TEST (Hoeffding, delta=1e-9 per cell): law of a long chain, sample(k >= 17, "
                                 "num_samples) given its own start draw == matrix_power(kernel, k)", case, c0, r, k)
                else:
                    ctx.count("random_start_not_observed")
    ctx.count("long_chain_law:%s" % ("powerful" if power >= 3.0 * eps else "low_power"))
    ctx.extra.setdefault("long_chain_tests", []).append({"state": net.kind, "start": net.V[s0].tolist(), "chains": n,
                                                         "hoeffding_bound": eps, "distance_to_wrong_laws": power})
    for j, k in enumerate(law_ks):
        overwrite = bool(j % 2)
        seed = ctx.torch_seed()
        case = net.case(part="long chains", k=k, overwrite=overwrite, start=net.V[s0].tolist(), chains=n, torch_seed=seed)
        what = "sample(k=%d, initial_state=<%d chains>, overwrite=%s)" % (k, n, overwrite)
        v0 = torch.tensor(np.repeat(net.V[s0:s0 + 1], n, axis=0), dtype=torch.double)
        ok, res = ctx.call(what, case, lambda: net.state.sample(k, initial_state=v0, overwrite=overwrite))
        if not ok:
            continue
        r = tnp(res) if isinstance(res, torch.Tensor) else None
        kept = keeps_shape(ctx, what, case, [("start state", v0, (n, net.nv))])
        if not ctx.require(what + ": result is a 0/1 array with the shape of the start state",
                           r is not None and r.shape == (n, net.nv) and is01(r), case, {"shape": list(np.shape(r))}) or not kept:
            continue
        law = np.linalg.matrix_power(net.K_exact, k)[s0]
        for name, arr in (("returned samples", r),) + ((("caller's tensor", tnp(v0)),) if overwrite else ()):
            if arr.shape != r.shape or not is01(arr):
                continue                                # reported by the overwrite requirement below
            freq = np.bincount(idx_of(arr), minlength=len(net.V)) / float(n)
            dev = float(np.max(np.abs(freq - law)))
            ctx.count("statistical_cells", len(net.V))
            ctx.require("STATISTICAL TEST (Hoeffding, delta=1e-9 per cell): law of a long chain, sample(k >= 17, initial_state) "
                        "== matrix_power(kernel, k) (%s)" % name, dev <= eps, case,
                        {"empirical": freq.tolist(), "kernel^k row": law.tolist(), "uniform": 1.0 / len(net.V),
                         "max deviation": dev, "bound": eps})
        if overwrite:
            ctx.require("overwrite=True updates the caller's start state in place", bool(np.array_equal(tnp(v0), r)), case, {"call": what})
        else:
            ctx.require(what + ": overwrite=False leaves the caller's start state untouched",
                        bool(np.array_equal(tnp(v0), np.repeat(net.V[s0:s0 + 1], n, axis=0))), case)
    if getattr(net, "unobserved", False):
        ctx.extra["note_bernoulli"] = ("torch.bernoulli calls could not be read as exact block-Gibbs steps for some nets; "
                                       "those nets were decided by the statistical test of the k-step law")
    return power


def long_chains_first(ctx):
    for kind, nv, nh, na in (("positive", 2, 2, 0), ("density", 2, 1, 1), ("complex", 3, 2, 0)):
        ctx.torch_seed()
        params, power, s0 = slow_params(ctx, kind, nv, nh, na)
        php = gen.prbm_params(ctx, nv, nh, na, phase=True) if kind == "density" else \
            (gen.brbm_params(ctx, nv, nh) if kind == "complex" else None)
        net = Net(kind, nv, nh, na, params, php)
        ctx.count("long_chains_first:" + kind)
        # (the complex state samples through the same BinaryRBM code as the positive one: fewer law tests there)
        power = long_chain_checks(ctx, net, law_ks={"positive": LONG_LAW_KS, "density": (33, 100), "complex": (32, 64)}[kind])
        ctx.case({"state": kind, "nv": nv, "nh": nh, "na": na, "p00": float(net.params[0][0, 0]), "part": "long chains"},
                 nontrivial=bool(power >= 3.0 * hoeffding_eps(LONG_CHAINS)))


# ----------------------------------------------------------------------------- (j) single-precision networks
def float32_checks(ctx, net):
    """A network converted with nn.Module.float() and handed over with `module=`: conditionals (called with float32
    tensors) against the tables of the float32-rounded parameters, reported distribution, content tie of sample /
    gibbs_steps runs from float64 / float32 / integer / strided start states (overwrite on and off, one long chain), the
    single-layer samplers, sample(k, n) and a per-start-state law test."""
    import torch
    check_conditionals(ctx, net)
    case = net.case(part="float32 network")
    ok, prob = ctx.call("probability(space)", case, lambda: tnp(net.state.probability(torch.tensor(net.V, dtype=torch.double))))
    if ok:
        ctx.require("probability(space) is the visible marginal of the joint Boltzmann weight",
                    prob.shape == net.log_marg_v.shape and bool(np.all(prob > 0)) and
                    close_rel(np.log(prob), net.log_marg_v, rtol=1e-4, atol=1e-4), case,
                    {"probability": prob.tolist(), "log marginal": net.log_marg_v.tolist()})
    net.K_impl = net.K_exact
    runs = ((1, False, "sample", "float64", "contiguous"), (2, True, "sample", "float64", "contiguous"),
            (3, False, "gibbs_steps", "float32", "contiguous"), (2, True, "gibbs_steps", "float32", "contiguous"),
            (1, True, "sample(num_samples ignored)", "int64", "col-block"), (33, False, "sample", "float64", "row-stride"),
            (0, True, "sample", "float32", "transposed"),
            # k = 0 without overwriting: a float32 start state already has the dtype of this network (.to(weights) does not copy)
            (0, False, "gibbs_steps", "float32", "contiguous"), (0, False, "sample", "float32", "contiguous"),
            (0, False, "sample(num_samples ignored)", "float64", "col-block"))
    for k, overwrite, via, dtype, form in runs:
        rows = net.V[ctx.rng.integers(len(net.V), size=4)]
        v0, pool, mask = make_start(form, rows, dtype)
        one_run(ctx, net, k, overwrite, v0, via, ctx.torch_seed(), form=form, outer=(pool, mask))
    for k, n in ((2, 5), (1, None)):
        case = net.case(part="float32 network", k=k, num_samples=n, via="sample(num_samples)", torch_seed=ctx.torch_seed())
        what = "sample(k=%d, num_samples=%s)" % (k, n)
        ok, res = ctx.call(what, case, (lambda: net.state.sample(k)) if n is None else (lambda: net.state.sample(k, n)))
        if ok:
            r = tnp(res) if isinstance(res, torch.Tensor) else np.zeros(0)
            ctx.require(what + ": result has shape (num_samples, nv) with 0/1 entries", r.shape == (n or 1, net.nv) and is01(r),
                        case, {"shape": list(r.shape)})
    check_layout_law(ctx, net, full=False)
    if getattr(net, "unobserved", False):
        check_statistical(ctx, net)


def float32_first(ctx):
    for kind, nv, nh, na in (("positive", 3, 2, 0), ("density", 2, 2, 1), ("complex", 2, 3, 0)):
        ctx.torch_seed()
        case = {"state": kind, "nv": nv, "nh": nh, "na": na, "network_dtype": "float32 (module=<RBM>.float())"}
        ok, net = ctx.call("state built with module=<RBM converted with .float()>", case,
                           lambda: moderate_net(ctx, kind, nv, nh, na, f32=True))
        if not ok:
            continue
        ctx.count("float32_first:" + kind)
        float32_checks(ctx, net)
        ctx.case(dict(case, p00=float(net.params[0][0, 0]), part="float32 network"), nontrivial=True)


def zero_step_first(ctx, net):
    """k = 0 (kernel^0 = identity: the start state comes back) on dense float64 start states -- the ordinary case, in which
    nothing forces the library to copy -- through every entry point, 2-D / 1-D / 3-D / one chain, overwrite off and on; each
    overwrite=False call is followed by the in-place uses of the returned tensor (result_is_private).  Then the same for
    k = 1 and 2 (a degenerate call is a special case of the ordinary one, not a separate path, as far as the caller can tell)."""
    import torch
    rng = ctx.rng
    vias = ("sample", "gibbs_steps", "sample(num_samples ignored)")
    for k in (0, 1, 2):
        for j, (form, M) in enumerate((("contiguous", 4), ("contiguous", 1), ("1d", 1), ("3d", 4))):
            for overwrite in (False, True):
                for via in (vias if k == 0 else (vias[(j + int(overwrite)) % 3],)):
                    rows = net.V[rng.integers(len(net.V), size=M)]
                    v0, pool, mask = make_start(form, rows, "float64")
                    one_run(ctx, net, k, overwrite, v0, via, ctx.torch_seed(), form=form, outer=(pool, mask))
                    ctx.count("zero_step_first:k=%d" % k)


def one_row_first(ctx, net):
    """(l) ONE-ROW REGIMES, fixed cases: "samples are 0/1 arrays of the requested shape" for a request of exactly ONE chain.
    A (1, nv) start state -- dense, as every 2-D view layout of a larger tensor, in several dtypes --, 3-D start states with a
    leading / inner axis of size one, and a 1-D start state, through the three entry points, k = 0..3, overwrite off and on:
    the result has STRICTLY the shape of the start state, the caller's tensor keeps its shape (one_run), chains continued from
    the result; sample(k, 1) / sample(k) / sample(k, num_samples=1) without a start state return shape (1, nv); the public
    conditionals and single-layer samplers on a one-row batch (one_row_conditionals, check_layer_samplers)."""
    import torch
    rng = ctx.rng
    vias = ("sample", "gibbs_steps", "sample(num_samples ignored)")
    n = 0
    for name in LAYOUTS_2D:
        if LAYOUTS[name][2] == "same":
            continue                                    # (expanded to one row = the dense case)
        for overwrite in (False, True):
            for k in ((1, 2, 3, 0) if name == "contiguous" else (int(rng.integers(1, 4)),)):
                dtype = "float64" if name == "contiguous" or n % 3 else DTYPES[int(rng.integers(len(DTYPES)))]
                v0, pool, mask = make_start(name, net.V[rng.integers(len(net.V), size=1)], dtype)
                r1 = one_run(ctx, net, k, overwrite, v0, vias[n % 3], ctx.torch_seed(), form=name, outer=(pool, mask))
                n += 1
                ctx.count("one_row_first:2-D (1, nv)")
                if r1 is not None and name == "contiguous" and k in (1, 2):
                    # chain continued across calls from the one-row result
                    one_run(ctx, net, int(rng.integers(1, 3)), overwrite, r1, vias[n % 3], ctx.torch_seed())
    # every accepted dtype on a dense one-row start state (another dtype: the chain runs on a converted copy)
    for i, dtype in enumerate(DTYPES[1:]):
        v0, pool, mask = make_start("contiguous", net.V[rng.integers(len(net.V), size=1)], dtype)
        one_run(ctx, net, 1 + i % 2, bool(i % 2), v0, vias[i % 3], ctx.torch_seed(), form="contiguous", outer=(pool, mask))
        ctx.count("one_row_first:dtype")
    # 3-D start states with an axis of size one (dense, built directly), and the 1-D form
    for i, lead in enumerate(((1, 1), (1, 2), (2, 1), (1, 3))):
        for overwrite in (False, True):
            M = lead[0] * lead[1]
            v0 = torch.tensor(net.V[rng.integers(len(net.V), size=M)], dtype=torch.double).reshape(lead + (net.nv,)).clone()
            one_run(ctx, net, int(rng.integers(1, 4)), overwrite, v0, vias[(i + int(overwrite)) % 3], ctx.torch_seed(),
                    form="3d %s" % (lead,))
            ctx.count("one_row_first:3-D")
    for k in (1, 3):
        for overwrite in (False, True):
            v0, pool, mask = make_start("1d", net.V[rng.integers(len(net.V), size=1)], "float64")
            one_run(ctx, net, k, overwrite, v0, vias[(k + int(overwrite)) % 3], ctx.torch_seed(), form="1d", outer=(pool, mask))
            ctx.count("one_row_first:1-D")
    # ONE sample requested without a start state: positional, default and keyword forms
    for k in (0, 1, 2):
        for form, fn in (("sample(k, 1)", lambda: net.state.sample(k, 1)), ("sample(k)", lambda: net.state.sample(k)),
                         ("sample(k=k, num_samples=1)", lambda: net.state.sample(k=k, num_samples=1))):
            seed = ctx.torch_seed()
            case = net.case(part="sampler", k=k, num_samples=1, via=form, torch_seed=seed)
            what = "%s with k=%d" % (form, k)
            with BernoulliSpy() as spy:
                ok, res = ctx.call(what, case, fn)
            ctx.count("one_row_first:num_samples=1")
            if not ok:
                continue
            r = tnp(res) if isinstance(res, torch.Tensor) else None
            if not ctx.require(what + ": result has the requested shape (num_samples, nv) = (1, nv) with 0/1 entries",
                               r is not None and tuple(r.shape) == (1, net.nv) and is01(r), case,
                               {"shape": list(shp(res) or ()), "requested shape": [1, net.nv]}):
                continue
            calls = spy.calls
            if calls and np.shape(calls[0]["out"]) == (1, net.nv) and is01(calls[0]["out"]):
                steps, reason = interpret_run(net, calls[1:], calls[0]["out"], k)
                states = [calls[0]["out"]] + [st["v"] for st in steps]
                if reason is None and len(steps) >= k and np.array_equal(r, states[k]):
                    ctx.traces += 1
                else:
                    ctx.count("random_start_run_not_tied_to_draws")     # decided by the law tests given the start draw
    one_row_conditionals(ctx, net, n_rows=3)


def arch_sweep(ctx):
    """EVERY architecture of the quantifier (nv, nh in 1..4; na in 1..3), fixed block of the quick tier too: the 16 binary shapes
    for the positive and for the complex state, the 48 purification shapes -- every parameter tensor of every network drawn at
    random (the phase network's too), conditionals and single-layer samplers against the brute-force tables and the model,
    detailed balance / invariance with the reported distribution, one k = 0 call without overwriting followed by the in-place
    uses of its result, and one k >= 1 call with overwriting.  (The thorough tier runs the full set of checks on each.)"""
    import torch
    rng = ctx.rng
    archs = [(kind, nv, nh, 0) for nv in range(1, 5) for nh in range(1, 5) for kind in ("positive", "complex")] + \
            [("density", nv, nh, na) for nv in range(1, 5) for nh in range(1, 5) for na in range(1, 4)]
    vias = ("sample", "gibbs_steps", "sample(num_samples ignored)")
    for i, (kind, nv, nh, na) in enumerate(archs):
        ctx.torch_seed()
        net = draw_net(ctx, kind, nv, nh, na)
        if np.max(net.log_marg_v) > 600 or not np.all(np.isfinite(net.logJ)):
            ctx.count("skipped_overflow")
            continue
        ctx.count("arch_sweep:" + kind)
        check_conditionals(ctx, net)
        distinct = bool(check_kernel(ctx, net, light=True)) if hasattr(net, "impl_conds") else False
        rows = net.V[rng.integers(len(net.V), size=2)]
        one_run(ctx, net, 0, False, torch.tensor(rows, dtype=torch.double), vias[i % 3], ctx.torch_seed())
        one_run(ctx, net, int(rng.integers(1, 4)), True, torch.tensor(rows, dtype=torch.double), vias[(i + 1) % 3], ctx.torch_seed())
        biases = net.params[2:] if net.purif else net.params[1:]
        ctx.case({"state": kind, "nv": nv, "nh": nh, "na": na, "p00": float(net.params[0][0, 0]), "part": "architecture sweep"},
                 nontrivial=distinct and all(bool(np.all(p != 0)) for p in biases))


def layouts_first(ctx):
    """Fixed cases that run before everything else: every start-state layout and dtype, on well-mixing nets of every state
    type -- content tie on a handful of chains, then the law tests (sample / overwrite buffer / continued chains /
    Observable.statistics) on thousands of chains per start state."""
    for kind, nv, nh, na in (("positive", 3, 2, 0), ("density", 2, 2, 1), ("complex", 2, 3, 0)):
        ctx.torch_seed()
        net = moderate_net(ctx, kind, nv, nh, na)
        ctx.count("layouts_first:" + kind)
        one_row_first(ctx, net)
        check_layer_samplers(ctx, net)
        zero_step_first(ctx, net)
        layout_runs(ctx, net, full=True, k_fixed=0)
        layout_runs(ctx, net, full=True)
        check_layout_law(ctx, net, full=True)
        check_observable_chains(ctx, net, full=True)
        if getattr(net, "unobserved", False):
            net.K_impl = net.K_exact
            check_statistical(ctx, net)
        K2 = np.linalg.matrix_power(net.K_exact, 2)
        ctx.case({"state": kind, "nv": nv, "nh": nh, "na": na, "p00": float(net.params[0][0, 0]), "part": "layouts first"},
                 nontrivial=bool(np.max(1.0 - np.diag(K2)) > 0.3))


def run(ctx):
    walls = ctx.extra.setdefault("fixed_first_wall_s", {})
    for fn in (layouts_first, long_chains_first, float32_first, arch_sweep):
        t0 = time.time()
        fn(ctx)
        walls[fn.__name__] = round(walls.get(fn.__name__, 0.0) + time.time() - t0, 2)
    for kind, nv, nh, na in FIXED_FIRST:
        ctx.torch_seed()
        check_net(ctx, draw_net(ctx, kind, nv, nh, na), extended=True, hows=list(Net.HOWS))
    bsh, psh = shapes(ctx)
    draws = 10 if ctx.thorough else 2
    for (nv, nh, _) in bsh:
        for kind in ("positive", "complex"):
            for d in range(draws if kind == "positive" else draws // 2):
                ctx.torch_seed()
                check_net(ctx, draw_net(ctx, kind, nv, nh, 0))
    for (nv, nh, na) in psh:
        for d in range(2 if not ctx.thorough else 6):
            ctx.torch_seed()
            check_net(ctx, draw_net(ctx, "density", nv, nh, na))
    if ctx.thorough:
        for kind, nv, nh, na in (("positive", 2, 3, 0), ("positive", 3, 2, 0), ("complex", 3, 3, 0),
                                 ("density", 2, 2, 1), ("density", 3, 2, 2)):
            net = draw_net(ctx, kind, nv, nh, na)
            check_net(ctx, net, statistical=True, extended=True)


def search(ctx, broken, budget):
    """Wider oracle sweep (all small shapes, more draws, plus the statistical test) when proof or correspondence broke."""
    t0 = time.time()
    n0 = len(ctx.failures)
    combos = [("positive", nv, nh, 0) for nv in range(1, 4) for nh in range(1, 4)] + \
             [("density", nv, nh, na) for nv in range(1, 4) for nh in range(1, 3) for na in range(1, 3)] + \
             [("complex", 2, 2, 0)]
    for i, (kind, nv, nh, na) in enumerate(combos):
        check_net(ctx, draw_net(ctx, kind, nv, nh, na), statistical=(nv in (2, 3) and i % 3 == 0), extended=(nv == 2 and i % 4 == 0))
        if len(ctx.failures) > n0:
            return ctx.failures[n0]
        if time.time() - t0 > budget:
            return None
    return None


def replay(ctx, rec):
    case = rec.get("failing", {}).get("case", {}) or {}
    kind = case.get("state")
    if kind is None:
        print("replay: no case recorded; running the generated cases")
        return run(ctx)
    print("replay of", kind, case.get("nv"), case.get("nh"), case.get("na"), case.get("part"))
    hist = case.get("history") or []
    part = str(case.get("part"))
    ext = part.startswith(("statistical test (random", "large batch", "layout law", "observable chains")) or \
        str(case.get("start_form")) not in ("None", "2d", "contiguous")
    if case.get("network_dtype"):
        # single-precision network (module=<RBM>.float()); a construction failure has no parameters recorded
        if "params" in case:
            net = Net(kind, case["nv"], case["nh"], case.get("na", 0), case["params"], f32=True)
        else:
            net = moderate_net(ctx, kind, case["nv"], case["nh"], case.get("na", 0), f32=True)
        float32_checks(ctx, net)
        return
    if hist:
        # same-object history: first pass on freshly drawn parameters (primes whatever the object caches), then the
        # recorded kinds of update, the last one to the recorded parameters
        nh0, na0 = case.get("shape_before_history") or (case["nh"], case.get("na", 0))
        net = draw_net(ctx, kind, case["nv"], nh0, na0)
        check_net(ctx, net, hows=[])
        for how in hist[:-1]:
            net.mutate(ctx, how)
        if hist[-1] != Net.SETTER and (net.nh, net.na if net.purif else 0) != (case["nh"], case.get("na", 0)):
            net.mutate(ctx, Net.SETTER, explicit=case["params"])         # (cannot happen with histories this check generates)
        net.mutate(ctx, hist[-1], explicit=case["params"])
    else:
        net = Net(kind, case["nv"], case["nh"], case.get("na", 0), case["params"])
    if part.startswith("long chains") or int(case.get("k") or 0) > 3:
        long_chain_checks(ctx, net)
    if part in ("sampler", "conditionals", "layer samplers"):
        zero_step_first(ctx, net)
        one_row_first(ctx, net)
    check_net(ctx, net, statistical=part.startswith("statistical test"), extended=ext, hows=[])
