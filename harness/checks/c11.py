"""C11 — Saving and reloading reproduces the state exactly and has no side effects.

Correspondence: random operation histories (randomise / train / add-unitary / save / save-again / ModelSaver /
metadata-only save / load / autoload / caller mutates metadata) over several real states of the three kinds,
several metadata dict objects and several files in ctx.scratch are executed on REAL objects and on the extracted
model (Store.run_trace); after every step "raises vs does not raise" (exception classes are not compared) and the
complete heap (every parameter of every network of every state, unitary dictionaries, metadata dict contents,
torch.load of every file) are compared.  EXCEPT after a FAILING load / autoload — the property says nothing about
loads it does not call compatible — where only metadata and files are compared and the model is restarted from the
real heap (so an atomic load, or any other after-state of a failed load, never alarms).  "train" is either an
in-place overwrite or a real fit (optionally with a ModelSaver callback incl. save_initial); save / load are called
with a str path, a pathlib.Path or a file object.  Tensor / metadata values are
canonicalised to opaque tokens by content (bytes + shape), object identities to small integers.

Oracle (independent of the model, on the implementation only): after an accepted save, a later load into a
compatible state / autoload (no write to the file in between) gives torch.equal parameters, same shapes, equal
unitary dictionary key by key; save leaves the metadata object (identity and deep content) and the state's
parameters untouched; torch.load of the file holds every metadata key/value, every network's state dict and
unitary_dict; reserved names are refused (any exception) and write nothing; a second save with the same objects succeeds
and writes an equal record; torch.save/load round-trips random tensors bit-identically (trust check).

Regimes added after red-team round 2: several states of a history are built from ONE dictionary object handed to the
constructors (they share the unitary tensors) and every save / load / autoload is bracketed by "no other state and no
dictionary the caller passed to a constructor changed"; unitaries and metadata are also edited IN PLACE below the top
level (`ud[name].copy_(u)`, `ud[name][0, 0, 1] = x`, `md["cfg"]["lr"] = x`, `md["t"].add_(1)`, `.append`) between two
saves — with long-lived ModelSaver objects; metadata FUNCTIONS use their arguments (`{**md, "epoch": epoch, "nv":
nn_state.num_visible}`), so the file written at epoch e must hold the metadata of epoch e.

Seed round 3 (C11c): metadata is NESTED 2-3 levels deep (dicts / lists / tuples inside the metadata dict) and holds
tensors with requires_grad=True, non-leaf tensors (attached to an autograd graph), Python numbers / strings / None; "save
leaves the metadata object unchanged" compares an identity-aware deep FINGERPRINT taken before the save (for every
nested container: type, identity, children; for every tensor: identity, dtype, shape, requires_grad, has-grad_fn, bytes;
for other values: type and repr) — so a save that rewrites the caller's nested containers in place, swaps a tensor for a
detached copy or changes the type of a value is a failing input; what is read back from the file must be value-equal.
NumPy values inside metadata are generated in fixed cases but reported as information only (`info:` keys): the
installed torch.load refuses them, so they are outside "values loadable by the installed torch".

Seed round 6 (C11f): what happens to a loaded object LATER.  Fixed histories (file_afterlife_histories, run first): A.save(f);
B = load / autoload of f (str / Path / file object); a second object B2 loaded the other way; A, B, B2 and torch.load(f) share no
storage and an in-place edit of B2 changes neither B nor A; then f is saved again by A (swapped user unitary, new parameters;
directly or by a ModelSaver whose file_name has no placeholder), overwritten by a larger / a smaller model / a metadata-only
record, truncated, filled with garbage, deleted - after EVERY event B's parameters and unitary dictionary, and what torch.load
returned before, are byte-identical to what they were.  Random histories: after every successful load / autoload the loaded
state shares no storage with another state or a caller's dictionary, and (probability 1/2) the file is saved over by a twin /
a larger / a smaller model, truncated, filled with garbage or deleted, every state of the history must be unchanged, and the file
is put back byte for byte.  Guard (never a verdict): /proc/self/maps tells whether a tensor of the loaded object lies inside a
memory mapping of a file; if so the events that shorten the file run in a forked child (reading such a tensor afterwards is a
SIGBUS, reported as the failing input) and a random history is abandoned after its probe.

Seed round 7 (C11g): WHICH KEYS the saved dictionary has.  Every comparison of a loaded dictionary is by exact key set (nothing
missing, nothing added; shape, dtype, content per matrix).  Until this round every generated dictionary either contained X, Y, Z
or lacked defaults only because the CONSTRUCTOR was given such a dictionary - a constructor that fills in missing defaults hid
the sub-case from load and autoload alike.  unitary_keyset_histories: 18 recipes (keys absent at construction; deleted, renamed,
overridden on the live attribute; the attribute replaced by a new dictionary; clear() + one user key; save - edit - save again)
x 2 state types, each file reloaded by load (str / Path / file object; receivers with default / superset / disjoint dictionaries)
and autoload (str / Path / file object - the last fails on the unchanged tree for every dictionary and is only counted), plus a
second generation (the loaded object saved and auto-loaded again).  Random histories: edit_keyset (delete / rename / replace
attribute) as an operation and on 30% of the initial states; the model is restarted from the real heap after it."""
import os, io, copy, time, pathlib
import numpy as np

RULE = ("histories of <= 12 (quick) / <= 25 (thorough) operations from a weighted grammar over 4-6 states "
        "(Positive/Complex/DensityMatrix, nv 1..4, nh 1..5 with nh != nv preferred, na 1..3, all biases non-zero "
        "after the initial in-place randomisation, default / custom / user-extended unitary dictionaries), "
        "4 metadata objects (None, {}, flat, nested+tensor-valued; reserved keys injected by MutateMd), 4 files + the "
        "ModelSaver 'initial' file; train = in-place overwrite | real fit | real fit with ModelSaver callback; "
        "locations as str / pathlib.Path / file object; "
        "a case is one history; non-trivial := it contains an accepted save with non-empty metadata or a unitary "
        "dictionary, followed by a successful load/autoload of that file; "
        "+ 15 fixed afterlife histories (3 types x load/autoload x str/Path/file object) with 7 later file events each "
        "(save-again with swapped unitary, larger model, smaller model, metadata-only, truncate, garbage, delete) and a "
        "file-event probe after about every second load/autoload of a random history"
        " + 36 fixed key-set histories (2 types x 18 ways a saved dictionary comes to LACK / rename / replace default keys, at "
        "construction or on the live attribute; each reloaded by load and autoload x str / Path / file object and compared by exact key "
        "set); random histories delete / rename keys and replace the dictionary attribute (30% of states start that way)")
ASSUMPTIONS = ["torch.save/torch.load round-trip tensors and plain containers bit-identically (observed on random tensors in every run)",
               "metadata keys are strings (data.update(**metadata) requires it); random histories put no dict of tensors under a reserved name (the fixed refusal cases do)",
               "states of one history do not share network objects (sharing is C20's subject)",
               "OUT OF SCOPE (red-team 2, C11_1): only the three library state types are saved; a user SUBCLASS that overrides "
               "`networks` to add a third network is outside the quantifier (\"three state types\") and is not generated",
               "NumPy scalars / arrays inside metadata are not loadable by the installed torch.load (weights_only unpickler), hence outside "
               "the quantifier: what save does with them (purity included) is recorded as information, never a verdict",
               "read-back metadata is compared by value (dtype, shape, content); whether the requires_grad flag of a stored tensor survives "
               "the file is not demanded",
               "the epoch number a metadata function receives for the 'initial' file of ModelSaver(save_initial=True) is not "
               "prescribed by the property: the check takes it from the call itself; for periodic files it must be the epoch",
               "seed round 6: raw truncation / garbage / deletion of a file are caller-side file-system events (what torch.save does to a path "
               "when something smaller is saved there); a loaded object is required to be unaffected by them, nothing is demanded of later "
               "loads of such a file; /proc/self/maps is read only as a guard against SIGBUS (which events run in a forked child), never as a verdict",
               "metadata is passed as dict and collections.OrderedDict; non-dict mappings (MappingProxyType) are outside 'metadata dicts'"]

KEYS = {"rbm_am": 0, "rbm_ph": 1, "unitary_dict": 2, "weights": 10, "visible_bias": 11, "hidden_bias": 12,
        "weights_W": 13, "weights_U": 14, "aux_bias": 15, "X": 20, "Y": 21, "Z": 22}
KIND = {"PositiveWaveFunction": 0, "ComplexWaveFunction": 1, "DensityMatrix": 2}


class Tables:
    def __init__(self):
        import torch
        from qucumber.utils import unitaries
        self.keys = dict(KEYS)
        self.next_key = 30
        self.toks = {}
        self.next_tok = 40
        d = unitaries.create_dict()
        for name, t in (("X", 1), ("Y", 2), ("Z", 3)):
            self.toks[self.canon(d[name])] = t
        self.nets = {}
        self.keep = []

    def key(self, s):
        if s not in self.keys:
            self.keys[s] = self.next_key
            self.next_key += 1
        return self.keys[s]

    def canon(self, v):
        import torch
        if isinstance(v, torch.Tensor):
            return ("T", str(v.dtype), tuple(v.shape), v.detach().contiguous().numpy().tobytes())
        if isinstance(v, dict):
            return ("D", tuple((k, self.canon(x)) for k, x in sorted(v.items(), key=lambda kv: str(kv[0]))))
        if isinstance(v, (list, tuple)):
            return ("L", type(v).__name__, tuple(self.canon(x) for x in v))
        return ("P", type(v).__name__, repr(v))

    def tok(self, v):
        c = self.canon(v)
        if c not in self.toks:
            self.toks[c] = self.next_tok
            self.next_tok += 1
        return self.toks[c]


def err_kind(e):
    if e is None:
        return 0
    if isinstance(e, ValueError):
        return 1
    if isinstance(e, KeyError):
        return 2
    if isinstance(e, FileNotFoundError):
        return 4
    if isinstance(e, RuntimeError):
        return 3
    return 5


def ints(x):
    if isinstance(x, list):
        return [ints(y) for y in x]
    return int(x)


# ----------------------------------------------------------------------------- the real heap
class Real:
    def __init__(self, ctx, T):
        self.ctx, self.T = ctx, T
        self.states = {}      # sid -> object
        self.nids = {}        # id(rbm) -> small int
        self.next_nid = 0
        self.mds = {}         # mid -> dict object
        self.paths = {}       # fid -> path
        self.file_cache = {}  # fid -> normalised content (None if absent)
        self.caller_uds = []  # dictionary objects the caller handed to constructors (unitary_dict=...)
        self.next_mid = 10    # metadata dicts produced by metadata functions are registered from here on

    def path(self, fid):
        # fid 9 is the file ModelSaver(save_initial=True) writes at on_train_start
        return os.path.join(self.ctx.scratch, "finitial" if fid == 9 else "f%d" % fid)

    def reg_state(self, sid, s):
        self.states[sid] = s
        for net in s.networks:
            r = getattr(s, net)
            self.T.keep.append(r)
            self.nids[id(r)] = self.next_nid
            self.next_nid += 1

    def net_params(self, rbm):
        return [(self.T.key(n), tuple(p.shape), self.T.tok(p.data)) for n, p in rbm.named_parameters()]

    def has_ud(self, s):
        return hasattr(s, "unitary_dict")

    def norm_state(self, s):
        nets = [(self.T.key(n), self.nids[id(getattr(s, n))], self.net_params(getattr(s, n))) for n in s.networks]
        ud = None
        if self.has_ud(s):
            u = s.unitary_dict
            ud = (1, sorted((self.T.key(k), self.T.tok(v)) for k, v in u.items())) if isinstance(u, dict) else (2, self.T.tok(u))
        return (KIND[type(s).__name__], nets, ud)

    def bystanders(self, sid):
        """Content of everything an operation on state `sid` has to leave alone: the OTHER states, and the dictionaries
        the caller passed to constructors."""
        return ({i: self.norm_state(x) for i, x in self.states.items() if i != sid},
                [sorted((str(k), self.T.tok(v)) for k, v in d.items()) for d in self.caller_uds])

    def sharers(self, sid, t):
        """Other states whose dictionary holds the very tensor object t."""
        return [i for i, x in self.states.items() if i != sid and isinstance(getattr(x, "unitary_dict", None), dict)
                and any(v is t for v in x.unitary_dict.values())]

    def norm_file(self, fid):
        import torch
        p = self.path(fid)
        if not os.path.exists(p):
            return None
        d = torch.load(p)
        out = []
        for k, v in d.items():
            if k in ("rbm_am", "rbm_ph") and isinstance(v, dict) and v and all(isinstance(x, torch.Tensor) for x in v.values()):
                fv = (0, [(self.T.key(n), tuple(t.shape), self.T.tok(t)) for n, t in v.items()])
            elif k == "unitary_dict" and isinstance(v, dict) and v and all(isinstance(x, torch.Tensor) for x in v.values()):
                fv = (1, sorted((self.T.key(n), self.T.tok(t)) for n, t in v.items()))
            else:
                fv = (2, self.T.tok(v))
            out.append((self.T.key(k), fv))
        return sorted(out)

    def norm(self, touched_files=()):
        for f in touched_files:
            self.file_cache[f] = self.norm_file(f)
        return {"states": {sid: self.norm_state(s) for sid, s in self.states.items()},
                "mds": {m: sorted((self.T.key(k), self.T.tok(v)) for k, v in d.items()) for m, d in self.mds.items()},
                "files": {f: c for f, c in self.file_cache.items() if c is not None}}


def wire_fval(fv):
    if fv[0] == 0:
        return [0, [[n, list(sh), t] for n, sh, t in fv[1]]]
    if fv[0] == 1:
        return [1, [[k, t] for k, t in fv[1]]]
    return [2, fv[1]]


def wire_heap(h, next_nid):
    states = [[sid, [k, [[nk, [nid, [[n, list(sh), t] for n, sh, t in ps]]] for nk, nid, ps in nets],
                     [] if ud is None else [wire_fval(ud)]]] for sid, (k, nets, ud) in sorted(h["states"].items())]
    mds = [[m, [[k, t] for k, t in items]] for m, items in sorted(h["mds"].items())]
    files = [[f, [[k, wire_fval(fv)] for k, fv in c]] for f, c in sorted(h["files"].items())]
    return [states, mds, files, next_nid]


def norm_model_heap(mh):
    mh = ints(mh)

    def nf(fv):
        if fv[0] == 0:
            return (0, [(n, tuple(sh), t) for n, sh, t in fv[1]])
        if fv[0] == 1:
            return (1, sorted((k, t) for k, t in fv[1]))
        return (2, fv[1])
    states = {}
    for sid, (k, nets, ud) in mh[0]:
        states[sid] = (k, [(nk, nid, [(n, tuple(sh), t) for n, sh, t in ps]) for nk, (nid, ps) in nets],
                       None if not ud else nf(ud[0]))
    return {"states": states,
            "mds": {m: sorted((k, t) for k, t in items) for m, items in mh[1]},
            "files": {f: sorted((k, nf(fv)) for k, fv in c) for f, c in mh[2]}}


# ----------------------------------------------------------------------------- generation
def rand_unitary(ctx):
    import torch
    a = ctx.rng.normal(size=(2, 2)) + 1j * ctx.rng.normal(size=(2, 2))
    q, _ = np.linalg.qr(a)
    return torch.tensor(np.stack([q.real, q.imag]), dtype=torch.double)


def randomise_inplace(ctx, s, scale=1.0, mode=0):
    """mode 0: p.data.copy_(new) | 1: p.data = new | 2: p.copy_(new) under no_grad  (the parameter objects keep their identity)"""
    import torch
    for net in s.networks:
        for _, p in getattr(s, net).named_parameters():
            x = ctx.rng.normal(size=tuple(p.shape)) * scale
            x[np.abs(x) < 1e-3] = 0.37
            new = torch.tensor(x, dtype=torch.double).reshape(p.shape)
            if mode == 1:
                p.data = new
            elif mode == 2:
                with torch.no_grad():
                    p.copy_(new)
            else:
                p.data.copy_(new)


def make_state(ctx, kind, nv, nh, na, shared=None, R=None):
    """shared: a dictionary object of the caller; with probability 0.4 the state is built from THAT object (so that
    several states of the history hold the same unitary tensors)."""
    from qucumber.nn_states import PositiveWaveFunction, ComplexWaveFunction, DensityMatrix
    from qucumber.utils import unitaries
    ud = None
    r = ctx.rng.random()
    if kind != 0 and shared is not None and ctx.rng.random() < 0.4:
        ud = shared
        ctx.count("state built from the history's shared dictionary object")
    elif kind != 0 and r < 0.6:
        ud = unitaries.create_dict()
        if r < 0.3:
            ud["H%d" % ctx.rng.integers(0, 3)] = rand_unitary(ctx)       # user-added unitary
        elif r < 0.45:
            ud = {"X": ud["X"], "Q": rand_unitary(ctx)}                   # custom dictionary without Y, Z
    if kind == 0:
        s = PositiveWaveFunction(nv, nh, gpu=False)
    elif kind == 1:
        s = ComplexWaveFunction(nv, nh, unitary_dict=ud, gpu=False)
    else:
        s = DensityMatrix(nv, nh, na, unitary_dict=ud, gpu=False)
    if ud is not None and R is not None and not any(ud is d for d in R.caller_uds):
        R.caller_uds.append(ud)
    if kind != 0 and ctx.rng.random() < 0.3:                # seed round 7: a default key removed / renamed AFTER construction
        ctx.count("state starts with an edited key set:" + edit_keyset(ctx, s).split(" ")[0])
    randomise_inplace(ctx, s)
    return s


def edit_keyset(ctx, s):
    """The user changes WHICH keys the live dictionary of s has (never the caller's constructor argument: the constructors copy
    it): a key is deleted (defaults preferred), renamed, or the attribute is replaced by a new dictionary that holds a subset of
    the old entries (plus, sometimes, a new one).  At least one key remains.  Returns a description."""
    rng = ctx.rng
    u = s.unitary_dict
    keys = sorted(u.keys())
    defaults = [k for k in keys if k in ("X", "Y", "Z")]
    r = rng.random()
    if r < 0.4 and len(keys) > 1:
        k = str(rng.choice(defaults if defaults and rng.random() < 0.8 else keys))
        del u[k]
        return "delete %s" % k
    if r < 0.65:
        k = str(rng.choice(defaults if defaults and rng.random() < 0.8 else keys))
        new = k.lower() if k.lower() != k and k.lower() not in u else k + "r"
        u[new] = u.pop(k)
        return "rename %s -> %s" % (k, new)
    keep = [k for k in keys if rng.random() < 0.5] or [keys[int(rng.integers(0, len(keys)))]]
    nd = {k: u[k] for k in keep}
    extra = rng.random() < 0.5
    if extra:
        nd["T%d" % rng.integers(0, 3)] = rand_unitary(ctx)
    s.unitary_dict = nd
    return "replace attribute by {%s}" % ", ".join(sorted(nd))


FALSY = [None, 0, "", False, [], {}, 0.0]


def md_value(ctx, reserved=False):
    """A metadata value loadable by torch: ints, strings, nested containers, tensors, and the falsy values
    None / 0 / "" / False / [] / {} (also under reserved names: the refusal does not depend on the value)."""
    import torch
    r = ctx.rng.random()
    if r < 0.25:
        return copy.deepcopy(FALSY[int(ctx.rng.integers(0, len(FALSY)))])
    if r < 0.45:
        return int(ctx.rng.integers(1, 50))
    if r < 0.55:
        return "note-%d" % ctx.rng.integers(0, 9)
    if r < 0.75:
        return {"lr": float(ctx.rng.integers(1, 9)) / 8, "sched": [1, 2, int(ctx.rng.integers(0, 5))], "inner": {"k": "v"}, "none": None}
    if r < 0.85:
        return torch.tensor(ctx.rng.normal(size=(2, 3)))
    if r < 0.93:
        return live_metadata(ctx.rng, depth3=bool(ctx.rng.integers(0, 2)))      # tensors with requires_grad / non-leaf, 2-3 levels deep
    return [1.5, "x", None, torch.tensor([1.0, float(ctx.rng.integers(0, 4))]), {"g": torch.tensor([0.5], requires_grad=True)}]


def snapshot(s):
    """Independent record of a state at save time (deep copies)."""
    return {"cls": type(s).__name__,
            "nets": {n: [(k, p.data.clone()) for k, p in getattr(s, n).named_parameters()] for n in s.networks},
            "ud": ({k: v.clone() for k, v in s.unitary_dict.items()} if hasattr(s, "unitary_dict") and isinstance(s.unitary_dict, dict) else None)}


def fingerprint(obj):
    """Identity-aware deep description of a (metadata) object: what `save` must leave exactly as it was."""
    import torch
    if isinstance(obj, torch.Tensor):
        return ("tensor", id(obj), str(obj.dtype), tuple(obj.shape), bool(obj.requires_grad), obj.grad_fn is not None,
                obj.detach().contiguous().numpy().tobytes())
    if isinstance(obj, np.ndarray):
        return ("ndarray", id(obj), str(obj.dtype), obj.shape, obj.tobytes())
    if isinstance(obj, dict):
        return ("dict", id(obj), [(repr(k), fingerprint(v)) for k, v in obj.items()])
    if isinstance(obj, (list, tuple)):
        return (type(obj).__name__, id(obj), [fingerprint(v) for v in obj])
    return (type(obj).__name__, None, repr(obj))


def describe_change(before, after, path="metadata"):
    """First difference between two fingerprints, in words (None if equal)."""
    if before == after:
        return None
    if before[0] != after[0]:
        return "%s: type %s -> %s" % (path, before[0], after[0])
    if before[0] == "dict":
        if [k for k, _ in before[2]] != [k for k, _ in after[2]]:
            return "%s: keys %s -> %s" % (path, [k for k, _ in before[2]], [k for k, _ in after[2]])
        for (k, b), (_, a) in zip(before[2], after[2]):
            d = describe_change(b, a, "%s[%s]" % (path, k))
            if d:
                return d
    elif before[0] in ("list", "tuple"):
        if len(before[2]) != len(after[2]):
            return "%s: length %d -> %d" % (path, len(before[2]), len(after[2]))
        for i, (b, a) in enumerate(zip(before[2], after[2])):
            d = describe_change(b, a, "%s[%d]" % (path, i))
            if d:
                return d
    if before[0] == "tensor":
        return ("%s: tensor replaced / changed (same object: %s, dtype %s -> %s, requires_grad %s -> %s, attached to a graph %s -> %s, same content: %s)"
                % (path, before[1] == after[1], before[2], after[2], before[4], after[4], before[5], after[5], before[6] == after[6]))
    if before[0] in ("dict", "list", "tuple"):
        return "%s: the %s was replaced by another object" % (path, before[0])
    return "%s: %s %s -> %s" % (path, before[0], str(before[2])[:60], str(after[2])[:60])


def value_copy(obj):
    """Independent copy BY VALUE (copy.deepcopy refuses non-leaf tensors): tensors are detached clones."""
    import torch
    if isinstance(obj, torch.Tensor):
        return obj.detach().clone()
    if isinstance(obj, dict):
        return {k: value_copy(v) for k, v in obj.items()}
    if isinstance(obj, list):
        return [value_copy(v) for v in obj]
    if isinstance(obj, tuple):
        return tuple(value_copy(v) for v in obj)
    return copy.deepcopy(obj)


def live_metadata(rng, depth3=True):
    """Nested metadata a training script keeps: a learnable tensor (requires_grad), the differentiable loss computed
    from it (non-leaf), derived values in lists / tuples / dicts 2-3 levels deep, Python numbers / strings / None."""
    import torch
    beta = torch.tensor(rng.normal(size=2) + 0.5, dtype=torch.double, requires_grad=True)
    loss = (beta ** 2).sum()
    run = {"beta": beta, "loss": loss, "trace": [loss * 2.0, 3, "s", None], "pair": (1.5, beta.detach() * 3.0)}
    if depth3:
        run["opt"] = {"name": "SGD", "groups": [{"lr": 0.01, "w": torch.tensor([float(rng.integers(0, 5)), 1.0], requires_grad=True)}]}
    return run


def deep_eq(a, b):
    import torch
    if isinstance(a, torch.Tensor) or isinstance(b, torch.Tensor):
        return isinstance(a, torch.Tensor) and isinstance(b, torch.Tensor) and a.shape == b.shape and a.dtype == b.dtype and torch.equal(a, b)
    if isinstance(a, dict) and isinstance(b, dict):
        return list(a.keys()) == list(b.keys()) and all(deep_eq(a[k], b[k]) for k in a)
    if isinstance(a, (list, tuple)) and isinstance(b, (list, tuple)):
        return type(a) is type(b) and len(a) == len(b) and all(deep_eq(x, y) for x, y in zip(a, b))
    return type(a) is type(b) and a == b


def compatible(snap, s):
    for n in s.networks:
        if n not in snap["nets"]:
            return False
        have = [(k, tuple(p.shape)) for k, p in getattr(s, n).named_parameters()]
        if have != [(k, tuple(t.shape)) for k, t in snap["nets"][n]]:
            return False
    return True


def check_loaded(ctx, what, snap, s, case, require_ud):
    import torch
    ok = True
    for n in s.networks:
        for (k, p), (k0, t0) in zip(getattr(s, n).named_parameters(), snap["nets"][n]):
            ok = ok and k == k0 and p.shape == t0.shape and torch.equal(p.data, t0)
    ctx.require(what + ": parameters bit-identical to those at save time", ok, case)
    if require_ud and snap["ud"] is not None and hasattr(s, "unitary_dict"):
        u = s.unitary_dict
        want = snap["ud"]
        same_keys = isinstance(u, dict) and set(u.keys()) == set(want.keys())       # the exact KEY SET: nothing missing, nothing added
        okd = same_keys and all(isinstance(u[k], torch.Tensor) and u[k].shape == want[k].shape and u[k].dtype == want[k].dtype
                                and torch.equal(u[k], want[k]) for k in want)
        detail = None
        if not okd:
            have = sorted(map(str, u.keys())) if isinstance(u, dict) else repr(type(u))
            detail = {"saved keys": sorted(map(str, want.keys())), "keys after " + what.split(" ")[0]: have}
            if same_keys:
                detail["matrices that differ"] = [str(k) for k in want if not (isinstance(u[k], torch.Tensor) and u[k].shape == want[k].shape
                                                                                and torch.equal(u[k], want[k]))]
            else:
                detail["added"] = sorted(str(k) for k in u if k not in want) if isinstance(u, dict) else None
                detail["missing"] = sorted(str(k) for k in want if k not in u) if isinstance(u, dict) else None
        ctx.require(what + ": unitary dictionary equal key by key", okd, case, detail)


def one_history(ctx, hid, nops):
    import torch
    from qucumber.nn_states import PositiveWaveFunction, ComplexWaveFunction, DensityMatrix
    from qucumber.callbacks import ModelSaver
    CLS = [PositiveWaveFunction, ComplexWaveFunction, DensityMatrix]
    rng = ctx.rng
    T = Tables()
    R = Real(ctx, T)
    for f in list(range(5)) + [9]:
        try:
            os.remove(R.path(f))
        except OSError:
            pass
    # two shape classes so that compatible loads are frequent
    shapes = []
    for _ in range(2):
        nv = int(rng.integers(1, 5))
        nh = int(rng.choice([h for h in range(1, 6) if h != nv]))
        na = int(rng.choice([a for a in range(1, 4) if a != nv] or [1]))
        shapes.append((nv, nh, na))
    nstates = int(rng.integers(4, 7))
    desc_states = []
    from qucumber.utils import unitaries as _unitaries
    shared_ud = _unitaries.create_dict()              # ONE dictionary object of the caller, handed to several constructors
    shared_ud["H%d" % rng.integers(0, 3)] = rand_unitary(ctx)
    for sid in range(nstates):
        kind = int(rng.integers(0, 3)) if sid >= 3 else sid
        nv, nh, na = shapes[int(rng.integers(0, 2))]
        R.reg_state(sid, make_state(ctx, kind, nv, nh, na, shared_ud, R))
        desc_states.append([kind, nv, nh, na])
    R.mds = {0: {}, 1: {"a": 1, "note": "run-%d" % hid},
             2: {"cfg": {"lr": 0.25, "layers": [2, 3], "live": live_metadata(rng, depth3=False)}, "t": torch.tensor(rng.normal(size=(2, 2)))}}
    next_sid = nstates
    # one LONG-LIVED ModelSaver per metadata object, constructed before any MutateMd of the history: the file must
    # hold the dict as it is at SAVE time, not as it was when the saver was constructed
    savers = {m_: ModelSaver(period=1, folder_path=ctx.scratch, file_name="f{}", save_initial=True, metadata=R.mds[m_]) for m_ in R.mds}
    savers[None] = ModelSaver(period=1, folder_path=ctx.scratch, file_name="f{}", save_initial=True, metadata=None)
    h0 = R.norm()
    case = {"history": hid, "seed": ctx.seed, "states": desc_states, "ops": []}
    # The history is cut into segments: after a FAILING load / autoload (about whose after-state the property says
    # nothing) the model is restarted from the real heap, and for that step only "raises vs does not raise" and
    # the untouched metadata / files are compared.
    segments = [[wire_heap(h0, R.next_nid), [], []]]

    def emit(op, label, exc, touched=(), malformed=False):
        ctx.count("op:" + label.split("(")[0].split("[")[0].rstrip("0123456789"))
        ctx.count("result:%s" % ("ok" if exc is None else type(exc).__name__))
        case["ops"].append(label)
        h = R.norm(touched)
        segments[-1][1].append(op)
        segments[-1][2].append((exc is not None, h, ("mds", "files") if (malformed and exc is not None) else ("states", "mds", "files"), label))
        if malformed and exc is not None:
            ctx.count("resync_after_failed_load")
            segments.append([wire_heap(h, R.next_nid), [], []])

    def resync():
        """Restart the model from the real heap (after something the Store model has no operation for)."""
        segments.append([wire_heap(R.norm(), R.next_nid), [], []])

    def meta_fn(md_, seen):
        """A metadata FUNCTION (nn_state, epoch) -> dict that uses both arguments."""
        def f(nn, ep_):
            seen.append(ep_)
            return {**md_, "epoch": ep_, "nv": int(nn.num_visible)}
        return f

    def register_md(d):
        """The dict a metadata function is expected to have produced becomes a metadata object of the heap."""
        mid_ = R.next_mid
        R.next_mid += 1
        R.mds[mid_] = value_copy(d)                     # the harness's own record: shares nothing with the caller's dict
        resync()
        return mid_
    saved = {}           # fid -> (snapshot, metadata deep copy) of the last ACCEPTED full save
    nontrivial = False
    md_keys = ["a", "b", "cfg", "t", "rbm_am", "rbm_ph", "unitary_dict"]
    for step in range(nops):
        r = rng.random()
        sid = int(rng.choice(list(R.states.keys())))
        s = R.states[sid]
        fid = int(rng.integers(0, 4))
        mid = [None, 0, 1, 2][int(rng.integers(0, 4))]
        md = None if mid is None else R.mds[mid]
        touched, exc, malformed, op = [], None, False, None
        abandon = False
        if r < 0.14:                                        # the parameter OBJECTS (or a whole network) are replaced
            owners = sorted({v[2][0] for v in saved.values() if v[2][0] in R.states})
            if owners and rng.random() < 0.75:              # prefer a model that has already been saved
                sid = int(rng.choice(owners))
                s = R.states[sid]
            how = str(rng.choice(["reinitialize_parameters", "rbm.initialize_parameters", "assign nn.Parameter", "assign new network"],
                                 p=[0.4, 0.2, 0.2, 0.2]))
            net = str(rng.choice(s.networks))
            rbm = getattr(s, net)
            if how == "reinitialize_parameters":
                s.reinitialize_parameters()
            elif how == "rbm.initialize_parameters":
                rbm.initialize_parameters()
            elif how == "assign nn.Parameter":
                pname = str(rng.choice([n for n, _ in rbm.named_parameters()]))
                old_p = getattr(rbm, pname)
                setattr(rbm, pname, torch.nn.Parameter(torch.tensor(rng.normal(size=tuple(old_p.shape)) + 0.2), requires_grad=False))
            else:                                           # a whole new network object of the same class and sizes
                new_rbm = copy.deepcopy(rbm)
                new_rbm.initialize_parameters()
                for _, p_ in new_rbm.named_parameters():
                    p_.data.add_(torch.tensor(rng.normal(size=tuple(p_.shape)) * 0.3 + 0.1))
                setattr(s, net, new_rbm)
                T.keep.append(new_rbm)
                R.nids[id(new_rbm)] = R.next_nid
                R.next_nid += 1
            ctx.count("replace:" + how)
            if how == "assign new network":
                # a user assignment the Store model has no operation for: the model is restarted from the real heap
                case["ops"].append("assign_new_network(%d,%s)" % (sid, net))
                segments.append([wire_heap(R.norm(), R.next_nid), [], []])
                op = None
            else:
                op = [0, sid, [[t for _, _, t in R.net_params(getattr(s, n))] for n in s.networks]]
                label = "%s(%d)" % (how.replace(" ", "_"), sid)
        elif r < 0.22:                                      # training: in-place stand-in, or a real fit (with ModelSaver)
            sub = rng.random()
            kind_s = KIND[type(s).__name__]
            reserved_s = set(s.networks) | ({"unitary_dict"} if hasattr(s, "unitary_dict") else set())
            if sub < 0.5:
                wmode = int(rng.integers(0, 3))
                randomise_inplace(ctx, s, scale=float(rng.choice([0.5, 2.0])), mode=wmode)
                ctx.count("train stand-in:" + ["p.data.copy_(new)", "p.data = new", "p.copy_(new) under no_grad"][wmode])
                op = [1, sid, [[t for _, _, t in R.net_params(getattr(s, n))] for n in s.networks]]
                label = "train(%d)" % sid
            else:
                nv_s = int(s.num_visible)
                data = torch.tensor(rng.integers(0, 2, size=(6, nv_s)), dtype=torch.double)
                kw = dict(pos_batch_size=3, k=1, lr=0.1)
                if kind_s > 0:
                    ud_now = s.unitary_dict if isinstance(s.unitary_dict, dict) else {}
                    letters = [b for b in ("X", "Y") if b in ud_now] + ["Z"]
                    kw["input_bases"] = np.array([["Z"] * nv_s] * 3 + [list(rng.choice(letters, size=nv_s)) for _ in range(3)])
                with_saver = sub >= 0.7 and not (md and (reserved_s & set(md.keys())))
                ep = int(rng.integers(1, 4))                 # ModelSaver writes f{ep} at the end of epoch ep
                ocase = dict(case, step=step, op="fit(%d)" % sid)
                if not with_saver:
                    okf, _ = ctx.call("fit", ocase, lambda: s.fit(data, epochs=1, **kw))
                    op = [1, sid, [[t for _, _, t in R.net_params(getattr(s, n))] for n in s.networks]]
                    label = "fit(%d)" % sid
                else:
                    from qucumber.callbacks import CallbackBase
                    mdarg = [] if mid is None else [mid]
                    fn_seen = None
                    if md is None or rng.random() < 0.6:
                        ms = savers[mid]                    # constructed at the start of the history
                    else:                                   # a metadata function that uses (nn_state, epoch)
                        fn_seen = []
                        ms = ModelSaver(period=1, folder_path=ctx.scratch, file_name="f{}", save_initial=True,
                                        metadata=meta_fn(md, fn_seen))
                        ctx.count("fit_with_ModelSaver:metadata function of (nn_state, epoch)")
                    md_before = value_copy(md)
                    expected_md = {}                        # what each written file must hold, by file id
                    flag = bool(md) or hasattr(s, "unitary_dict")

                    class Pre(CallbackBase):                 # runs BEFORE the saver: the heap after training, before the save
                        def on_epoch_end(self_, nn, e_):
                            emit([1, sid, [[t for _, _, t in R.net_params(getattr(s, n))] for n in s.networks]], "fit-epoch(%d)" % sid, None)
                            if md is not None:               # another callback updates the caller's metadata during training
                                k_ = str(rng.choice(["epoch", "b", "cfg"]))
                                v_ = md_value(ctx)
                                md[k_] = v_
                                emit([7, mid, T.key(k_), T.tok(v_)], "md%d[%s]=... (inside fit)" % (mid, k_), None)

                    class Post(CallbackBase):                # runs AFTER the saver
                        def on_train_start(self_, nn):
                            a_ = mdarg
                            if fn_seen is not None:          # epoch of the initial file: whatever the function was given
                                expected_md[9] = {**md, "epoch": (fn_seen[-1] if fn_seen else None), "nv": int(s.num_visible)}
                                a_ = [register_md(expected_md[9])]
                            emit([3, sid, 9, a_], "ModelSaver-initial(%d,finitial,md%s)" % (sid, mid), None, [9])
                            saved[9] = (snapshot(s), value_copy(md), (sid, mid), step, flag)

                        def on_epoch_end(self_, nn, e_):
                            a_ = mdarg
                            if fn_seen is not None:          # periodic file: the metadata of THIS epoch
                                expected_md[ep] = {**md, "epoch": ep, "nv": int(s.num_visible)}
                                a_ = [register_md(expected_md[ep])]
                            emit([3, sid, ep, a_], "ModelSaver-in-fit(%d,f%d,md%s)" % (sid, ep, mid), None, [ep])
                            saved[ep] = (snapshot(s), value_copy(md), (sid, mid), step, flag)
                    okf, _ = ctx.call("fit with a ModelSaver callback", ocase,
                                      lambda: s.fit(data, epochs=ep, starting_epoch=ep, callbacks=[Pre(), ms, Post()], **kw))
                    if okf and md is not None:
                        dlast = torch.load(R.path(ep))
                        want_md = expected_md.get(ep, md)
                        ctx.require("ModelSaver inside fit stores the caller's metadata as it is at save time"
                                    + (" (metadata function: the metadata of that epoch)" if fn_seen is not None else ""),
                                    all(k_ in dlast and deep_eq(dlast[k_], v_) for k_, v_ in want_md.items()), ocase,
                                    {"metadata": repr(want_md)[:200], "file": repr({k_: dlast[k_] for k_ in dlast if k_ in want_md})[:200]})
                    ctx.count("fit_with_ModelSaver")
                    op = None                                # everything was emitted from inside the callbacks
                    if not okf:
                        return
        elif r < 0.28:                                      # user adds a unitary
            name = "U%d" % rng.integers(0, 3)
            if rng.random() < 0.4 and hasattr(s, "unitary_dict") and isinstance(s.unitary_dict, dict) and s.unitary_dict:
                name = str(rng.choice(sorted(s.unitary_dict.keys())))     # override an existing unitary
            u = rand_unitary(ctx)
            has_d = hasattr(s, "unitary_dict") and isinstance(s.unitary_dict, dict) and bool(s.unitary_dict)
            if has_d and rng.random() < 0.45:               # seed round 7: the KEY SET shrinks / is renamed / the attribute is replaced
                how = edit_keyset(ctx, s)
                ctx.count("unitary key set edited:" + how.split(" ")[0])
                case["ops"].append("edit_unitary_keyset(%d: %s)" % (sid, how))
                resync()                                    # the Store model has no operation for it: restarted from the real heap
                op = None
            elif has_d and rng.random() < 0.4:              # an existing unitary is edited IN PLACE (same tensor object)
                name = str(rng.choice(sorted(s.unitary_dict.keys())))
                t_ = s.unitary_dict[name]
                if rng.random() < 0.5:
                    t_.copy_(u)
                else:
                    t_[:, [0, 1]] = t_[:, [1, 0]]           # index assignment: the two rows swapped (still unitary)
                ctx.count("unitary edited in place")
                if R.sharers(sid, t_):                      # the tensor also sits in other states' dictionaries: they all change
                    ctx.count("unitary edited in place: tensor shared with other states")
                    case["ops"].append("edit_unitary_inplace(%d,%s) [shared tensor]" % (sid, name))
                    resync()
                    op = None
                else:
                    op = [2, sid, T.key(name), T.tok(t_)]
                    label = "edit_unitary_inplace(%d,%s)" % (sid, name)
            else:
                try:
                    s.unitary_dict[name] = u
                except Exception as e:
                    exc = e
                op = [2, sid, T.key(name), T.tok(u)]
                label = "add_unitary(%d,%s)" % (sid, name)
        elif r < 0.58:                                      # save (direct or through ModelSaver)
            before_params = snapshot(s)
            md_before = value_copy(md)
            fp_before = fingerprint(md)
            file_before = R.file_cache.get(fid)
            others_before = R.bystanders(sid)
            via = "save"
            md_eff, mid_eff = md, mid                       # what the file has to hold / the heap object the model saves
            try:
                if rng.random() < 0.35:
                    via = "ModelSaver"
                    if rng.random() < 0.6 or md is None:
                        ms = savers[mid]                    # long-lived: built before the MutateMd steps of this history
                    else:                                   # a metadata function that uses (nn_state, epoch)
                        via = "ModelSaver[metadata function]"
                        ms = ModelSaver(period=1, folder_path=ctx.scratch, file_name="f{}", save_initial=False,
                                        metadata=meta_fn(md, []))
                        md_eff = {**md, "epoch": fid, "nv": int(s.num_visible)}
                        mid_eff = register_md(md_eff)
                    ms.on_epoch_end(s, fid)
                else:
                    form = str(rng.choice(["str", "Path", "file"], p=[0.6, 0.2, 0.2]))
                    via = "save[%s]" % form
                    if form == "str":
                        s.save(R.path(fid), md)
                    elif form == "Path":
                        s.save(pathlib.Path(R.path(fid)), md)
                    else:                                   # a file-like object; committed to disk only if save returned
                        buf = io.BytesIO()
                        s.save(buf, md)
                        with open(R.path(fid), "wb") as fh:
                            fh.write(buf.getvalue())
            except Exception as e:
                exc = e
            touched = [fid]
            op = [3, sid, fid, [] if mid_eff is None else [mid_eff]]
            label = "%s(%d,f%d,md%s)" % (via, sid, fid, mid)
            ocase = dict(case, step=step, op=label)
            ctx.require("save changes no other state and no dictionary the caller passed to a constructor",
                        R.bystanders(sid) == others_before, ocase)
            # ---- oracle: purity
            ctx.require("save leaves the metadata object unchanged (same object, deep-equal content)",
                        (md is None) or (R.mds[mid] is md and deep_eq(md, md_before)), ocase,
                        {"before": repr(md_before)[:200], "after": repr(md)[:200]})
            ctx.require(PURITY_DEEP,
                        (md is None) or fingerprint(md) == fp_before, ocase, describe_change(fp_before, fingerprint(md)))
            ctx.require("save leaves the state's parameters and unitary dictionary unchanged",
                        deep_eq(snapshot(s)["nets"], before_params["nets"]) and deep_eq(snapshot(s)["ud"], before_params["ud"]), ocase)
            reserved = set(s.networks) | ({"unitary_dict"} if hasattr(s, "unitary_dict") else set())
            clash = bool(md) and bool(reserved & set(md.keys()))
            if clash:
                ctx.require("reserved metadata key is refused (an exception is raised)", exc is not None, ocase, repr(exc))
                ctx.require("a refused save writes nothing", R.norm_file(fid) == file_before, ocase)
                ctx.count("refused_reserved")
            else:
                ctx.require("save with admissible metadata is accepted (raised %s)" % type(exc).__name__, exc is None, ocase, repr(exc))
                if exc is None:
                    d = torch.load(R.path(fid))
                    okm = all(k in d and deep_eq(d[k], v) for k, v in (md_eff or {}).items())
                    if md_eff is not md:
                        ctx.require("a ModelSaver with a metadata function stores what the function returns for (state, current epoch)",
                                    okm, ocase, {"expected": repr(md_eff)[:200], "file": repr({k: d[k] for k in d if k in md_eff})[:200]})
                    okf = okm and all(n in d and deep_eq(dict(d[n]), dict(getattr(s, n).state_dict())) for n in s.networks)
                    if hasattr(s, "unitary_dict"):
                        okf = okf and "unitary_dict" in d and deep_eq(d["unitary_dict"], s.unitary_dict)
                    ctx.require("the written file holds every metadata key/value, every network's state dict and unitary_dict", okf, ocase)
                    if fid in saved and saved[fid][2] == (sid, mid) and saved[fid][3] == step - 1:
                        ctx.count("save_again_same_objects")
                    saved[fid] = (snapshot(s), value_copy(md), (sid, mid), step, bool(md) or hasattr(s, "unitary_dict"))
            if exc is not None and fid in saved and R.norm_file(fid) != file_before:
                saved.pop(fid, None)
        elif r < 0.63:                                      # ModelSaver(metadata_only=True)
            try:
                ms = ModelSaver(period=1, folder_path=ctx.scratch, file_name="f{}", save_initial=False, metadata=md, metadata_only=True)
                ms.on_epoch_end(s, fid)
            except Exception as e:
                exc = e
            touched = [fid]
            saved.pop(fid, None)
            op = [4, fid, [] if mid is None else [mid]]
            label = "save_md_only(f%d,md%s)" % (fid, mid)
        elif r < 0.78:                                      # load
            if saved and rng.random() < 0.8:
                fid = int(rng.choice(sorted(saved.keys())))
                comp = [i for i, x in R.states.items() if compatible(saved[fid][0], x)]
                if comp and rng.random() < 0.7:
                    sid = int(rng.choice(comp))
                    s = R.states[sid]
            others_before = R.bystanders(sid)
            try:
                form = str(rng.choice(["str", "Path", "file"], p=[0.6, 0.2, 0.2]))
                if form == "str":
                    s.load(R.path(fid))
                elif form == "Path":
                    s.load(pathlib.Path(R.path(fid)))
                else:
                    with open(R.path(fid), "rb") as fh:
                        s.load(fh)
            except Exception as e:
                exc = e
            op = [5, sid, fid]
            malformed = True
            label = "load(%d,f%d)" % (sid, fid)
            if exc is None:
                others_after = R.bystanders(sid)
                ocase = dict(case, step=step, op=label)
                ctx.require("a load changes no other state of the history", others_after[0] == others_before[0], ocase,
                            {"changed states": [i for i in others_before[0] if others_after[0].get(i) != others_before[0][i]]})
                ctx.require("a load leaves the dictionaries the caller passed to constructors unchanged", others_after[1] == others_before[1], ocase)
            if fid in saved and compatible(saved[fid][0], s):
                ocase = dict(case, step=step, op=label)
                ctx.require("load into a compatible state is accepted (raised %s)" % type(exc).__name__, exc is None, ocase, repr(exc))
                if exc is None:
                    check_loaded(ctx, "load", saved[fid][0], s, ocase, True)
                    ctx.count("load_after_save")
                    nontrivial = nontrivial or saved[fid][4]
            if exc is None:
                abandon = afterlife_probe(ctx, R, sid, fid, dict(case, step=step, op=label))
        elif r < 0.90:                                      # autoload
            kind = int(rng.integers(0, 3))
            if saved and rng.random() < 0.8:
                fid = int(rng.choice(sorted(saved.keys())))
            if fid in saved and rng.random() < 0.7:
                kind = KIND[saved[fid][0]["cls"]]
            new = None
            others_before = R.bystanders(None)
            try:
                loc = R.path(fid) if rng.random() < 0.7 else pathlib.Path(R.path(fid))
                new = CLS[kind].autoload(loc, gpu=False)
            except Exception as e:
                exc = e
            op = [6, kind, fid, next_sid]
            malformed = True
            label = "autoload(%s,f%d)->%d" % (CLS[kind].__name__, fid, next_sid)
            if exc is None:
                ctx.require("autoload changes no existing state and no dictionary the caller passed to a constructor",
                            R.bystanders(None) == others_before, dict(case, step=step, op=label))
            if fid in saved and KIND[saved[fid][0]["cls"]] == kind:
                ocase = dict(case, step=step, op=label)
                ctx.require("autoload of a file saved by the same state type is accepted (raised %s)" % type(exc).__name__, exc is None, ocase, repr(exc))
                if exc is None:
                    ctx.require("autoload rebuilds the saved architecture", compatible(saved[fid][0], new) and set(new.networks) == set(saved[fid][0]["nets"]), ocase)
                    if compatible(saved[fid][0], new):
                        check_loaded(ctx, "autoload", saved[fid][0], new, ocase, True)
                    ctx.count("autoload_after_save")
                    nontrivial = nontrivial or saved[fid][4]
            if new is not None:
                R.reg_state(next_sid, new)
                abandon = afterlife_probe(ctx, R, next_sid, fid, dict(case, step=step, op=label))
                next_sid += 1
        else:                                               # the caller mutates a metadata dict
            mid = int(rng.integers(0, 3))
            deep = [k_ for k_, v_ in R.mds[mid].items() if isinstance(v_, (dict, list))
                    or (isinstance(v_, torch.Tensor) and v_.is_floating_point() and v_.numel() > 0 and not v_.requires_grad)]
            if deep and rng.random() < 0.4:                 # the caller edits a value IN PLACE, below the top level
                k = str(rng.choice(sorted(deep)))
                v = R.mds[mid][k]
                if isinstance(v, torch.Tensor):
                    v.add_(1.0)
                elif isinstance(v, dict):
                    v[str(rng.choice(["lr", "inner", "new"]))] = md_value(ctx)
                else:
                    v.append(int(rng.integers(0, 9)))
                ctx.count("metadata edited in place below the top level:" + type(v).__name__)
                label = "md%d[%s] edited in place (%s)" % (mid, k, type(v).__name__)
            else:
                k = str(rng.choice(md_keys, p=[0.2, 0.2, 0.1, 0.1, 0.15, 0.1, 0.15]))
                v = md_value(ctx, reserved=k in ("rbm_am", "rbm_ph", "unitary_dict"))
                R.mds[mid][k] = v
                label = "md%d[%s]=..." % (mid, k)
            op = [7, mid, T.key(k), T.tok(v)]
        if op is not None:
            emit(op, label, exc, touched, malformed)
        if abandon:
            break
    # ---- correspondence with the model, step by step (result compared only as "raises" vs "does not raise")
    m = ctx.get_model()
    i = 0
    good = True
    for init_wire, ops, real_trace in segments:
        if not ops or not good:
            continue
        out = m.call("store_run", init_wire, ops)
        for (rraised, rh, parts, label), mo in zip(real_trace, out):
            c = dict(case, step=i, op=label)
            i += 1
            if not ctx.agree_exact("step %d raises" % (i - 1), rraised, int(mo[0]) != 0, c):
                good = False
                break
            mh = norm_model_heap(mo[1])
            for part in parts:
                if rh[part] != mh[part]:
                    diff = [k for k in set(rh[part]) | set(mh[part]) if rh[part].get(k) != mh[part].get(k)]
                    k0 = diff[0]
                    ctx.disagreements.append({"what": "heap after step %d: %s" % (i - 1, part), "case": c,
                                              "detail": "object %r: impl %r vs model %r" % (k0, rh[part].get(k0), mh[part].get(k0))})
                    good = False
            if not good:
                break
    ctx.traces += 1
    ctx.case({"history": hid, "states": desc_states, "ops": case["ops"]}, nontrivial=nontrivial)


def trust_check(ctx):
    import torch
    ok = True
    for i in range(5):
        t = {"a": torch.tensor(ctx.rng.normal(size=(3, 4))), "b": [torch.tensor(ctx.rng.normal(size=(2,))), 1, "s"]}
        p = os.path.join(ctx.scratch, "trust%d" % i)
        torch.save(t, p)
        u = torch.load(p)
        ok = ok and deep_eq(t, u)
    ctx.require("torch.save / torch.load round-trip random tensors bit-identically (trusted base)", ok, {"trust_check": True})


def fixed_histories(ctx):
    """The defect repaired in 0e4d0b8 and its neighbours, always executed."""
    import torch
    from qucumber.nn_states import ComplexWaveFunction, DensityMatrix, PositiveWaveFunction
    from qucumber.callbacks import ModelSaver
    for cls, args in ((ComplexWaveFunction, (2, 3)), (DensityMatrix, (2, 3, 1)), (PositiveWaveFunction, (3, 2))):
        s = cls(*args, gpu=False)
        randomise_inplace(ctx, s)
        md = {"a": 1, "t": torch.tensor([1.0, 2.0])}
        md0 = value_copy(md)
        p = os.path.join(ctx.scratch, "fixed_" + cls.__name__)
        case = {"history": ["save(md!={})", "save(same md)"], "state": cls.__name__, "state_has_unitary_dict": hasattr(s, "unitary_dict")}
        ok1, _ = ctx.call("first save", case, s.save, p, md)
        d1 = torch.load(p) if ok1 else None
        ok2, _ = ctx.call("second save with the same metadata object", case, s.save, p, md)
        ctx.require("metadata object unchanged by two saves", deep_eq(md, md0), case, repr(md)[:200])
        if ok1 and ok2:
            ctx.require("two saves write equal records", deep_eq(d1, torch.load(p)), case)
        ms = ModelSaver(period=1, folder_path=os.path.join(ctx.scratch, "ms_" + cls.__name__), file_name="e{}", metadata=md)
        okm, _ = ctx.call("ModelSaver on_train_start + two epochs with dict metadata", case,
                          lambda: (ms.on_train_start(s), ms.on_epoch_end(s, 1), ms.on_epoch_end(s, 2)))
        ctx.require("metadata object unchanged by ModelSaver", deep_eq(md, md0), case)
        ctx.traces += 1


def replace_histories(ctx):
    """save -> the parameter objects are REPLACED -> save again with the same model object -> load / autoload.
    The file written by the LATER save must hold the parameters the model had at that later save."""
    import torch
    from qucumber.nn_states import ComplexWaveFunction, DensityMatrix, PositiveWaveFunction
    from qucumber.rbm import BinaryRBM, PurificationRBM
    hows = ["reinitialize_parameters", "rbm.initialize_parameters", "assign nn.Parameter", "assign new network",
            # ... or keep their identity and are rewritten IN PLACE (seed round 3: every legal way of changing a model between two saves)
            "p.data.copy_(new)", "p.data = new", "p.copy_(new) under no_grad", "rbm.load_state_dict", "short fit", "state.load(another file)"]
    for cls, args in ((PositiveWaveFunction, (3, 2)), (ComplexWaveFunction, (2, 3)), (DensityMatrix, (2, 3, 1))):
        for how in hows:
            for same_file in ((True, False) if how in hows[:5] else (True,)):
                ctx.torch_seed()
                s = cls(*args, gpu=False)
                randomise_inplace(ctx, s)
                md = {"run": 7}
                p1 = os.path.join(ctx.scratch, "rep1_" + cls.__name__)
                p2 = p1 if same_file else os.path.join(ctx.scratch, "rep2_" + cls.__name__)
                case = {"history": ["save", how, "save(same model)", "load", "autoload"], "state": cls.__name__, "same_file": same_file}
                ctx.case(case, nontrivial=True)
                ok, _ = ctx.call("first save", case, s.save, p1, md)
                if not ok:
                    continue
                net = s.networks[-1]
                rbm = getattr(s, net)
                if how == "reinitialize_parameters":
                    s.reinitialize_parameters()
                elif how == "rbm.initialize_parameters":
                    rbm.initialize_parameters()
                elif how == "assign nn.Parameter":
                    for n_, p_ in list(rbm.named_parameters()):
                        setattr(rbm, n_, torch.nn.Parameter(torch.tensor(ctx.rng.normal(size=tuple(p_.shape)) + 0.2), requires_grad=False))
                elif how in ("p.data.copy_(new)", "p.data = new", "p.copy_(new) under no_grad", "rbm.load_state_dict"):
                    fresh = {n_: torch.tensor(ctx.rng.normal(size=tuple(p_.shape)) + 0.2, dtype=torch.double) for n_, p_ in rbm.named_parameters()}
                    if how == "rbm.load_state_dict":
                        rbm.load_state_dict(fresh)
                    for n_, p_ in rbm.named_parameters():
                        if how == "p.data.copy_(new)":
                            p_.data.copy_(fresh[n_])
                        elif how == "p.data = new":
                            p_.data = fresh[n_]
                        elif how.startswith("p.copy_"):
                            with torch.no_grad():
                                p_.copy_(fresh[n_])
                elif how == "short fit":
                    nv_ = int(s.num_visible)
                    kw_ = {} if cls is PositiveWaveFunction else {"input_bases": np.array([["Z"] * nv_] * 2 + [["X"] + ["Z"] * (nv_ - 1)] * 2)}
                    okf, _ = ctx.call("fit", case, lambda: s.fit(torch.tensor(ctx.rng.integers(0, 2, size=(4, nv_)), dtype=torch.double),
                                                                 epochs=2, pos_batch_size=2, lr=0.2, **kw_))
                    if not okf:
                        continue
                elif how == "state.load(another file)":
                    other = cls(*args, gpu=False)
                    randomise_inplace(ctx, other)
                    p3 = os.path.join(ctx.scratch, "rep3_" + cls.__name__)
                    okf, _ = ctx.call("load of another state's file", case, lambda: (other.save(p3), s.load(p3)))
                    if not okf:
                        continue
                else:
                    new_rbm = (BinaryRBM(args[0], args[1], gpu=False) if cls is not DensityMatrix else PurificationRBM(*args, gpu=False))
                    for _, p_ in new_rbm.named_parameters():
                        p_.data.add_(torch.tensor(ctx.rng.normal(size=tuple(p_.shape)) * 0.3 + 0.1))
                    setattr(s, net, new_rbm)
                snap2 = snapshot(s)                      # what the model holds at the LATER save
                ok, _ = ctx.call("second save after the parameters were replaced / rewritten", case, s.save, p2, md)
                if not ok:
                    continue
                d = torch.load(p2)
                ctx.require("the file written by the later save holds the parameters the model had at that save",
                            all(n in d and deep_eq([(k, t) for k, t in d[n].items()], snap2["nets"][n]) for n in s.networks), case)
                t = cls(*args, gpu=False)
                ok, _ = ctx.call("load of the later file into a compatible state", case, t.load, p2)
                if ok:
                    check_loaded(ctx, "load (after replace + save)", snap2, t, case, True)
                ok, a = ctx.call("autoload of the later file", case, lambda: cls.autoload(p2, gpu=False))
                if ok:
                    check_loaded(ctx, "autoload (after replace + save)", snap2, a, case, True)
                ctx.count("fixed_replace:" + how)
                ctx.traces += 1


def metadata_value_histories(ctx):
    """(a) every metadata value — also None / 0 / "" / False / [] / {} — is stored; (b) reserved names are refused
    whatever value they carry; (c) a ModelSaver built BEFORE the caller updates the metadata dict stores the dict as
    it is at save time."""
    import torch
    from qucumber.nn_states import ComplexWaveFunction, DensityMatrix, PositiveWaveFunction
    from qucumber.callbacks import ModelSaver
    values = [None, 0, "", False, [], {}, 0.0, 5, "x", {"a": None}, [None, 0], torch.tensor([0.0, 1.0]), torch.zeros(2)]
    for cls, args in ((PositiveWaveFunction, (3, 2)), (ComplexWaveFunction, (2, 3)), (DensityMatrix, (2, 3, 1))):
        s = cls(*args, gpu=False)
        randomise_inplace(ctx, s)
        p = os.path.join(ctx.scratch, "mdv_" + cls.__name__)
        # (a)
        md = {"k%d" % i: copy.deepcopy(v) for i, v in enumerate(values)}
        case = {"history": ["save(metadata with falsy values)"], "state": cls.__name__}
        ctx.case(case, nontrivial=True)
        ok, _ = ctx.call("save with None / 0 / '' / False / [] / {} metadata values", case, s.save, p, md)
        if ok:
            d = torch.load(p)
            missing = [k for k, v in md.items() if k not in d or not deep_eq(d[k], v)]
            ctx.require("the written file holds every metadata key/value (falsy values included)", not missing, case, {"missing or changed": missing})
            ok, a = ctx.call("autoload of that file", case, lambda: cls.autoload(p, gpu=False))
            if ok:
                check_loaded(ctx, "autoload", snapshot(s), a, case, True)
        # (b)
        reserved = list(s.networks) + (["unitary_dict"] if hasattr(s, "unitary_dict") else [])
        for name in reserved:
            for v in values + [{"w": torch.ones(2)}]:
                before = open(p, "rb").read() if os.path.exists(p) else None
                exc = None
                try:
                    s.save(p, {"note": 1, name: copy.deepcopy(v)})
                except Exception as e:
                    exc = e
                case = {"history": ["save(reserved name with value %s)" % type(v).__name__], "state": cls.__name__, "reserved": name, "value": repr(v)[:40]}
                ctx.require("reserved metadata key is refused (an exception is raised)", exc is not None, case)
                after = open(p, "rb").read() if os.path.exists(p) else None
                ctx.require("a refused save writes nothing", before == after, case)
                ctx.count("fixed_reserved_refusal")
        # (c)
        for form in ("dict", "callable"):
            md = {"epochs_done": 0}
            folder = os.path.join(ctx.scratch, "msl_%s_%s" % (cls.__name__, form))
            ms = ModelSaver(period=1, folder_path=folder, file_name="e{}", save_initial=True,
                            metadata=md if form == "dict" else (lambda nn, ep, _m=md: _m))
            case = {"history": ["ModelSaver(metadata=md)", "md updated by the caller", "periodic save"], "state": cls.__name__, "metadata_form": form}
            ctx.case(case, nontrivial=True)
            good = True
            for ep in (1, 2):
                md["epochs_done"] = ep
                md["seen_%d" % ep] = None if ep == 1 else [ep]
                ok, _ = ctx.call("periodic save", case, ms.on_epoch_end, s, ep)
                if ok:
                    d = torch.load(os.path.join(folder, "e%d" % ep))
                    good = good and all(k in d and deep_eq(d[k], v) for k, v in md.items())
            ctx.require("a periodic save stores the caller's metadata as it is at save time", good, case)
            ctx.count("fixed_long_lived_saver")
        ctx.traces += 1


def unitary_dict_histories(ctx):
    """The loaded unitary dictionary is the SAVED one, also when the target had other / additional unitaries."""
    from qucumber.nn_states import ComplexWaveFunction, DensityMatrix
    from qucumber.utils import unitaries
    for cls, args in ((ComplexWaveFunction, (2, 3)), (DensityMatrix, (2, 3, 1))):
        for saved_custom in (False, True):
            ctx.torch_seed()
            d = unitaries.create_dict()
            ud = {"X": d["X"], "Q": rand_unitary(ctx)} if saved_custom else None
            s = cls(*args, unitary_dict=ud, gpu=False)
            randomise_inplace(ctx, s)
            if not saved_custom:
                s.unitary_dict["H"] = rand_unitary(ctx)
            p = os.path.join(ctx.scratch, "ud_" + cls.__name__)
            snap_s = snapshot(s)
            for receiver in ("extra and overridden names", "same names, other matrices"):
                if receiver.startswith("extra"):
                    t = cls(*args, gpu=False)
                    t.unitary_dict["U9"] = rand_unitary(ctx)      # a unitary the saved state does not have
                    t.unitary_dict["X"] = rand_unitary(ctx)       # and a different matrix under a shared name
                else:                                         # exactly the saved key set, every matrix different
                    t = cls(*args, unitary_dict={k_: rand_unitary(ctx) for k_ in s.unitary_dict}, gpu=False)
                case = {"history": ["save", "load into a state with " + receiver], "state": cls.__name__, "saved_custom_dict": saved_custom}
                ctx.case(case, nontrivial=True)
                ok, _ = ctx.call("save", case, s.save, p, {"k": 1})
                ok2, _ = ctx.call("load", case, t.load, p) if ok else (False, None)
                if ok2:
                    check_loaded(ctx, "load", snap_s, t, case, True)
                ctx.count("fixed_unitary_dict_load")
                ctx.traces += 1


def keyset_recipes(ctx):
    """Seed round 7 (C11g): how the dictionary of the SAVED model came to have its key set.  Every recipe yields a dictionary
    that is NOT 'the defaults, possibly plus more': a default key is absent / removed / renamed / replaced, at construction
    time or on the live attribute afterwards.  (name, dictionary handed to the constructor or None, edit of the built state or None)"""
    from qucumber.utils import unitaries
    d = unitaries.create_dict
    ru = lambda: rand_unitary(ctx)

    def drop(*names):
        def f(s):
            for n in names:
                del s.unitary_dict[n]
        return f

    def replace_attr(make):
        def f(s):
            s.unitary_dict = make(s)
        return f

    def rename(old, new):
        def f(s):
            s.unitary_dict[new] = s.unitary_dict.pop(old)
        return f

    def clear_then_add(s):
        s.unitary_dict.clear()
        s.unitary_dict["H"] = ru()

    def override_and_drop(s):
        s.unitary_dict["Z"] = ru()
        del s.unitary_dict["X"]

    return [
        # ---- at construction
        ("constructor: {X, Q} (no Y, Z)", lambda: {"X": d()["X"], "Q": ru()}, None),
        ("constructor: {Z, H, T} (no X, Y)", lambda: {"Z": d()["Z"], "H": ru(), "T": ru()}, None),
        ("constructor: only user keys {H, T}", lambda: {"H": ru(), "T": ru()}, None),
        ("constructor: one key {Y}", lambda: {"Y": d()["Y"]}, None),
        ("constructor: defaults renamed {x, y, z}", lambda: {k.lower(): v for k, v in d().items()}, None),
        ("constructor: {X, Z} with another matrix under Z, plus U0", lambda: {"X": d()["X"], "Z": ru(), "U0": ru()}, None),
        # ---- on the live attribute, after construction with the default dictionary
        ("del unitary_dict[Y]", None, drop("Y")),
        ("del unitary_dict[X], [Y] (Z left)", None, drop("X", "Y")),
        ("del unitary_dict[Z]", None, drop("Z")),
        ("attribute replaced by {Z, H, T}", None, replace_attr(lambda s: {"Z": d()["Z"], "H": ru(), "T": ru()})),
        ("attribute replaced by only a user key {H}", None, replace_attr(lambda s: {"H": ru()})),
        ("attribute replaced by a copy without X", None, replace_attr(lambda s: {k: v for k, v in s.unitary_dict.items() if k != "X"})),
        ("X renamed to Xr (pop + insert)", None, rename("X", "Xr")),
        ("Y renamed to y", None, rename("Y", "y")),
        ("clear() then one user key", None, clear_then_add),
        ("Z overridden by another matrix and X removed", None, override_and_drop),
        # ---- user-extended at construction, a default removed afterwards
        ("constructor: defaults + H; then del Y", lambda: d(H=ru()), drop("Y")),
        ("constructor: {X, Q}; then X renamed to Q2", lambda: {"X": d()["X"], "Q": ru()}, rename("X", "Q2")),
    ]


def unitary_keyset_histories(ctx):
    """Seed round 7 (C11g), always executed.  For the two state types with a unitary dictionary and every recipe of
    keyset_recipes: the state is saved (str / Path / file object in turn, metadata non-empty), then reloaded through EVERY
    entry point and location form - load(str), load(Path), load(file object) into receivers whose own dictionaries are the
    defaults / a superset / disjoint from the saved one, and autoload(str), autoload(Path), autoload(file object; fails on the
    unchanged tree for every dictionary: histogram only) - and each loaded object must have EXACTLY the saved key set with equal matrices; so
    must the file (torch.load), the source after the saves, and a second generation (the loaded object saved again and auto-loaded).
    One more history per recipe: the default-dictionary state is saved to f FIRST, the recipe is applied, the state is saved
    to f again: the reload shows the later key set."""
    import torch
    from qucumber.nn_states import ComplexWaveFunction, DensityMatrix
    from qucumber.utils import unitaries
    recipes = keyset_recipes(ctx)
    folder = os.path.join(ctx.scratch, "keysets")
    os.makedirs(folder, exist_ok=True)
    for ci, (cls, args) in enumerate(((ComplexWaveFunction, (2, 3)), (DensityMatrix, (2, 3, 1)))):
        for ri, (name, at_ctor, post) in enumerate(recipes):
            ctx.torch_seed()
            given = at_ctor() if at_ctor is not None else None
            given_before = None if given is None else {k: v.clone() for k, v in given.items()}
            ok, s = ctx.call("constructor", {"state": cls.__name__, "saved_dictionary": name}, lambda: cls(*args, unitary_dict=given, gpu=False))
            if not ok:
                continue
            randomise_inplace(ctx, s)
            f = os.path.join(folder, "%s_%d.pt" % (cls.__name__, ri))
            two_saves = post is not None and (ri + ci) % 2 == 0
            hist = ["s = %s(unitary_dict=%s)" % (cls.__name__, "None" if given is None else "{%s}" % ", ".join(sorted(given)))]
            case = {"history": hist, "state": cls.__name__, "saved_dictionary": name, "seed": ctx.seed}
            if two_saves:                                   # the file first holds the DEFAULT dictionary, then is written again
                hist.append("s.save(f)")
                if not ctx.call("first save", case, s.save, f, {"gen": 0})[0]:
                    continue
            if post is not None:
                post(s)
                hist.append(name)
            save_form = ("str", "Path", "file object")[(ri + ci) % 3]
            hist.append("s.save(f as %s, {'run': ..})" % save_form)
            snap = snapshot(s)
            case["saved_keys"] = sorted(snap["ud"])
            ctx.case(case, nontrivial=True)
            ctx.count("keyset:saved dictionary lacks a default key" if {"X", "Y", "Z"} - set(snap["ud"]) else "keyset:saved dictionary has X, Y, Z")
            md = {"run": ri, "t": torch.tensor(ctx.rng.normal(size=2))}
            if save_form == "file object":
                def do_save():
                    buf = io.BytesIO()
                    s.save(buf, md)
                    with open(f, "wb") as fh:
                        fh.write(buf.getvalue())
            else:
                def do_save():
                    s.save(f if save_form == "str" else pathlib.Path(f), md)
            if not ctx.call("save", case, do_save)[0]:
                continue
            ctx.require("save leaves the state's parameters and unitary dictionary unchanged",
                        deep_eq(snapshot(s)["nets"], snap["nets"]) and deep_eq(snapshot(s)["ud"], snap["ud"]), case)
            if given is not None:
                ctx.require("a constructor and a save leave the dictionary the caller passed to the constructor unchanged",
                            set(given) == set(given_before) and all(torch.equal(given[k], given_before[k]) for k in given), case)
            okr, raw = ctx.call("torch.load of the written file", case, torch.load, f)
            if okr:
                fu = raw.get("unitary_dict") if isinstance(raw, dict) else None
                ctx.require("the written file holds every metadata key/value, every network's state dict and unitary_dict",
                            isinstance(fu, dict) and set(fu) == set(snap["ud"]) and all(torch.equal(fu[k], snap["ud"][k]) for k in fu)
                            and all(k in raw and deep_eq(raw[k], v) for k, v in md.items()), case,
                            {"saved keys": sorted(snap["ud"]), "keys in the file": sorted(map(str, fu)) if isinstance(fu, dict) else repr(fu)[:80]})

            def receiver(kind_):
                if kind_ == "default dictionary":
                    return cls(*args, gpu=False)
                if kind_ == "superset of the saved keys":
                    return cls(*args, unitary_dict=dict(unitaries.create_dict(W=rand_unitary(ctx)), **{k: rand_unitary(ctx) for k in snap["ud"]}), gpu=False)
                return cls(*args, unitary_dict={"R1": rand_unitary(ctx), "R2": rand_unitary(ctx)}, gpu=False)   # disjoint from the saved keys
            entries = [("autoload", "str", None), ("autoload", "Path", None), ("autoload", "file object", None),
                       ("load", "str", "default dictionary"), ("load", "Path", "superset of the saved keys"),
                       ("load", "file object", "disjoint keys")]
            for how, form, rk in entries:
                ecase = dict(case, entry="%s(f as %s)" % (how, form) + ("" if rk is None else " into a state with " + rk))
                try:
                    if how == "load":
                        B = receiver(rk)
                        if form == "file object":
                            with open(f, "rb") as fh:
                                B.load(fh)
                        else:
                            B.load(f if form == "str" else pathlib.Path(f))
                    elif form == "file object":
                        with open(f, "rb") as fh:
                            B = cls.autoload(fh, gpu=False)
                    else:
                        B = cls.autoload(f if form == "str" else pathlib.Path(f), gpu=False)
                except Exception as e:
                    if how == "autoload" and form == "file object":
                        # autoload reads the location twice: a file object is at its end the second time.  Fails on the unchanged
                        # tree for EVERY dictionary (DESIGN 11: outside the quantifier) - information, never a verdict
                        ctx.count("keyset:autoload(file object) raised %s (unchanged-tree behaviour, not judged)" % type(e).__name__)
                        continue
                    ctx.require("%s of a file saved by the same state type and sizes is accepted (raised %s)" % (how, type(e).__name__), False, ecase, repr(e)[:300])
                    continue
                ctx.count("keyset:%s(%s)" % (how, form))
                if how == "autoload":
                    ctx.require("autoload rebuilds the saved architecture", compatible(snap, B) and set(B.networks) == set(snap["nets"]), ecase)
                    if not compatible(snap, B):
                        continue
                check_loaded(ctx, how, snap, B, ecase, True)
                if (how, form) in (("load", "str"), ("autoload", "str")):      # second generation: what was loaded is saved and auto-loaded again
                    f2 = f + ".gen2"
                    ok2, C = ctx.call("save of the loaded object + autoload", ecase, lambda: (B.save(f2, {"gen": 2}), cls.autoload(f2, gpu=False))[1])
                    if ok2 and compatible(snap, C):
                        check_loaded(ctx, "autoload (of the loaded object saved again)", snap, C, dict(ecase, second_generation=True), True)
            ctx.require("save leaves the state's parameters and unitary dictionary unchanged",
                        deep_eq(snapshot(s)["nets"], snap["nets"]) and deep_eq(snapshot(s)["ud"], snap["ud"]), dict(case, after="all loads"))
            ctx.traces += 1


def shared_and_inplace_histories(ctx):
    """Red-team round 2, always executed:
    (a) two states built from ONE dictionary object share the unitary tensors; a load into one of them changes neither
        the other state nor the caller's dictionary, and the other state still saves / reloads as it was;
    (b) save -> a unitary is edited IN PLACE (same tensor object) -> save -> load / autoload: the later file holds the
        dictionary as it is at the later save;
    (c) a long-lived ModelSaver with dict metadata that the caller updates in place BELOW the top level between the
        periodic saves: each file holds the metadata as it is at that save;
    (d) a ModelSaver with a metadata FUNCTION of (nn_state, epoch), through a real fit: the file of epoch e holds the
        metadata of epoch e."""
    import torch
    from qucumber.nn_states import ComplexWaveFunction, DensityMatrix, PositiveWaveFunction
    from qucumber.callbacks import ModelSaver
    from qucumber.utils import unitaries
    udclone = lambda d: {k: v.clone() for k, v in d.items()}
    for cls, args in ((ComplexWaveFunction, (2, 3)), (DensityMatrix, (2, 3, 1))):
        # ---- (a)
        for receiver_saved_first in (False, True):
            ctx.torch_seed()
            ud = unitaries.create_dict()
            ud["H"] = rand_unitary(ctx)
            a = cls(*args, unitary_dict=ud, gpu=False)
            b = cls(*args, unitary_dict=ud, gpu=False)
            src = cls(*args, gpu=False)
            for x in (a, b, src):
                randomise_inplace(ctx, x)
            src.unitary_dict["X"] = rand_unitary(ctx)           # same names, other matrices
            src.unitary_dict["H"] = rand_unitary(ctx)
            p = os.path.join(ctx.scratch, "sh_%s" % cls.__name__)
            pb = p + "_b"
            case = {"history": ["a, b = State(unitary_dict=ud), State(unitary_dict=ud)"] + (["b.save"] if receiver_saved_first else []) +
                               ["src.save", "a.load", "b.save", "autoload(b's file)"], "state": cls.__name__}
            ctx.case(case, nontrivial=True)
            if receiver_saved_first:
                ctx.call("save of the second state", case, b.save, pb, {"k": 0})
            ok, _ = ctx.call("save", case, src.save, p, {"k": 1})
            if not ok:
                continue
            snap_b, ud_before = snapshot(b), udclone(ud)
            ok, _ = ctx.call("load into one of two states built from the same dictionary object", case, a.load, p)
            if ok:
                check_loaded(ctx, "load", snapshot(src), a, case, True)
                ctx.require("a load changes no other state of the history", deep_eq(snapshot(b)["ud"], snap_b["ud"]) and deep_eq(snapshot(b)["nets"], snap_b["nets"]), case,
                            {"other state's dictionary before": repr(snap_b["ud"])[:150], "after": repr(snapshot(b)["ud"])[:150]})
                ctx.require("a load leaves the dictionaries the caller passed to constructors unchanged", deep_eq(udclone(ud), ud_before), case)
            ok, _ = ctx.call("save of the other state", case, b.save, pb, {"k": 2})
            ok, n = ctx.call("autoload of the other state's file", case, lambda: cls.autoload(pb, gpu=False)) if ok else (False, None)
            if ok:
                check_loaded(ctx, "autoload of the state that was NOT loaded into", snap_b, n, case, True)
            ctx.count("fixed_shared_dictionary_load")
            ctx.traces += 1
        # ---- (b)
        for how in ("copy_", "index assignment"):
            for same_file in (True, False):
                ctx.torch_seed()
                s = cls(*args, gpu=False)
                randomise_inplace(ctx, s)
                s.unitary_dict["H"] = rand_unitary(ctx)
                md = {"k": 1}
                p1 = os.path.join(ctx.scratch, "inpl1_%s" % cls.__name__)
                p2 = p1 if same_file else os.path.join(ctx.scratch, "inpl2_%s" % cls.__name__)
                case = {"history": ["save", "unitary edited in place (%s)" % how, "save(same state, same metadata)", "load", "autoload"],
                        "state": cls.__name__, "same_file": same_file}
                ctx.case(case, nontrivial=True)
                ok, _ = ctx.call("first save", case, s.save, p1, md)
                if not ok:
                    continue
                for name in ("Y", "H"):
                    if how == "copy_":
                        s.unitary_dict[name].copy_(rand_unitary(ctx))
                    else:
                        s.unitary_dict[name][0, 0, 1] = 0.25
                        s.unitary_dict[name][1, 1, 0] = -0.5
                snap2 = snapshot(s)
                ok, _ = ctx.call("second save after the in-place edit", case, s.save, p2, md)
                if not ok:
                    continue
                d = torch.load(p2)
                ctx.require("the file written by the later save holds the unitary dictionary the state had at that save",
                            "unitary_dict" in d and deep_eq(d["unitary_dict"], snap2["ud"]), case)
                t = cls(*args, gpu=False)
                ok, _ = ctx.call("load of the later file", case, t.load, p2)
                if ok:
                    check_loaded(ctx, "load (after in-place edit + save)", snap2, t, case, True)
                ok, n = ctx.call("autoload of the later file", case, lambda: cls.autoload(p2, gpu=False))
                if ok:
                    check_loaded(ctx, "autoload (after in-place edit + save)", snap2, n, case, True)
                ctx.count("fixed_unitary_inplace:" + how)
                ctx.traces += 1
    for cls, args in ((PositiveWaveFunction, (3, 2)), (ComplexWaveFunction, (2, 3)), (DensityMatrix, (2, 3, 1))):
        ctx.torch_seed()
        s = cls(*args, gpu=False)
        randomise_inplace(ctx, s)
        # ---- (c)
        for form in ("dict", "callable"):
            md = {"cfg": {"lr": 0.1, "sched": [1]}, "seen": [], "best": torch.zeros(2, dtype=torch.double), "n": 0}
            folder = os.path.join(ctx.scratch, "deep_%s_%s" % (cls.__name__, form))
            ms = ModelSaver(period=1, folder_path=folder, file_name="e{}", save_initial=False,
                            metadata=md if form == "dict" else (lambda nn, ep, _m=md: _m))
            case = {"history": ["ModelSaver(metadata=md)"] + ["md edited in place below the top level", "periodic save"] * 3,
                    "state": cls.__name__, "metadata_form": form}
            ctx.case(case, nontrivial=True)
            bad = []
            for ep in (1, 2, 3):
                md["cfg"]["lr"] = 0.1 / ep
                md["cfg"]["sched"].append(ep)
                md["seen"].append(ep)
                md["best"].copy_(torch.tensor([float(ep), -1.0], dtype=torch.double))
                want, fp = value_copy(md), fingerprint(md)
                ok, _ = ctx.call("periodic save", case, ms.on_epoch_end, s, ep)
                ctx.require(PURITY_DEEP, fingerprint(md) == fp, case, describe_change(fp, fingerprint(md)))
                if ok:
                    d = torch.load(os.path.join(folder, "e%d" % ep))
                    bad += [(ep, k) for k, v in want.items() if k not in d or not deep_eq(d[k], v)]
                    ctx.require("save leaves the metadata object unchanged (same object, deep-equal content)", deep_eq(md, want), case)
            ctx.require("a periodic save stores the caller's metadata as it is at save time (updates below the top level included)",
                        not bad, case, {"(epoch, key) stale or missing in the file": bad})
            ctx.count("fixed_metadata_inplace_below_top_level")
        # ---- (d)
        md = {"run": "r1", "cfg": {"lr": 0.5}}
        folder = os.path.join(ctx.scratch, "fn_%s" % cls.__name__)
        calls = []

        def fn(nn, ep, _m=md):
            calls.append(ep)
            return {**_m, "epoch": ep, "nv": int(nn.num_visible)}
        ms = ModelSaver(period=1, folder_path=folder, file_name="e{}", save_initial=True, metadata=fn)
        nv = int(s.num_visible)
        data = torch.tensor(ctx.rng.integers(0, 2, size=(4, nv)), dtype=torch.double)
        kw = dict(pos_batch_size=2, k=1, lr=0.05, callbacks=[ms])
        if cls is not PositiveWaveFunction:
            kw["input_bases"] = np.array([["Z"] * nv] * 2 + [["X"] + ["Z"] * (nv - 1)] * 2)
        case = {"history": ["fit(epochs=4, starting_epoch=2, callbacks=[ModelSaver(metadata=function of (nn_state, epoch))])", "ModelSaver.on_epoch_end(state, 7)"],
                "state": cls.__name__}
        ctx.case(case, nontrivial=True)
        ok, _ = ctx.call("fit with a ModelSaver whose metadata is a function", case, lambda: s.fit(data, epochs=4, starting_epoch=2, **kw))
        ok2, _ = ctx.call("periodic save called directly", case, ms.on_epoch_end, s, 7) if ok else (False, None)
        if ok and ok2:
            got = {}
            for e in ("initial", 2, 3, 4, 7):
                fp = os.path.join(folder, "e%s" % e)
                got[e] = torch.load(fp) if os.path.exists(fp) else None
            bad = [e for e in (2, 3, 4, 7) if got[e] is None or got[e].get("epoch") != e or got[e].get("nv") != nv
                   or not all(k in got[e] and deep_eq(got[e][k], v) for k, v in md.items())]
            ctx.require("a ModelSaver with a metadata function stores what the function returns for (state, current epoch)", not bad, case,
                        {"files with other metadata": bad, "epoch stored": {str(e): (None if got[e] is None else got[e].get("epoch")) for e in got}})
            ini = got["initial"]
            ctx.require("the initial file holds the metadata the function returned for it", ini is not None and bool(calls) and ini.get("epoch") == calls[0]
                        and ini.get("nv") == nv and all(k in ini and deep_eq(ini[k], v) for k, v in md.items()), case)
        ctx.count("fixed_metadata_function_of_epoch")
        ctx.traces += 1


PURITY_DEEP = ("save leaves the metadata object unchanged below the top level too (nested containers and tensors are the same "
               "objects, with the same types, values and requires_grad flags)")


def nested_live_metadata_histories(ctx):
    """Seed round 3, always executed: metadata nested 2-3 levels deep holding tensors with requires_grad, non-leaf tensors,
    Python numbers / strings / None, saved twice directly, by a long-lived ModelSaver with the dict and with a metadata
    function; the caller's object is fingerprinted (identity-aware) before and after every save; the file is read back
    and compared by value; load / autoload reproduce the parameters."""
    import torch
    from qucumber.nn_states import ComplexWaveFunction, DensityMatrix, PositiveWaveFunction
    from qucumber.callbacks import ModelSaver
    for cls, args in ((PositiveWaveFunction, (3, 2)), (ComplexWaveFunction, (2, 3)), (DensityMatrix, (2, 3, 1))):
        ctx.torch_seed()
        s = cls(*args, gpu=False)
        randomise_inplace(ctx, s)
        for via in ("save", "ModelSaver(metadata=dict)", "ModelSaver(metadata=function)"):
            md = {"tag": "annealed", "run": live_metadata(ctx.rng),
                  "history": [{"epoch": 1, "KL": torch.tensor([0.5, 0.4])}, (2, {"x": [torch.tensor(1.0, requires_grad=True)]})]}
            fp, want = fingerprint(md), value_copy(md)
            folder = os.path.join(ctx.scratch, "live_%s_%d" % (cls.__name__, len(via)))
            os.makedirs(folder, exist_ok=True)
            case = {"history": ["%s with nested metadata holding tensors with requires_grad / non-leaf tensors" % via, "the same again"],
                    "state": cls.__name__, "via": via}
            ctx.case(case, nontrivial=True)
            if via == "save":
                calls = [lambda e=e: s.save(os.path.join(folder, "e%d" % e), md) for e in (1, 2)]
            else:
                ms = ModelSaver(period=1, folder_path=folder, file_name="e{}", save_initial=False,
                                metadata=md if via.endswith("dict)") else (lambda nn, ep, _m=md: _m))
                calls = [lambda e=e: ms.on_epoch_end(s, e) for e in (1, 2)]
            snap = snapshot(s)
            for e, fcall in zip((1, 2), calls):
                ok, _ = ctx.call("save with nested metadata holding live tensors", case, fcall)
                now = fingerprint(md)
                ctx.require(PURITY_DEEP, now == fp, dict(case, save_number=e), describe_change(fp, now))
                if not ok:
                    break
                d = torch.load(os.path.join(folder, "e%d" % e))
                bad = [k for k, v in want.items() if k not in d or not deep_eq(d[k], v)]
                ctx.require("the written file holds every metadata key/value (nested values compared by value)", not bad, dict(case, save_number=e),
                            {"stale, changed or missing": bad})
                ctx.require("save leaves the state's parameters and unitary dictionary unchanged",
                            deep_eq(snapshot(s)["nets"], snap["nets"]) and deep_eq(snapshot(s)["ud"], snap["ud"]), case)
            else:
                ok, a = ctx.call("autoload of that file", case, lambda: cls.autoload(os.path.join(folder, "e2"), gpu=False))
                if ok:
                    check_loaded(ctx, "autoload", snap, a, case, True)
            ctx.count("fixed_nested_live_metadata:" + via)
            ctx.traces += 1
        # NumPy values: not loadable by the installed torch.load, hence outside the quantifier -> information only
        md = {"cfg": {"a": np.float64(1.5), "arr": np.arange(3.0), "n": [np.int64(3), 2]}}
        fp = fingerprint(md)
        try:
            s.save(io.BytesIO(), md)
            res = "left the caller's object unchanged" if fingerprint(md) == fp else "rewrote the caller's object"
        except Exception as e:
            res = "raised " + type(e).__name__
        ctx.count("info:numpy values nested in metadata (not loadable by torch.load): save " + res)


# ----------------------------------------------------------------------------- seed round 6: what happens to a loaded object LATER
AFTERLIFE = ("an object obtained by load / autoload keeps the parameters and the unitary dictionary it was given, whatever is "
             "afterwards saved to (or done with) the file it came from")
AFTERLIFE_RAW = "what torch.load of the file returned earlier (metadata included) is unchanged by later writes to the file"
NO_SHARING = ("objects loaded from one file share no storage with each other, with the saved model, or with another state of "
              "the history")
NO_SHARING_BEHAVIOUR = "editing one of two objects loaded from the same file in place changes neither the other nor the saved model"


def file_mappings():
    """[(lo, hi, path)] of the file-backed memory mappings of this process (Linux /proc/self/maps; [] elsewhere)."""
    out = []
    try:
        with open("/proc/self/maps") as fh:
            for line in fh:
                p = line.split(None, 5)
                if len(p) == 6 and p[5].startswith("/"):
                    lo, hi = p[0].split("-")
                    out.append((int(lo, 16), int(hi, 16), p[5].strip()))
    except OSError:
        pass
    return out


def state_tensors(s):
    """[(label, tensor)]: every parameter and buffer of every network, every unitary."""
    import torch
    out = []
    for n in s.networks:
        rbm = getattr(s, n)
        out += [("%s.%s" % (n, k), p.data) for k, p in rbm.named_parameters()]
        out += [("%s.%s (buffer)" % (n, k), b) for k, b in rbm.named_buffers()]
    u = getattr(s, "unitary_dict", None)
    if isinstance(u, dict):
        out += [("unitary_dict[%r]" % (k,), v) for k, v in u.items() if isinstance(v, torch.Tensor)]
    return out


def nested_tensors(obj, path="file"):
    import torch
    if isinstance(obj, torch.Tensor):
        return [(path, obj)]
    if isinstance(obj, dict):
        return [x for k, v in obj.items() for x in nested_tensors(v, "%s[%r]" % (path, k))]
    if isinstance(obj, (list, tuple)):
        return [x for i, v in enumerate(obj) for x in nested_tensors(v, "%s[%d]" % (path, i))]
    return []


def backing(tensors):
    """[(label, path)] for the tensors whose memory lies inside a memory mapping of a FILE.  Used as a guard only (reading
    such a tensor after its file was shortened kills the process with SIGBUS), never as a verdict."""
    maps = file_mappings()
    res = []
    for label, t in tensors:
        if t.numel() == 0:
            continue
        ptr = t.data_ptr()
        for lo, hi, p in maps:
            if lo <= ptr < hi:
                res.append((label, p))
                break
    return res


def frozen(tensors):
    return [(label, str(t.dtype), tuple(t.shape), t.detach().contiguous().numpy().tobytes()) for label, t in tensors]


def frozen_diff(before, after):
    """First difference between two `frozen` records, in words (None if equal)."""
    if before == after:
        return None
    lb, la = [x[0] for x in before], [x[0] for x in after]
    if lb != la:
        return "tensors %s -> %s" % (lb, la)
    for b, a in zip(before, after):
        if b != a:
            vb = np.frombuffer(b[3], dtype=np.float64)[:8].tolist() if b[1] == "torch.float64" else "..."
            va = np.frombuffer(a[3], dtype=np.float64)[:8].tolist() if a[1] == "torch.float64" and len(a[3]) % 8 == 0 else "..."
            return "%s: %s %s %s -> %s %s %s" % (b[0], b[1], b[2], vb, a[1], a[2], va)
    return "?"


def storage_overlap(ts1, ts2):
    """First pair of labels whose tensors live in overlapping storage (None if there is none)."""
    def rng_(t):
        st = t.untyped_storage()
        return st.data_ptr(), st.data_ptr() + st.nbytes()
    r2 = [(l, rng_(t)) for l, t in ts2 if t.numel()]
    for l1, t1 in ts1:
        if not t1.numel():
            continue
        lo, hi = rng_(t1)
        for l2, (lo2, hi2) in r2:
            if lo < hi2 and lo2 < hi:
                return (l1, l2)
    return None


def in_child(fn, timeout=30.0):
    """Run fn() -> int in a forked child (an event after which reading a file-backed tensor may kill the process).
    Returns ("exit", code) | ("signal", number) | ("timeout", None)."""
    import signal
    pid = os.fork()
    if pid == 0:
        code = 3
        try:
            code = int(fn())
        except BaseException:
            code = 3
        finally:
            os._exit(code)
    t0 = time.time()
    while True:
        done, st = os.waitpid(pid, os.WNOHANG)
        if done:
            break
        if time.time() - t0 > timeout:
            os.kill(pid, signal.SIGKILL)
            os.waitpid(pid, 0)
            return ("timeout", None)
        time.sleep(0.005)
    if os.WIFSIGNALED(st):
        return ("signal", os.WTERMSIG(st))
    return ("exit", os.WEXITSTATUS(st))


def build_for_afterlife(ctx, cls, args, ud_kind):
    from qucumber.nn_states import PositiveWaveFunction
    from qucumber.utils import unitaries
    if cls is PositiveWaveFunction:
        s = cls(*args, gpu=False)
    else:
        ud = unitaries.create_dict()
        if ud_kind == "user-added":
            ud["H"] = rand_unitary(ctx)
        elif ud_kind == "custom":
            ud = {"X": ud["X"], "Q": rand_unitary(ctx)}
        elif ud_kind == "many":
            for i in range(6):
                ud["W%d" % i] = rand_unitary(ctx)
        elif ud_kind == "minimal":
            ud = {"X": ud["X"]}
        s = cls(*args, unitary_dict=ud, gpu=False)
    randomise_inplace(ctx, s)
    return s


def file_afterlife_histories(ctx):
    """Seed round 6 (C11f), always executed.  save A -> f; B = load / autoload of f (location as str / Path / file object);
    a second object B2 loaded from f the other way; then f is: saved again by A with a swapped user unitary and new
    parameters (directly / through a ModelSaver whose file_name has no placeholder), overwritten by a LARGER model, by a
    SMALLER model, by a metadata-only record, truncated, overwritten with bytes that are no checkpoint, deleted.  After every
    event B (parameters, unitary dictionary) and what torch.load returned before the events must be exactly what they
    were.  Before the events: A, B, B2 and the torch.load result share no storage, and an in-place edit of B2 changes
    neither B nor A.  If a tensor of B lies inside a memory mapping of a file (guard from /proc/self/maps), the events that
    SHORTEN the file are executed in a forked child (reading such a tensor afterwards kills the process) and the file is
    restored before the parent continues."""
    import torch
    from collections import OrderedDict
    from qucumber.nn_states import ComplexWaveFunction, DensityMatrix, PositiveWaveFunction
    from qucumber.callbacks import ModelSaver
    configs = ((PositiveWaveFunction, (3, 2), (5, 7), (1, 1)), (ComplexWaveFunction, (2, 3), (5, 7), (1, 1)),
               (DensityMatrix, (2, 3, 1), (5, 7, 4), (1, 1, 1)))
    ways = (("load", "str"), ("load", "Path"), ("load", "file object"), ("autoload", "str"), ("autoload", "Path"))
    n_fail0 = len(ctx.failures)
    for ci, (cls, args, big, small) in enumerate(configs):
        has_ud = cls is not PositiveWaveFunction
        for wi, (how, form) in enumerate(ways):
            ctx.torch_seed()
            ud_kind = ["user-added", "custom"][(ci + wi) % 2]
            A = build_for_afterlife(ctx, cls, args, ud_kind)
            folder = os.path.join(ctx.scratch, "afterlife_%s_%d" % (cls.__name__, wi))
            os.makedirs(folder, exist_ok=True)
            f = os.path.join(folder, "latest.pt")
            md = {"run": 1, "t": torch.tensor(ctx.rng.normal(size=(2, 2))), "cfg": {"lr": 0.5, "w": [torch.tensor(ctx.rng.normal(size=3))]}}
            case = {"history": ["A.save(f)", "B = %s(f as %s)" % (how, form), "B2 = the other way"], "state": cls.__name__,
                    "unitary_dict": ud_kind if has_ud else None, "seed": ctx.seed}
            ctx.case(case, nontrivial=True)
            ok, _ = ctx.call("save", case, A.save, f, md)
            if not ok:
                continue
            snapA = snapshot(A)
            raw = torch.load(f)

            def do_load(how_, form_):
                loc = f if form_ == "str" else pathlib.Path(f)
                if how_ == "autoload":
                    return cls.autoload(loc, gpu=False)
                t_ = build_for_afterlife(ctx, cls, args, "default")
                if form_ == "file object":
                    with open(f, "rb") as fh:
                        t_.load(fh)
                else:
                    t_.load(loc)
                return t_
            ok, B = ctx.call(how, case, do_load, how, form)
            ok2, B2 = ctx.call("second load of the same file", case, do_load, "load" if how == "autoload" else "autoload", "str")
            if not (ok and ok2):
                continue
            check_loaded(ctx, how, snapA, B, case, True)
            check_loaded(ctx, "second object loaded from the file", snapA, B2, case, True)
            tB, tA, tB2, tRaw = state_tensors(B), state_tensors(A), state_tensors(B2), nested_tensors(raw)
            fB, fA, fRaw = frozen(tB), frozen(tA), frozen(tRaw)
            groups = [("the saved model", tA), ("the loaded object", tB), ("the second loaded object", tB2), ("torch.load of the file", tRaw)]
            shared = [(g1, g2, storage_overlap(t1, t2)) for i, (g1, t1) in enumerate(groups) for g2, t2 in groups[i + 1:]]
            shared = [x for x in shared if x[2] is not None]
            ctx.require(NO_SHARING, not shared, case, {"overlapping storage": shared[:3]})
            # behaviour: B2 is edited in place (every parameter, every unitary) and then dropped
            for _, t_ in tB2:
                if t_.is_floating_point():
                    t_.add_(1.0)
            ctx.require(NO_SHARING_BEHAVIOUR, frozen(tB) == fB and frozen(tA) == fA and frozen(tRaw) == fRaw, case,
                        frozen_diff(fB, frozen(tB)) or frozen_diff(fA, frozen(tA)) or frozen_diff(fRaw, frozen(tRaw)))
            guard = backing(tB + tRaw)
            if guard:
                ctx.count("afterlife: tensors of a loaded object lie inside a memory mapping of a file (shortening events run in a child)")
            # ---- the events
            C = build_for_afterlife(ctx, cls, big, "many")
            D = build_for_afterlife(ctx, cls, small, "minimal")
            pad = {"pad": "x" * 600}

            def save_again():
                if has_ud:
                    A.unitary_dict["H" if "H" in A.unitary_dict else "Q"] = rand_unitary(ctx)     # the user swaps a custom unitary
                    A.unitary_dict["X"].copy_(rand_unitary(ctx))                                   # and edits another in place
                A.reinitialize_parameters()
                randomise_inplace(ctx, A)
                md2 = OrderedDict(md, run=2, **pad)
                if wi % 3 == 0:
                    A.save(f, md2)
                elif wi % 3 == 1:
                    A.save(pathlib.Path(f), md2)
                else:                                           # what a ModelSaver does when file_name has no placeholder
                    ModelSaver(period=1, folder_path=folder, file_name="latest.pt", save_initial=False, metadata=md2).on_epoch_end(A, 2)

            def write_bytes(b):
                with open(f, "wb") as fh:
                    fh.write(b)
            events = [("A (same sizes) gets another user unitary and new parameters and is saved again to f", save_again, False),
                      ("a LARGER model of the same type is saved to f", lambda: C.save(f, dict(md, run=3, **pad)), False),
                      ("a SMALLER model of the same type is saved to f", lambda: D.save(f), True),
                      ("a ModelSaver(metadata_only=True) writes to f",
                       lambda: ModelSaver(period=1, folder_path=folder, file_name="latest.pt", save_initial=False, metadata={"k": 1},
                                          metadata_only=True).on_epoch_end(A, 1), True),
                      ("f is truncated to 0 bytes", lambda: write_bytes(b""), True),
                      ("f is overwritten with bytes that are no checkpoint", lambda: write_bytes(b"not a checkpoint" * 3), True),
                      ("f is deleted", lambda: os.remove(f), False)]
            for label, fn, shortens in events:
                ecase = dict(case, history=case["history"] + [label], event=label)
                if guard and shortens:
                    with open(f, "rb") as fh:
                        bytes0 = fh.read()

                    def child():
                        fn()
                        return 0 if (frozen(tB) == fB and frozen(tRaw) == fRaw) else 4
                    res = in_child(child)
                    write_bytes(bytes0)                         # before the parent reads anything again
                    ctx.count("afterlife: event run in a child -> %s %s" % res)
                    if res[0] != "timeout":
                        ctx.require(AFTERLIFE, res == ("exit", 0), ecase,
                                    "reading the loaded object after the event: child process %s %s%s"
                                    % (res[0], res[1], " (SIGBUS: the object's tensors are views of a memory mapping of the file: %s)" % (guard[:2],)
                                       if res == ("signal", 7) else ""))
                    continue
                okE, _ = ctx.call("a later write to the file", ecase, fn)
                nowB, nowRaw = frozen(tB), frozen(tRaw)
                ctx.require(AFTERLIFE, nowB == fB, ecase, frozen_diff(fB, nowB))
                ctx.require(AFTERLIFE_RAW, nowRaw == fRaw, ecase, frozen_diff(fRaw, nowRaw))
                ctx.count("afterlife:" + label.split(" is ")[-1][:40])
            # B still saves / reloads as what it was given
            f2 = os.path.join(folder, "again.pt")
            ok, _ = ctx.call("save of the loaded object after the events", case, B.save, f2, {"k": 1})
            ok, n = ctx.call("autoload of that file", case, lambda: cls.autoload(f2, gpu=False)) if ok else (False, None)
            if ok:
                check_loaded(ctx, "save + autoload of the loaded object after the events", snapA, n, case, True)
            ctx.traces += 1
    # ---- metadata in the mapping forms a dict can take (OrderedDict; the SAME object re-used by a second call with another state)
    for cls, args in ((PositiveWaveFunction, (3, 2)), (ComplexWaveFunction, (2, 3)), (DensityMatrix, (2, 3, 1))):
        s, s2 = build_for_afterlife(ctx, cls, args, "user-added"), build_for_afterlife(ctx, cls, args, "custom")
        md = OrderedDict([("z", 1), ("a", {"lr": 0.5}), ("t", torch.tensor([1.0, 2.0]))])
        fp, want = fingerprint(md), value_copy(md)
        folder = os.path.join(ctx.scratch, "odict_%s" % cls.__name__)
        ms = ModelSaver(period=1, folder_path=folder, file_name="e{}", save_initial=False, metadata=md)
        case = {"history": ["s.save(f1, OrderedDict)", "s2.save(f2, the same object)", "ModelSaver(metadata=the same object) x 2"], "state": cls.__name__}
        ctx.case(case, nontrivial=True)
        calls = [lambda: s.save(os.path.join(folder, "e1"), md), lambda: s2.save(os.path.join(folder, "e2"), md),
                 lambda: ms.on_epoch_end(s, 3), lambda: ms.on_epoch_end(s2, 4)]
        for e, (fcall, owner) in enumerate(zip(calls, (s, s2, s, s2)), 1):
            ok, _ = ctx.call("save with an OrderedDict as metadata", case, fcall)
            ctx.require(PURITY_DEEP, fingerprint(md) == fp, dict(case, save_number=e), describe_change(fp, fingerprint(md)))
            if ok:
                d = torch.load(os.path.join(folder, "e%d" % e))
                bad = [k for k, v in want.items() if k not in d or not deep_eq(d[k], v)]
                ctx.require("the written file holds every metadata key/value, every network's state dict and unitary_dict",
                            not bad and all(n in d and deep_eq(dict(d[n]), dict(getattr(owner, n).state_dict())) for n in owner.networks)
                            and (not hasattr(owner, "unitary_dict") or deep_eq(d.get("unitary_dict"), owner.unitary_dict)), dict(case, save_number=e))
        ctx.count("fixed_ordereddict_metadata_same_object_two_states")
        ctx.traces += 1
    return len(ctx.failures) > n_fail0


def afterlife_probe(ctx, R, sid, fid, ocase):
    """Inside a random history, right after a successful load / autoload of file `fid` into state `sid`: something else is
    saved to / done with the file, every state of the history (and every dictionary the caller handed to a constructor)
    must be what it was, and the file is put back byte for byte (the history and the model never see the event).
    Returns True if the history has to be abandoned (tensors of the loaded state lie in a memory mapping of a file: the
    later steps of the history could kill the process)."""
    import torch
    rng = ctx.rng
    s = R.states[sid]
    path = R.path(fid)
    guard = backing(state_tensors(s))
    others = [(i, x) for i, x in R.states.items() if i != sid]
    shared = [(i, storage_overlap(state_tensors(s), state_tensors(x))) for i, x in others]
    shared = [x for x in shared if x[1] is not None]
    shared_ud = [storage_overlap(state_tensors(s), nested_tensors(d, "caller's dictionary")) for d in R.caller_uds]
    ctx.require(NO_SHARING, not shared and not any(shared_ud), ocase, {"state, tensors": shared[:3], "caller dictionaries": [x for x in shared_ud if x][:2]})
    if not guard and rng.random() < 0.5:
        return False
    before = R.bystanders(None)
    with open(path, "rb") as fh:
        bytes0 = fh.read()
    d0 = torch.load(path)
    reserved = set(s.networks) | {"unitary_dict"}
    md0 = {k: v for k, v in d0.items() if k not in reserved and isinstance(k, str)}
    md0["pad"] = "x" * 600                                  # the file does not get shorter
    events = ["twin saved", "larger model saved"] + ([] if guard else ["smaller model saved", "truncated", "garbage", "deleted"])
    ev = str(rng.choice(events))
    try:
        if ev == "twin saved":                              # same type, same sizes, other values, one unitary swapped for a new tensor
            twin = copy.deepcopy(s)
            for _, t_ in state_tensors(twin):
                if t_.is_floating_point():
                    t_.mul_(-0.5).add_(0.25)
            if isinstance(getattr(twin, "unitary_dict", None), dict) and twin.unitary_dict:
                twin.unitary_dict[sorted(twin.unitary_dict)[-1]] = rand_unitary(ctx)
            twin.save(path, md0)
        elif ev in ("larger model saved", "smaller model saved"):
            big = ev.startswith("larger")
            nv = int(s.num_visible) + 2 if big else 1
            nh = int(s.num_hidden) + 3 if big else 1
            argsx = (nv, nh) + ((int(s.num_aux) + 2 if big else 1,) if hasattr(s, "num_aux") else ())
            other = build_for_afterlife(ctx, type(s), argsx, "many" if big else "minimal")
            if big and isinstance(getattr(s, "unitary_dict", None), dict):
                for k_ in s.unitary_dict:
                    other.unitary_dict.setdefault(k_, rand_unitary(ctx))
            other.save(path, md0 if big else None)
        elif ev == "truncated":
            open(path, "wb").close()
        elif ev == "garbage":
            with open(path, "wb") as fh:
                fh.write(b"\x00garbage" * int(rng.integers(1, 2000)))
        else:
            os.remove(path)
        label = "%s, then file f%d: %s" % (ocase["op"], fid, ev)
        pcase = dict(ocase, op=label)
        if guard and os.path.exists(path) and os.path.getsize(path) < len(bytes0):
            ctx.count("afterlife probe: file got shorter while tensors are file-backed; not read")
        else:
            after = R.bystanders(None)
            changed = [i for i in before[0] if after[0].get(i) != before[0][i]]
            detail = {"changed states": changed, "loaded state": sid}
            if changed:
                x = R.states[changed[0]]
                detail["now"] = repr({k: v.flatten().tolist()[:4] for k, v in getattr(x, "unitary_dict", {}).items()})[:300]
            ctx.require(AFTERLIFE, not changed, pcase, detail)
            ctx.require("a later write to a file leaves the dictionaries the caller passed to constructors unchanged", after[1] == before[1], pcase)
        ctx.count("afterlife probe:" + ev)
    finally:
        with open(path, "wb") as fh:
            fh.write(bytes0)
    if guard:
        ctx.count("history abandoned: tensors of a loaded state lie inside a memory mapping of a file")
    return bool(guard)


def run(ctx):
    trust_check(ctx)
    if file_afterlife_histories(ctx):
        # a failing input is on record; the remaining histories would go on reading objects whose file they rewrite
        return
    fixed_histories(ctx)
    nested_live_metadata_histories(ctx)
    shared_and_inplace_histories(ctx)
    replace_histories(ctx)
    metadata_value_histories(ctx)
    unitary_dict_histories(ctx)
    unitary_keyset_histories(ctx)
    n = 300 if ctx.thorough else 150
    maxops = 25 if ctx.thorough else 12
    for hid in range(n):
        ctx.torch_seed()
        nops = int(ctx.rng.integers(max(4, maxops // 2), maxops + 1))
        one_history(ctx, hid, nops)
        if ctx.disagreements or len(ctx.failures) > 3:
            break


def search(ctx, broken, budget):
    t0 = time.time()
    n0 = len(ctx.failures)
    hid = 10000
    while time.time() - t0 < budget:
        ctx.torch_seed()
        nd = len(ctx.disagreements)
        one_history(ctx, hid, int(ctx.rng.integers(4, 16)))
        del ctx.disagreements[nd:]
        hid += 1
        if len(ctx.failures) > n0:
            return ctx.failures[n0]
    return None


def replay(ctx, rec):
    print("replay: re-running the generated histories with seed", rec.get("seed"))
    run(ctx)
